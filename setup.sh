#!/bin/bash
# Build the mirfacts driver and warm the dependency metadata cache (offline).
set -e
cd "$(dirname "$0")"
export CARGO_NET_OFFLINE=true
(cd engine/mirfacts && cargo build --release --offline)
mkdir -p .cache evidence replay
# warm: one extraction of the current tree (also validates the toolchain)
./engine/extract.sh /repo .cache/warmup-facts
rm -rf .cache/warmup-facts
echo "setup ok"
