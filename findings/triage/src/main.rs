use adlt::dlt::*;
use adlt::lifecycle::*;
use std::sync::mpsc::channel;

fn msg(index: u32, ecu: &[u8; 4], recv_ms: u64, ts_ms: u64) -> DltMessage {
    DltMessage {
        index,
        reception_time_us: recv_ms * 1000,
        ecu: DltChar4::from_buf(ecu),
        timestamp_dms: (ts_ms * 10) as u32,
        standard_header: DltStandardHeader { htyp: 1 << 4, len: 0, mcnt: 0 },
        extended_header: None,
        payload: vec![],
        payload_text: None,
        lifecycle: 0,
    }
}

fn run(stream: Vec<DltMessage>) -> (Vec<DltMessage>, Vec<(u32, String, u64, u32, bool)>) {
    let (tx, rx) = channel();
    let (tx2, rx2) = channel();
    for m in stream { tx.send(m).unwrap(); }
    drop(tx);
    let (lcs_r, lcs_w) = evmap::new::<LifecycleId, LifecycleItem>();
    let _lcs_w = parse_lifecycles_buffered_from_stream(lcs_w, rx, &|m| tx2.send(m));
    drop(tx2);
    let out: Vec<DltMessage> = rx2.iter().collect();
    let mut table = vec![];
    if let Some(r) = lcs_r.read() {
        let sorted = get_sorted_lifecycles_as_vec(&r);
        for lc in sorted {
            table.push((lc.id(), format!("{:?}", lc.ecu), lc.start_time, lc.nr_msgs, lc.is_resume()));
        }
    }
    (out, table)
}

fn msg_text(mstp_log: bool, text: &str) -> DltMessage {
    let mut m = msg(0, b"ECU1", 1000, 1000);
    // verb_mstp_mtin: verbose=1, mstp (bits 1..3), mtin (bits 4..7)
    let vmm: u8 = if mstp_log { 1 | (0 << 1) | (4 << 4) } else { 1 | (3 << 1) | (1 << 4) };
    m.extended_header = Some(DltExtendedHeader { verb_mstp_mtin: vmm, noar: 0, apid: DltChar4::from_buf(b"APID"), ctid: DltChar4::from_buf(b"CTID") });
    m.payload_text = Some(text.to_string());
    m
}

fn verbose_ctrl_response_u8() -> DltMessage {
    let mut m = msg(1, b"ECU1", 2000, 2000);
    // verbose control response: verb=1, mstp=3 (control), mtin=2 (response)
    m.extended_header = Some(DltExtendedHeader { verb_mstp_mtin: 1 | (3 << 1) | (2 << 4), noar: 1, apid: DltChar4::from_buf(b"APID"), ctid: DltChar4::from_buf(b"CTID") });
    // one verbose argument: type info UINT 8 bit (0x41), value 7
    m.payload = vec![0x41, 0, 0, 0, 7];
    m
}

fn main() {
    let which = std::env::args().nth(1).unwrap_or_default();
    if which == "m6" {
        // C04: seek-within-buffer below the start of the valid (compacted) window hands out stale bytes
        use std::io::{BufRead, Cursor, Read, Seek, SeekFrom};
        use adlt::utils::LowMarkBufReader;
        let src: Vec<u8> = (0..20000usize).map(|i| ((i * 7 + i / 256) % 251) as u8).collect();
        let mut r = LowMarkBufReader::new(Cursor::new(src.clone()), 8192, 100);
        r.fill_buf().unwrap();
        r.consume(8100); // 92 bytes left: below the low mark, the next fill compacts them to offset 4004
        r.fill_buf().unwrap();
        let target = 4096u64 + 10; // inside [abs_pos, abs_pos + offset): buffer bytes there are leftovers of the old window
        let res = r.seek(SeekFrom::Start(target));
        match res {
            Err(e) => {
                println!("seek to {} refused: {} (fine: the data is no longer buffered)", target, e);
                std::process::exit(0);
            }
            Ok(_) => {
                let mut got = [0u8; 16];
                r.read_exact(&mut got).unwrap();
                let want = &src[target as usize..target as usize + 16];
                println!("seek to {} accepted; read {:?}\n                     source has {:?}", target, got, want);
                std::process::exit(if got == want { 0 } else { 1 });
            }
        }
    }
    if which == "x3" {
        use std::io::{Cursor, Read};
        use adlt::utils::seekablechain::SeekableChain;
        let vols: Vec<Cursor<Vec<u8>>> = vec![Cursor::new(b"ab".to_vec()), Cursor::new(vec![]), Cursor::new(b"cd".to_vec())];
        let mut chain = SeekableChain::new(vols);
        let mut out = vec![];
        chain.read_to_end(&mut out).unwrap();
        println!("chain of [ab, <empty>, cd] read_to_end = {:?} (concatenation is \"abcd\")", String::from_utf8_lossy(&out));
        std::process::exit(if out == b"abcd" { 0 } else { 1 });
    }
    if which == "b1_lc" {
        let first = msg(0, b"ECU1", 1000, 1000);
        let (out, _t) = run(vec![first, verbose_ctrl_response_u8()]);
        println!("delivered {} msgs (no panic)", out.len());
        return;
    }
    if which == "b1_anon" {
        use adlt::plugins::plugin::Plugin;
        let cfg = serde_json::json!({"name":"Anonymize"});
        let mut p = adlt::plugins::anonymize::AnonymizePlugin::new("anon");
        let mut m = verbose_ctrl_response_u8();
        let r = p.process_msg(&mut m);
        println!("anonymize process_msg returned {} (no panic)", r);
        return;
    }
    if which == "b4" {
        use adlt::plugins::plugin::Plugin;
        let cfg = serde_json::json!({"name":"FileTransfer","allowSave":true});
        let mut p = adlt::plugins::file_transfer::FileTransferPlugin::from_json(cfg.as_object().unwrap()).unwrap();
        // FLST announcement with size, package count and buffer size u32::MAX
        let mut payload: Vec<u8> = vec![];
        let strg = |pl: &mut Vec<u8>, s: &str| { pl.extend_from_slice(&0x0000_0200u32.to_le_bytes()); pl.extend_from_slice(&((s.len() + 1) as u16).to_le_bytes()); pl.extend_from_slice(s.as_bytes()); pl.push(0); };
        let uint = |pl: &mut Vec<u8>, v: u32| { pl.extend_from_slice(&0x0000_0043u32.to_le_bytes()); pl.extend_from_slice(&v.to_le_bytes()); };
        strg(&mut payload, "FLST"); uint(&mut payload, 1); strg(&mut payload, "f.bin"); uint(&mut payload, u32::MAX); strg(&mut payload, "date"); uint(&mut payload, u32::MAX); uint(&mut payload, u32::MAX); strg(&mut payload, "FLST");
        let mut m = msg(0, b"ECU1", 1000, 1000);
        m.extended_header = Some(DltExtendedHeader { verb_mstp_mtin: 1 | (0 << 1) | (4 << 4), noar: 8, apid: DltChar4::from_buf(b"SYS\0"), ctid: DltChar4::from_buf(b"FILE") });
        m.payload = payload;
        let r = p.process_msg(&mut m);
        println!("file transfer process_msg returned {} (no panic)", r);
        return;
    }
    if which == "f1" {
        use adlt::filter::Filter;
        let f = Filter::from_json(r#"{"type":0,"mstp":3}"#).unwrap();
        let j = f.to_json();
        let f2 = Filter::from_json(&j).unwrap();
        let log = msg_text(true, "hello");
        let ctrl = msg_text(false, "hello");
        println!("to_json = {}", j);
        println!("original: matches(log)={} matches(ctrl)={}", f.matches(&log), f.matches(&ctrl));
        println!("reloaded: matches(log)={} matches(ctrl)={}", f2.matches(&log), f2.matches(&ctrl));
        let bad = f.matches(&log) != f2.matches(&log) || f.matches(&ctrl) != f2.matches(&ctrl);
        println!("{}", if bad { "C11 VIOLATED: serialised+reloaded filter decides differently" } else { "consistent" });
        std::process::exit(if bad { 1 } else { 0 });
    }
    if which == "f2" {
        use adlt::filter::Filter;
        let dlf = r#"<?xml version="1.0" encoding="UTF-8"?><dltfilter><filter><type>0</type><name>x</name><payloadtext>fOo</payloadtext><enablepayloadtext>1</enablepayloadtext><enablefilter>1</enablefilter></filter></dltfilter>"#;
        let fs = adlt::filter::functions::filters_from_dlf(std::io::BufReader::new(dlf.as_bytes())).unwrap();
        let fj = Filter::from_json(r#"{"type":0,"payload":"fOo"}"#).unwrap();
        let m = msg_text(true, "xx FOO yy");
        println!("dlf filter: ignore_case_payload={} matches={}", fs[0].ignore_case_payload, fs[0].matches(&m));
        println!("json filter: ignore_case_payload={} matches={}", fj.ignore_case_payload, fj.matches(&m));
        let bad = fs[0].matches(&m) != fj.matches(&m);
        println!("{}", if bad { "C11 VIOLATED: same abstract filter decides differently via DLF and JSON" } else { "consistent" });
        std::process::exit(if bad { 1 } else { 0 });
    }
    if which == "p4" {
        // A 1000/1000, B 61500/1000, A 62000/55000, B 100000/39500, A 132000/125000, A 133000/132000 (ms recv / ms timestamp)
        let s = vec![
            msg(0, b"ECUA", 1000, 1000), msg(1, b"ECUB", 61500, 6500), msg(2, b"ECUA", 62000, 55000),
            msg(3, b"ECUB", 123000, 62000), msg(4, b"ECUA", 124000, 123000),
        ];
        let (out, table) = run(s);
        println!("delivered {} msgs:", out.len());
        for m in &out { println!("  idx {} ecu {:?} lc {}", m.index, m.ecu, m.lifecycle); }
        println!("table:");
        let mut bad = false;
        for t in &table {
            let refs = out.iter().filter(|m| m.lifecycle == t.0).count();
            println!("  lc id {} ecu {} nr_msgs {} referenced_by_delivered {}", t.0, t.1, t.3, refs);
            if refs == 0 || refs as u32 != t.3 { bad = true; }
        }
        println!("{}", if bad { "C07 VIOLATED: listed lifecycle not referenced / count mismatch" } else { "consistent" });
        std::process::exit(if bad { 1 } else { 0 });
    }
    if which == "o1" {
        // c (ECU B, start 45s); a (ECU A start 50s); b resume of a whose start estimate drops to 41s
        let s = vec![
            msg(0, b"ECUB", 46_000, 1_000),
            msg(1, b"ECUA", 60_000, 10_000), msg(2, b"ECUA", 80_000, 30_000),
            msg(3, b"ECUA", 200_000, 100_000), msg(4, b"ECUA", 201_000, 160_000),
        ];
        let mut violations = 0;
        for round in 0..200 {
            let (_out, table) = run(s.clone());
            if round == 0 { for t in &table { println!("  {:?}", t); } }
            // find resume lc and the one it resumes: resumed must come earlier
            let ecu_a: Vec<usize> = table.iter().enumerate().filter(|(_, t)| t.1.contains("ECUA")).map(|(i, _)| i).collect();
            if ecu_a.len() == 2 {
                let (i0, i1) = (ecu_a[0], ecu_a[1]);
                // the resume one:
                let res_first = table[i0].4 && !table[i1].4;
                if res_first { violations += 1; if violations == 1 { println!("round {}: resumed lifecycle listed BEFORE the one it resumes: {:?}", round, table); } }
            }
        }
        println!("violating listings in 200 runs: {}", violations);
        std::process::exit(if violations > 0 { 1 } else { 0 });
    }
}
