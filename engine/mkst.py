#!/usr/bin/env python3
"""mkst.py: create a self-test patch from in-place string replacements.
usage (python): from mkst import mk; mk('C10','break-x','L1|live-drop','note',[('src/utils/mod.rs', old, new), ...])"""
import subprocess, os, sys
W = '/tmp/adlt-st-work'


def mk(prop, name, expect, note, edits):
    if not os.path.isdir(W + '/a'):
        subprocess.run(['/verif/engine/mkpatch.sh', 'begin'], check=True)
    subprocess.run(['rsync', '-a', '--delete', '/repo/src/', W + '/a/src/'], check=True)
    subprocess.run(['rsync', '-a', '--delete', W + '/a/src/', W + '/b/src/'], check=True)
    for (f, old, new) in edits:
        p = os.path.join(W, 'b', f)
        s = open(p).read()
        if s.count(old) != 1:
            raise SystemExit('%s: pattern occurs %d times in %s' % (name, s.count(old), f))
        open(p, 'w').write(s.replace(old, new))
    subprocess.run(['/verif/engine/mkpatch.sh', 'end', prop, name, expect, note], check=True, stdout=subprocess.DEVNULL)
    print('ok', prop, name)


def mk2(prop, name, expect, note, base_patch, edits):
    """like mk, but the edits are applied on top of a base patch (e.g. a benign refactoring or a stored seed)"""
    if not os.path.isdir(W + '/a'):
        subprocess.run(['/verif/engine/mkpatch.sh', 'begin'], check=True)
    subprocess.run(['rsync', '-a', '--delete', '/repo/src/', W + '/a/src/'], check=True)
    subprocess.run(['rsync', '-a', '--delete', W + '/a/src/', W + '/b/src/'], check=True)
    r = subprocess.run('grep -v "^# " %s | patch -p1 -s -d %s/b' % (base_patch, W), shell=True)
    if r.returncode != 0:
        raise SystemExit('%s: base patch does not apply' % name)
    subprocess.run('find %s/b -name "*.orig" -delete; find %s/b -name "*.rej" -delete' % (W, W), shell=True)
    for (f, old, new) in edits:
        p = os.path.join(W, 'b', f)
        s = open(p).read()
        if s.count(old) != 1:
            raise SystemExit('%s: pattern occurs %d times in %s' % (name, s.count(old), f))
        open(p, 'w').write(s.replace(old, new))
    subprocess.run(['/verif/engine/mkpatch.sh', 'end', prop, name, expect, note], check=True, stdout=subprocess.DEVNULL)
    print('ok', prop, name)
