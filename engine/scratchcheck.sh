#!/bin/bash
# scratchcheck.sh <patch.diff> <Cxx> [...] : like seedcheck.sh but on a scratch copy of /repo HEAD (does not touch /repo)
export ADLT_VERIF_EVIDENCE_DIR=/tmp/adlt-verif-scratch-evidence
P="$1"; shift
D=$(mktemp -d /tmp/adlt-scratch-XXXXXX)
(cd /repo && git archive HEAD | tar -x -C "$D") || exit 2
(cd "$D" && patch -p1 -s < "$P") || { echo "ERROR: patch does not apply"; rm -rf "$D"; exit 2; }
for c in "$@"; do out=$(cd /verif && ./check "$c" --repo "$D" 2>&1); rc=$?; echo "$out" | grep -v " ok " | cut -c1-400; echo "-- $c exit=$rc"; done
rm -rf "$D"
