#!/bin/bash
# helper for writing self-test variants:
#   mkpatch.sh begin            -> creates /tmp/adlt-st-work/{a,b} (copies of /repo's src tree); edit files under b/
#   mkpatch.sh end <Cxx> <name> <expect-text>  -> writes /verif/selftest/<Cxx>/<name>.patch and resets b/
W=/tmp/adlt-st-work
case "$1" in
 begin) rm -rf $W; mkdir -p $W/a $W/b; rsync -a /repo/src $W/a/; rsync -a /repo/src $W/b/ ;;
 end) mkdir -p /verif/selftest/$2; out=/verif/selftest/$2/$3.patch
      { echo "# expect: $4"; shift 4; for l in "$@"; do echo "# $l"; done; (cd $W && diff -ruN a b | sed 's#^--- a/#--- a/#; s#^+++ b/#+++ b/#'); } > $out
      rsync -a --delete $W/a/src/ $W/b/src/; echo "wrote $out"; grep -c '^@@' $out ;;
esac
