#!/bin/bash
# verify_seed.sh <dir with patch.diff demo.diff> <base commit> <cargo test args for the demo...>
# In a scratch worktree of /repo at <base>: demo with the change (must fail), demo without the change (must pass),
# full suite with the change (only the demo may fail).  Shares one target dir across calls.
D="$1"; BASE="$2"; shift 2
WT=/tmp/seedverify-wt
export CARGO_TARGET_DIR=/tmp/seedverify-target
git -C /repo worktree remove --force $WT 2>/dev/null; rm -rf $WT
git -C /repo worktree add -q $WT "$BASE" || exit 2
cd $WT || exit 2
git apply "$D/patch.diff" || { echo "patch.diff does not apply"; exit 2; }
git apply "$D/demo.diff" || { echo "demo.diff does not apply"; exit 2; }
echo "== demo WITH change:"; cargo test --offline "$@" 2>&1 | grep -a -E "^test result|\.\.\. FAILED|error\[" | head -6
git apply -R "$D/patch.diff" || exit 2
echo "== demo WITHOUT change:"; cargo test --offline "$@" 2>&1 | grep -a -E "^test result|\.\.\. FAILED|error\[" | head -6
git apply "$D/patch.diff"
echo "== suite WITH change:"; cargo nextest run --workspace --no-fail-fast --test-threads 8 --offline --tool-config-file pb:/w/lib/nextest.toml --profile pb 2>&1 | grep -a -E "Summary|^\s+FAIL" | sort -u | head -8
cd /; git -C /repo worktree remove --force $WT
