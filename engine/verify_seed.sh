#!/bin/bash
# verify_seed.sh <worktree> <cargo test args for the demo...>
# runs the demo with the change (must fail), without the source change (must pass) and the full suite with the change
WT="$1"; shift
cd "$WT" || exit 2
export CARGO_TARGET_DIR="$WT/target"
echo "== demo WITH change:"; cargo test --offline "$@" 2>&1 | grep -E "^test result|panicked at|FAILED|error\[" | head -5
git stash -q -- src || exit 2
echo "== demo WITHOUT change:"; cargo test --offline "$@" 2>&1 | grep -E "^test result|error\[" | head -5
git stash pop -q
echo "== suite WITH change:"; cargo nextest run --workspace --no-fail-fast --test-threads 8 --offline --tool-config-file pb:/w/lib/nextest.toml --profile pb 2>&1 | grep -E "Summary|^\s+FAIL" | head -8
