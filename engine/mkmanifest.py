#!/usr/bin/env python3
"""Regenerates /verif/MANIFEST.json from the rule modules present in engine/rules (cXX.py) and the
not-applicable table below.  Run after adding/removing a property module."""
import os, sys, json, importlib
VERIF = os.path.abspath(os.path.join(os.path.dirname(__file__), '..'))
sys.path.insert(0, os.path.join(VERIF, 'engine', 'rules'))

NOT_APPLICABLE = {
    'C08': 'exactness of lifecycle detection on clean traces is the numeric outcome of a chain of comparisons between runtime times; no clause of it is visible in the shape of the code beyond what C05/C07 already decide, and no sound static value-range argument is in reach here',
    'C14': 'the guarantee is about the meaning of option combinations and index/lifecycle-id arithmetic on generated inputs; its only shape-level pieces (output goes through to_write, indices assigned before filters, plugins/filters do not touch index) are decided under C02 (W3), C19 (E2) and C12 and would add nothing under a separate label',
}
PENDING_REASON = 'static rules for this property are designed (DESIGN.md section 5) but not yet implemented in this revision; not claimed until the check exists'

props = [json.loads(l)['id'] for l in open(os.path.join(VERIF, 'properties.jsonl'))]
checks = []
na = []
served = []
for pid in props:
    modfile = os.path.join(VERIF, 'engine', 'rules', pid.lower() + '.py')
    if pid in NOT_APPLICABLE:
        na.append({'property_id': pid, 'reason': NOT_APPLICABLE[pid]})
        continue
    if not os.path.exists(modfile):
        na.append({'property_id': pid, 'reason': PENDING_REASON})
        continue
    mod = importlib.import_module(pid.lower())
    m = getattr(mod, 'MANIFEST', {})
    served.append(pid)
    checks.append({
        'property_id': pid,
        'quick_cmd': './check %s --tier quick' % pid,
        'thorough_cmd': './check %s --tier thorough' % pid,
        'evidence_file': '/verif/evidence/%s.json' % pid,
        'replay_cmd_template': './check %s --replay {path}' % pid,
        'engine': 'mirfacts+rules',
        'level_claimed': {'category': mod.LEVEL, 'text': m.get('text', mod.EXPLANATION), 'design_ref': m.get('design_ref', 'DESIGN.md section 5, ' + pid)},
        'level_note': m.get('note', 'trusted: rustc nightly MIR construction/borrowck/drop elaboration, the mirfacts extractor, the rule code and idiom tables; decides the named structural clauses only, on normal (non-unwinding) paths'),
        'technique': m.get('technique', 'static analysis: custom MIR dataflow/path rules over a rustc_private fact dump'),
    })
man = {
    'version': 1,
    'setup_cmd': './setup.sh',
    'hooks': {
        'guard': '--cfg adlt_verif',
        'enable': 'none needed: the analysis reads the current source of /repo through a rustc driver (cargo +nightly check with RUSTC_WORKSPACE_WRAPPER=engine/mirfacts); no hooks are compiled into adlt',
        'baseline_off_cmd': 'cd /repo && (cargo nextest run --workspace --no-fail-fast --test-threads 8 --offline || cargo test --workspace --no-fail-fast --offline)',
        'source_commits': [],
        'add_only': True,
    },
    'engines': [
        {'name': 'mirfacts', 'path': 'engine/mirfacts', 'serves_properties': served,
         'kind_free_text': 'rustc_private compiler driver dumping resolved, borrow-checked, drop-elaborated MIR of the adlt lib and bin as JSON facts (static; nothing of adlt is executed)'},
        {'name': 'rules', 'path': 'engine/rules', 'serves_properties': served,
         'kind_free_text': 'Python rule library: CFG/dominators, expression folding, path exploration with drop-flag and enum-variant propagation, ownership/linearity, effects, who-may-call, table agreement; one module per property'},
    ],
    'checks': checks,
    'not_applicable': na,
    'notes': 'Technique family: static analysis only. Every check decides named structural clauses of its property from the current source (see level_claimed.text and the assumptions list in each evidence file); behaviour over runtime values is not claimed. Thorough tier additionally runs the checker self-test corpus (selftest/<id>/*.patch: breaking variants must fire with the expected key, benign refactors must stay silent).',
}
json.dump(man, open(os.path.join(VERIF, 'MANIFEST.json'), 'w'), indent=1)
print('checks:', [c['property_id'] for c in checks])
print('not_applicable:', [n['property_id'] for n in na])
