#!/bin/bash
# benigncheck.sh <patch> : apply a behaviour-preserving patch to /repo, run ALL checks (quick), report any alarm, undo
export ADLT_VERIF_EVIDENCE_DIR=/tmp/adlt-verif-scratch-evidence
P="$1"
cd /repo || exit 2
if ! git diff --quiet; then echo "ERROR: /repo has uncommitted changes"; exit 2; fi
git apply "$P" || { echo "ERROR: patch does not apply: $P"; exit 2; }
echo "== $P"
for c in C01 C02 C03 C04 C05 C06 C07 C09 C10 C11 C12 C13 C15 C16 C17 C18 C19 C20; do
  out=$(cd /verif && ./check $c 2>&1); rc=$?
  if [ $rc -ne 0 ]; then echo "  $c rc=$rc"; echo "$out" | grep "key=\|machinery\|Traceback\|Error" | head -8 | cut -c1-300; fi
done
git checkout -- .
