#!/bin/bash
# addbenign.sh <diff> <name> <note> <Cxx> [<Cyy>...] : install a behaviour-preserving diff as benign selftest of the given properties
D="$1"; N="$2"; NOTE="$3"; shift 3
for c in "$@"; do
  mkdir -p /verif/selftest/$c
  { echo "# expect: "; echo "# $NOTE (behaviour-preserving refactoring written by an independent agent)"; cat "$D"; } > /verif/selftest/$c/benign-$N.patch
done
