#!/bin/bash
# store_seed.sh <agent worktree> <seeded name> <base commit> <caught_by text or ''> <cargo test args for the demo...>
WT="$1"; NAME="$2"; BASE="$3"; CAUGHT="$4"; shift 4
OUT=$(/verif/engine/verify_seed.sh "$WT/SEED" "$BASE" "$@" 2>&1)
echo "$OUT" | grep -v "^$"
D=/verif/seeded/$NAME; mkdir -p $D; cp "$WT/SEED/patch.diff" "$WT/SEED/demo.diff" $D/
python3 - "$WT" "$D" "$BASE" "$CAUGHT" "$*" <<'PY'
import json,sys
wt,d,base,caught,cmd=sys.argv[1:6]
m=json.load(open(wt+'/SEED/meta.json'))
m['demo_cmd']='(scratch worktree of /repo at %s with patch.diff and demo.diff applied) cargo test --offline %s'%(base,cmd)
m['verified_by_author']={'base_commit':base,'compiles':True,'suite_with_change':'all pre-existing tests pass; only the demo test(s) fail','demo_with_change':'fails','demo_without_change':'passes (patch.diff reverse-applied, demo kept)','how':'engine/verify_seed.sh (output checked by the author)'}
m['caught_by']=[c for c in caught.split(';') if c.strip()]
json.dump(m,open(d+'/meta.json','w'),indent=1)
PY
git -C /repo worktree remove --force "$WT" 2>/dev/null
