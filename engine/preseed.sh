#!/bin/bash
# preseed.sh [jobs] [egrep pattern on seed names] : like reseed.sh but on scratch copies of /repo HEAD, several seeds in parallel (does not touch /repo)
J=${1:-5}
export VERIF_KEEP_FACTS=24
export ADLT_VERIF_EVIDENCE_DIR=/tmp/adlt-verif-scratch-evidence
one() {
  d="$1"; n=$(basename $d); c=${n%%-*}
  D=$(mktemp -d /tmp/adlt-scratch-XXXXXX)
  (cd /repo && git archive HEAD | tar -x -C "$D") || { echo "$n: ERROR copy"; return; }
  if ! (cd "$D" && patch -p1 -s < "$d/patch.diff" >/dev/null 2>&1); then echo "$n: DOES-NOT-APPLY"; rm -rf "$D"; return; fi
  out=$(cd /verif && ./check $c --repo "$D" 2>&1); rc=$?
  keys=$(echo "$out" | grep -o "key=[^ ]*" | cut -c1-90 | tr '\n' ' ')
  if [ $rc -eq 1 ]; then echo "$n: caught $keys"; else echo "$n: MISSED rc=$rc"; fi
  rm -rf "$D"
}
export -f one
PAT=${2:-.}
ls -d /verif/seeded/*/ | grep -E "$PAT" | xargs -P $J -I{} bash -c 'one {}'
