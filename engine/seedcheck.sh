#!/bin/bash
# seedcheck.sh <patch.diff> <Cxx> [<Cyy> ...] : apply a seeded change to /repo, run the checks, undo it
export ADLT_VERIF_EVIDENCE_DIR=/tmp/adlt-verif-scratch-evidence
P="$1"; shift
cd /repo || exit 2
if ! git diff --quiet; then echo "ERROR: /repo has uncommitted changes"; exit 2; fi
git apply "$P" || { echo "ERROR: patch does not apply"; exit 2; }
for c in "$@"; do out=$(cd /verif && ./check "$c" 2>&1); rc=$?; echo "$out" | grep -v " ok " | cut -c1-400; echo "-- $c exit=$rc"; done
git checkout -- . ; git status --short | grep -v "^??" | head -3
