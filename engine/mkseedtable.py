#!/usr/bin/env python3
"""prints the markdown table of seeded changes (from seeded/*/meta.json) and rewrites the block between the
<!-- seeded-table --> markers in DESIGN.md"""
import json, glob, os, re
V = os.path.abspath(os.path.join(os.path.dirname(__file__), '..'))
rows = []
for p in sorted(glob.glob(os.path.join(V, 'seeded', '*', 'meta.json'))):
    m = json.load(open(p))
    name = os.path.basename(os.path.dirname(p))
    caught = m.get('caught_by') or []
    summ = (m.get('summary') or '').replace('\n', ' ').replace('|', '/')
    summ = re.sub(r'\s+', ' ', summ)[:230]
    need = re.sub(r'\s+', ' ', (m.get('needs_to_manifest') or '').replace('|', '/'))[:160]
    rows.append('| `%s` | %s | %s | %s |' % (name, summ, need, '; '.join(caught) if caught else '**not caught** - ' + (m.get('not_caught_reason') or '')))
tab = '| seeded change | what it does | needs to manifest | caught by |\n|---|---|---|---|\n' + '\n'.join(rows)
n_c = sum(1 for r in rows if '**not caught**' not in r)
tab += '\n\n%d seeded changes, %d caught, %d not caught.\n' % (len(rows), n_c, len(rows) - n_c)
d = open(os.path.join(V, 'DESIGN.md')).read()
a, b = '<!-- seeded-table -->', '<!-- /seeded-table -->'
if a in d:
    d = d[:d.index(a) + len(a)] + '\n' + tab + '\n' + d[d.index(b):]
else:
    d += '\n' + a + '\n' + tab + '\n' + b + '\n'
open(os.path.join(V, 'DESIGN.md'), 'w').write(d)
print(tab[-200:])
