// mirfacts: a rustc_private driver that dumps the resolved, drop-elaborated MIR of the adlt
// crates (library and binary) as JSON facts for the rule library in /verif/engine/rules.
//
// Usage (as RUSTC_WORKSPACE_WRAPPER): mirfacts <path-to-rustc> <rustc args...>
// Env: MIRFACTS_OUT=<dir>  -> writes <dir>/lib.json or <dir>/bin.json for crates named `adlt`
//      MIRFACTS_CRATE=<name> (default adlt)
#![feature(rustc_private)]
#![allow(clippy::all)]

extern crate rustc_abi;
extern crate rustc_driver;
extern crate rustc_hir;
extern crate rustc_interface;
extern crate rustc_middle;
extern crate rustc_span;

use rustc_hir::def::DefKind;
use rustc_hir::def_id::{DefId, LocalDefId, LOCAL_CRATE};
use rustc_middle::mir::{self, Body, Operand, Place, ProjectionElem, Rvalue, StatementKind, TerminatorKind};
use rustc_middle::ty::print::PrintTraitRefExt;
use rustc_middle::ty::{self, Ty, TyCtxt};
use rustc_span::Span;
use std::collections::HashSet;
use std::fmt::Write as _;

macro_rules! np {
    ($e:expr) => {
        ty::print::with_crate_prefix!(ty::print::with_no_trimmed_paths!($e))
    };
}

// ---------------------------------------------------------------- tiny JSON value
enum V {
    Null,
    B(bool),
    I(i128),
    S(String),
    A(Vec<V>),
    O(Vec<(&'static str, V)>),
}

fn esc(s: &str, out: &mut String) {
    out.push('"');
    for c in s.chars() {
        match c {
            '"' => out.push_str("\\\""),
            '\\' => out.push_str("\\\\"),
            '\n' => out.push_str("\\n"),
            '\r' => out.push_str("\\r"),
            '\t' => out.push_str("\\t"),
            c if (c as u32) < 0x20 => {
                let _ = write!(out, "\\u{:04x}", c as u32);
            }
            c => out.push(c),
        }
    }
    out.push('"');
}

impl V {
    fn write(&self, out: &mut String) {
        match self {
            V::Null => out.push_str("null"),
            V::B(b) => out.push_str(if *b { "true" } else { "false" }),
            V::I(i) => {
                let _ = write!(out, "{}", i);
            }
            V::S(s) => esc(s, out),
            V::A(a) => {
                out.push('[');
                for (i, v) in a.iter().enumerate() {
                    if i > 0 {
                        out.push(',');
                    }
                    v.write(out);
                }
                out.push(']');
            }
            V::O(o) => {
                out.push('{');
                for (i, (k, v)) in o.iter().enumerate() {
                    if i > 0 {
                        out.push(',');
                    }
                    esc(k, out);
                    out.push(':');
                    v.write(out);
                }
                out.push('}');
            }
        }
    }
}

fn s<T: Into<String>>(x: T) -> V {
    V::S(x.into())
}

// ---------------------------------------------------------------- context
struct Cx<'tcx> {
    tcx: TyCtxt<'tcx>,
    tag: &'static str, // "adlt" for the lib, "adlt_bin" for the binary
}

impl<'tcx> Cx<'tcx> {
    fn fix(&self, p: String) -> String {
        if p.contains("crate::") {
            p.replace("crate::", &format!("{}::", self.tag))
        } else {
            p
        }
    }
    fn path(&self, did: DefId) -> String {
        let p = np!((self.tcx.def_path_str(did)));
        self.fix(p)
    }
    fn path_args(&self, did: DefId, args: ty::GenericArgsRef<'tcx>) -> String {
        let p = np!((self
            .tcx
            .def_path_str_with_args(did, args)));
        self.fix(p)
    }
    fn ty_str(&self, t: Ty<'tcx>) -> String {
        let p = np!((format!("{}", t)));
        self.fix(p)
    }

    fn is_dlt_message(&self, did: DefId) -> bool {
        let p = ty::print::with_no_trimmed_paths!(self.tcx.def_path_str(did));
        p == "dlt::DltMessage" || p == "adlt::dlt::DltMessage"
    }

    /// does a value of this type own a DltMessage by value (not through & or *)?
    fn carries_msg(&self, t: Ty<'tcx>, depth: usize, seen: &mut HashSet<Ty<'tcx>>) -> bool {
        if depth > 12 || !seen.insert(t) {
            return false;
        }
        let r = match t.kind() {
            ty::Adt(def, args) => {
                if self.is_dlt_message(def.did()) {
                    true
                } else if self.is_borrowing_adt(def.did()) {
                    false
                } else {
                    let mut any = false;
                    for a in args.iter() {
                        if let Some(at) = a.as_type() {
                            if self.carries_msg(at, depth + 1, seen) {
                                any = true;
                                break;
                            }
                        }
                    }
                    if !any && (def.did().is_local() || self.adt_is_adlt(def.did())) && !def.is_union() {
                        'outer: for v in def.variants().iter() {
                            for f in v.fields.iter() {
                                let ft = f.ty(self.tcx, args);
                                if self.carries_msg(ft, depth + 1, seen) {
                                    any = true;
                                    break 'outer;
                                }
                            }
                        }
                    }
                    any
                }
            }
            ty::Tuple(ts) => ts.iter().any(|x| self.carries_msg(x, depth + 1, seen)),
            ty::Array(e, _) | ty::Slice(e) => self.carries_msg(*e, depth + 1, seen),
            ty::Closure(_, args) => {
                let ca = args.as_closure();
                ca.upvar_tys().iter().any(|x| self.carries_msg(x, depth + 1, seen))
            }
            ty::Dynamic(preds, ..) => {
                let mut any = false;
                for p in preds.iter() {
                    if let ty::ExistentialPredicate::Projection(pr) = p.skip_binder() {
                        if let Some(tt) = pr.term.as_type() {
                            if self.carries_msg(tt, depth + 1, seen) {
                                any = true;
                            }
                        }
                    }
                }
                any
            }
            _ => false,
        };
        seen.remove(&t);
        r
    }
    /// std iterator/guard types that only borrow their element type
    fn is_borrowing_adt(&self, did: DefId) -> bool {
        if did.is_local() {
            return false;
        }
        let p = ty::print::with_no_trimmed_paths!(self.tcx.def_path_str(did));
        p.ends_with("::Iter")
            || p.ends_with("::IterMut")
            || p.ends_with("::Ref")
            || p.ends_with("::RefMut")
            || p.ends_with("Guard")
            || p.ends_with("::ReadHandle")
            || p.ends_with("::WriteHandle")
            || p.ends_with("::Sender")
            || p.ends_with("::SyncSender")
            || p.ends_with("::PhantomData")
    }
    fn adt_is_adlt(&self, did: DefId) -> bool {
        self.tcx.crate_name(did.krate).as_str() == "adlt"
    }
    fn carries(&self, t: Ty<'tcx>) -> bool {
        let mut seen = HashSet::new();
        self.carries_msg(t, 0, &mut seen)
    }
    fn is_msg_ref(&self, t: Ty<'tcx>) -> bool {
        match t.kind() {
            ty::Ref(_, inner, _) => match inner.kind() {
                ty::Adt(def, _) => self.is_dlt_message(def.did()),
                _ => false,
            },
            _ => false,
        }
    }

    fn span(&self, sp: Span) -> V {
        let sm = self.tcx.sess.source_map();
        let exp = sp.from_expansion();
        let mut macros: Vec<V> = Vec::new();
        if exp {
            for e in sp.macro_backtrace() {
                macros.push(s(e.kind.descr().to_string()));
                if macros.len() >= 6 {
                    break;
                }
            }
        }
        let cs = if exp { sp.source_callsite() } else { sp };
        let loc = sm.lookup_char_pos(cs.lo());
        let file = match &loc.file.name {
            rustc_span::FileName::Real(r) => match r.local_path() {
                Some(p) => p.to_string_lossy().to_string(),
                None => format!("{:?}", r),
            },
            other => format!("{:?}", other),
        };
        V::O(vec![
            ("f", s(file)),
            ("l", V::I(loc.line as i128)),
            ("c", V::I(loc.col.0 as i128)),
            ("m", if exp { V::A(macros) } else { V::Null }),
        ])
    }

    fn place(&self, body: &Body<'tcx>, p: &Place<'tcx>) -> V {
        let tcx = self.tcx;
        let mut pt = mir::PlaceTy::from_ty(body.local_decls[p.local].ty);
        let mut projs: Vec<V> = Vec::new();
        for elem in p.projection.iter() {
            let v = match elem {
                ProjectionElem::Deref => V::O(vec![("k", s("deref"))]),
                ProjectionElem::Field(f, fty) => {
                    let mut name = format!("{}", f.index());
                    let mut owner = String::new();
                    match pt.ty.kind() {
                        ty::Adt(def, _) => {
                            let vi = pt.variant_index.unwrap_or(rustc_abi::FIRST_VARIANT);
                            if !def.is_union() || true {
                                let var = def.variant(vi);
                                if f.index() < var.fields.len() {
                                    name = var.fields[f].name.to_string();
                                }
                                owner = self.path(def.did());
                                if def.is_enum() {
                                    owner = format!("{}::{}", owner, var.name);
                                }
                            }
                        }
                        ty::Closure(did, _) => {
                            owner = self.path(*did);
                            if let Some(ld) = did.as_local() {
                                let caps = tcx.closure_captures(ld);
                                if f.index() < caps.len() {
                                    name = format!("{}", caps[f.index()].to_symbol());
                                }
                            }
                        }
                        ty::Tuple(_) => {
                            owner = "tuple".to_string();
                        }
                        _ => {}
                    }
                    V::O(vec![
                        ("k", s("f")),
                        ("i", V::I(f.index() as i128)),
                        ("n", s(name)),
                        ("o", s(owner)),
                        ("t", s(self.ty_str(fty))),
                    ])
                }
                ProjectionElem::Downcast(name, vi) => V::O(vec![
                    ("k", s("dc")),
                    ("n", match name {
                        Some(n) => s(n.to_string()),
                        None => V::Null,
                    }),
                    ("i", V::I(vi.as_u32() as i128)),
                ]),
                ProjectionElem::Index(l) => V::O(vec![("k", s("idx")), ("l", V::I(l.as_u32() as i128))]),
                ProjectionElem::ConstantIndex { offset, min_length, from_end } => V::O(vec![
                    ("k", s("cidx")),
                    ("off", V::I(offset as i128)),
                    ("min", V::I(min_length as i128)),
                    ("fe", V::B(from_end)),
                ]),
                ProjectionElem::Subslice { from, to, from_end } => V::O(vec![
                    ("k", s("sub")),
                    ("from", V::I(from as i128)),
                    ("to", V::I(to as i128)),
                    ("fe", V::B(from_end)),
                ]),
                ProjectionElem::OpaqueCast(_) => V::O(vec![("k", s("opaque"))]),
                ProjectionElem::UnwrapUnsafeBinder(_) => V::O(vec![("k", s("unwrap_binder"))]),
            };
            projs.push(v);
            pt = pt.projection_ty(tcx, elem);
        }
        V::O(vec![("l", V::I(p.local.as_u32() as i128)), ("p", V::A(projs)), ("t", s(self.ty_str(pt.ty)))])
    }

    fn fn_info(&self, owner: LocalDefId, did: DefId, args: ty::GenericArgsRef<'tcx>) -> Vec<(&'static str, V)> {
        let tcx = self.tcx;
        let mut o: Vec<(&'static str, V)> = Vec::new();
        o.push(("path", s(self.path(did))));
        o.push(("path_args", s(self.path_args(did, args))));
        o.push(("local", V::B(did.is_local())));
        o.push(("krate", s(tcx.crate_name(did.krate).to_string())));
        // trait?
        if let Some(tr) = tcx.trait_of_assoc(did) {
            o.push(("trait", s(self.path(tr))));
            if args.len() > 0 {
                if let Some(st) = args[0].as_type() {
                    o.push(("self_ty", s(self.ty_str(st))));
                    o.push(("is_dyn", V::B(matches!(st.kind(), ty::Dynamic(..)))));
                }
            }
        } else if let Some(im) = tcx.impl_of_assoc(did) {
            let st = tcx.type_of(im).instantiate_identity().skip_norm_wip();
            o.push(("impl_self", s(self.ty_str(st))));
        }
        // resolve
        let env = ty::TypingEnv::post_analysis(tcx, owner.to_def_id());
        let mut resolved = V::Null;
        let mut resolved_kind = "-";
        if let Ok(nargs) = tcx.try_normalize_erasing_regions(env, ty::Unnormalized::new_wip(args)) {
            if let Ok(Some(inst)) = ty::Instance::try_resolve(tcx, env, did, nargs) {
                let rd = inst.def_id();
                resolved = s(self.path(rd));
                resolved_kind = match inst.def {
                    ty::InstanceKind::Item(_) => "item",
                    ty::InstanceKind::Virtual(..) => "virtual",
                    ty::InstanceKind::ClosureOnceShim { .. } => "closure_once",
                    ty::InstanceKind::FnPtrShim(..) => "fnptr",
                    ty::InstanceKind::DropGlue(..) => "dropglue",
                    ty::InstanceKind::CloneShim(..) => "cloneshim",
                    ty::InstanceKind::Intrinsic(_) => "intrinsic",
                    _ => "other",
                };
            }
        }
        o.push(("resolved", resolved));
        o.push(("rkind", s(resolved_kind)));
        o
    }

    fn operand(&self, owner: LocalDefId, body: &Body<'tcx>, op: &Operand<'tcx>) -> V {
        let tcx = self.tcx;
        match op {
            Operand::Copy(p) => V::O(vec![("k", s("copy")), ("p", self.place(body, p))]),
            Operand::Move(p) => V::O(vec![("k", s("move")), ("p", self.place(body, p))]),
            Operand::Constant(c) => {
                let cty = c.const_.ty();
                let mut o: Vec<(&'static str, V)> = vec![("k", s("const")), ("t", s(self.ty_str(cty)))];
                match cty.kind() {
                    ty::FnDef(did, args) => {
                        o.push(("fn", V::O(self.fn_info(owner, *did, args))));
                    }
                    ty::Closure(did, _) => {
                        o.push(("closure", s(self.path(*did))));
                    }
                    _ => {
                        if let mir::Const::Unevaluated(uv, _) = c.const_ {
                            if let Some(pi) = uv.promoted {
                                o.push(("promoted", V::I(pi.as_u32() as i128)));
                            }
                        }
                        let env = ty::TypingEnv::post_analysis(tcx, owner.to_def_id());
                        if cty.is_integral() || cty.is_bool() || cty.is_char() {
                            if let Some(si) = c.const_.try_eval_scalar_int(tcx, env) {
                                let size = si.size();
                                let bits = si.to_bits(size);
                                let val: i128 = if cty.is_signed() {
                                    size.sign_extend(bits) as i128
                                } else {
                                    bits as i128
                                };
                                o.push(("v", V::I(val)));
                            }
                        }
                        let mut d = self.fix(np!((format!("{}", c.const_))));
                        if d.len() > 400 {
                            let mut cut = 400;
                            while !d.is_char_boundary(cut) {
                                cut -= 1;
                            }
                            d.truncate(cut);
                        }
                        o.push(("s", s(d)));
                    }
                }
                V::O(o)
            }
            #[allow(unreachable_patterns)]
            _ => V::O(vec![("k", s("other")), ("s", s(format!("{:?}", op)))]),
        }
    }

    fn rvalue(&self, owner: LocalDefId, body: &Body<'tcx>, rv: &Rvalue<'tcx>) -> V {
        match rv {
            Rvalue::Use(op, ..) => V::O(vec![("k", s("use")), ("o", self.operand(owner, body, op))]),
            Rvalue::Repeat(op, n) => V::O(vec![
                ("k", s("repeat")),
                ("o", self.operand(owner, body, op)),
                ("n", s(format!("{}", n))),
            ]),
            Rvalue::Ref(_, bk, p) => V::O(vec![
                ("k", s("ref")),
                ("mut", V::B(matches!(bk, mir::BorrowKind::Mut { .. }))),
                ("p", self.place(body, p)),
            ]),
            Rvalue::RawPtr(k, p) => V::O(vec![
                ("k", s("rawptr")),
                ("mut", V::B(format!("{:?}", k).contains("Mut"))),
                ("p", self.place(body, p)),
            ]),
            Rvalue::Cast(ck, op, t) => V::O(vec![
                ("k", s("cast")),
                ("ck", s(format!("{:?}", ck))),
                ("o", self.operand(owner, body, op)),
                ("t", s(self.ty_str(*t))),
            ]),
            Rvalue::BinaryOp(bop, ops) => V::O(vec![
                ("k", s("bin")),
                ("op", s(format!("{:?}", bop))),
                ("a", self.operand(owner, body, &ops.0)),
                ("b", self.operand(owner, body, &ops.1)),
            ]),
            Rvalue::UnaryOp(uop, op) => V::O(vec![
                ("k", s("un")),
                ("op", s(format!("{:?}", uop))),
                ("a", self.operand(owner, body, op)),
            ]),
            Rvalue::Discriminant(p) => V::O(vec![("k", s("discr")), ("p", self.place(body, p))]),
            Rvalue::Aggregate(ak, ops) => {
                let mut o: Vec<(&'static str, V)> = vec![("k", s("agg"))];
                match &**ak {
                    mir::AggregateKind::Array(_) => o.push(("ak", s("array"))),
                    mir::AggregateKind::Tuple => o.push(("ak", s("tuple"))),
                    mir::AggregateKind::Adt(did, vi, _args, _, _active) => {
                        o.push(("ak", s("adt")));
                        let def = self.tcx.adt_def(*did);
                        o.push(("adt", s(self.path(*did))));
                        let var = def.variant(*vi);
                        o.push(("variant", s(var.name.to_string())));
                        o.push(("fields", V::A(var.fields.iter().map(|f| s(f.name.to_string())).collect())));
                    }
                    mir::AggregateKind::Closure(did, _) => {
                        o.push(("ak", s("closure")));
                        o.push(("closure", s(self.path(*did))));
                        if let Some(ld) = did.as_local() {
                            let caps = self.tcx.closure_captures(ld);
                            o.push((
                                "fields",
                                V::A(caps.iter().map(|c| s(format!("{}", c.to_symbol()))).collect()),
                            ));
                        }
                    }
                    other => {
                        o.push(("ak", s("other")));
                        o.push(("s", s(format!("{:?}", other))));
                    }
                }
                o.push(("ops", V::A(ops.iter().map(|x| self.operand(owner, body, x)).collect())));
                V::O(o)
            }
            Rvalue::CopyForDeref(p) => V::O(vec![
                ("k", s("use")),
                ("o", V::O(vec![("k", s("copy")), ("p", self.place(body, p))])),
            ]),
            other => V::O(vec![("k", s("other")), ("s", s(format!("{:?}", other)))]),
        }
    }

    fn blocks_of(&self, did: LocalDefId, body: &Body<'tcx>) -> V {
        let tcx = self.tcx;
        let mut blocks: Vec<V> = Vec::new();
        for (_bb, data) in body.basic_blocks.iter_enumerated() {
            let mut stmts: Vec<V> = Vec::new();
            for st in data.statements.iter() {
                match &st.kind {
                    StatementKind::Assign(b) => {
                        let (p, rv) = &**b;
                        stmts.push(V::O(vec![
                            ("k", s("assign")),
                            ("p", self.place(body, p)),
                            ("rv", self.rvalue(did, body, rv)),
                            ("sp", self.span(st.source_info.span)),
                        ]));
                    }
                    StatementKind::SetDiscriminant { place, variant_index } => {
                        stmts.push(V::O(vec![
                            ("k", s("setdiscr")),
                            ("p", self.place(body, place)),
                            ("i", V::I(variant_index.as_u32() as i128)),
                            ("sp", self.span(st.source_info.span)),
                        ]));
                    }
                    _ => {}
                }
            }
            let term = data.terminator();
            let tsp = self.span(term.source_info.span);
            let t = match &term.kind {
                TerminatorKind::Goto { target } => V::O(vec![("k", s("goto")), ("t", V::I(target.as_u32() as i128))]),
                TerminatorKind::SwitchInt { discr, targets } => {
                    let mut vals: Vec<V> = Vec::new();
                    for (v, t) in targets.iter() {
                        vals.push(V::A(vec![V::I(v as i128), V::I(t.as_u32() as i128)]));
                    }
                    V::O(vec![
                        ("k", s("switch")),
                        ("d", self.operand(did, body, discr)),
                        ("vals", V::A(vals)),
                        ("otherwise", V::I(targets.otherwise().as_u32() as i128)),
                    ])
                }
                TerminatorKind::Return => V::O(vec![("k", s("return"))]),
                TerminatorKind::Unreachable => V::O(vec![("k", s("unreachable"))]),
                TerminatorKind::UnwindResume => V::O(vec![("k", s("resume"))]),
                TerminatorKind::UnwindTerminate(_) => V::O(vec![("k", s("terminate"))]),
                TerminatorKind::Drop { place, target, unwind, .. } => {
                    let pt = place.ty(body, tcx).ty;
                    V::O(vec![
                        ("k", s("drop")),
                        ("p", self.place(body, place)),
                        ("ty", s(self.ty_str(pt))),
                        ("cm", V::B(self.carries(pt))),
                        ("t", V::I(target.as_u32() as i128)),
                        ("u", unwind_v(unwind)),
                    ])
                }
                TerminatorKind::Call { func, args, destination, target, unwind, .. } => {
                    let mut oo: Vec<(&'static str, V)> = vec![("k", s("call"))];
                    oo.push(("f", self.operand(did, body, func)));
                    oo.push(("args", V::A(args.iter().map(|a| self.operand(did, body, &a.node)).collect())));
                    oo.push(("dest", self.place(body, destination)));
                    oo.push(("t", match target {
                        Some(t) => V::I(t.as_u32() as i128),
                        None => V::Null,
                    }));
                    oo.push(("u", unwind_v(unwind)));
                    V::O(oo)
                }
                TerminatorKind::Assert { cond, expected, msg, target, unwind } => {
                    let (ak, aops): (String, Vec<V>) = match &**msg {
                        mir::AssertKind::BoundsCheck { len, index } => (
                            "BoundsCheck".to_string(),
                            vec![self.operand(did, body, len), self.operand(did, body, index)],
                        ),
                        mir::AssertKind::Overflow(op, a, b) => (
                            format!("Overflow({:?})", op),
                            vec![self.operand(did, body, a), self.operand(did, body, b)],
                        ),
                        mir::AssertKind::OverflowNeg(a) => ("OverflowNeg".to_string(), vec![self.operand(did, body, a)]),
                        mir::AssertKind::DivisionByZero(a) => {
                            ("DivisionByZero".to_string(), vec![self.operand(did, body, a)])
                        }
                        mir::AssertKind::RemainderByZero(a) => {
                            ("RemainderByZero".to_string(), vec![self.operand(did, body, a)])
                        }
                        other => (format!("{:?}", other).chars().take(60).collect(), vec![]),
                    };
                    V::O(vec![
                        ("k", s("assert")),
                        ("cond", self.operand(did, body, cond)),
                        ("expected", V::B(*expected)),
                        ("ak", s(ak)),
                        ("ops", V::A(aops)),
                        ("t", V::I(target.as_u32() as i128)),
                        ("u", unwind_v(unwind)),
                    ])
                }
                TerminatorKind::FalseEdge { real_target, .. } => {
                    V::O(vec![("k", s("goto")), ("t", V::I(real_target.as_u32() as i128))])
                }
                TerminatorKind::FalseUnwind { real_target, .. } => {
                    V::O(vec![("k", s("goto")), ("t", V::I(real_target.as_u32() as i128))])
                }
                other => V::O(vec![("k", s("other")), ("s", s(format!("{:?}", other).chars().take(200).collect::<String>()))]),
            };
            blocks.push(V::O(vec![
                ("c", V::B(data.is_cleanup)),
                ("s", V::A(stmts)),
                ("t", t),
                ("sp", tsp),
            ]));
        }
        V::A(blocks)
    }

    fn body(&self, did: LocalDefId) -> Option<V> {
        let tcx = self.tcx;
        let kind = tcx.def_kind(did);
        let kind_s = match kind {
            DefKind::Fn => "fn",
            DefKind::AssocFn => "assoc_fn",
            DefKind::Closure => "closure",
            _ => return None,
        };
        let body: &Body<'tcx> = tcx.optimized_mir(did.to_def_id());
        let mut o: Vec<(&'static str, V)> = Vec::new();
        o.push(("path", s(self.path(did.to_def_id()))));
        o.push(("kind", s(kind_s)));
        o.push(("span", self.span(body.span)));
        {
            let sm = tcx.sess.source_map();
            let hi = sm.lookup_char_pos(body.span.hi());
            o.push(("line_hi", V::I(hi.line as i128)));
        }
        // impl context
        let mut parent = tcx.local_parent(did);
        // walk up closures
        let mut fn_parent: Option<LocalDefId> = None;
        if kind == DefKind::Closure {
            let mut p = parent;
            loop {
                match tcx.def_kind(p) {
                    DefKind::Closure => p = tcx.local_parent(p),
                    _ => break,
                }
            }
            fn_parent = Some(p);
            o.push(("closure_of", s(self.path(p.to_def_id()))));
            parent = tcx.local_parent(p);
        }
        let _ = fn_parent;
        if let DefKind::Impl { of_trait } = tcx.def_kind(parent) {
            let st = tcx.type_of(parent).instantiate_identity().skip_norm_wip();
            o.push(("impl_self", s(self.ty_str(st))));
            if of_trait {
                let tr = tcx.impl_trait_ref(parent).instantiate_identity().skip_norm_wip();
                o.push(("impl_trait", s(self.fix(np!((format!("{}", tr.print_only_trait_path())))))));
            }
        }
        o.push(("arg_count", V::I(body.arg_count as i128)));
        // locals
        let mut names: Vec<Option<String>> = vec![None; body.local_decls.len()];
        let mut upvars: Vec<V> = Vec::new();
        for vdi in body.var_debug_info.iter() {
            if let mir::VarDebugInfoContents::Place(p) = &vdi.value {
                if p.projection.is_empty() {
                    if names[p.local.as_usize()].is_none() {
                        names[p.local.as_usize()] = Some(vdi.name.to_string());
                    }
                } else {
                    upvars.push(V::O(vec![("name", s(vdi.name.to_string())), ("p", self.place(body, p))]));
                }
            }
        }
        let mut locals: Vec<V> = Vec::new();
        for (l, decl) in body.local_decls.iter_enumerated() {
            let t = decl.ty;
            locals.push(V::O(vec![
                ("t", s(self.ty_str(t))),
                ("n", match &names[l.as_usize()] {
                    Some(n) => s(n.clone()),
                    None => V::Null,
                }),
                ("cm", V::B(self.carries(t))),
                ("mr", V::B(self.is_msg_ref(t))),
            ]));
        }
        o.push(("locals", V::A(locals)));
        o.push(("upvars", V::A(upvars)));
        o.push(("blocks", self.blocks_of(did, body)));
        // promoted constants (e.g. `&FilterKind::Positive`)
        let mut proms: Vec<V> = Vec::new();
        for pb in tcx.promoted_mir(did.to_def_id()).iter() {
            let mut pl: Vec<V> = Vec::new();
            for decl in pb.local_decls.iter() {
                pl.push(V::O(vec![("t", s(self.ty_str(decl.ty))), ("n", V::Null), ("cm", V::B(false)), ("mr", V::B(false))]));
            }
            proms.push(V::O(vec![("locals", V::A(pl)), ("blocks", self.blocks_of(did, pb))]));
        }
        o.push(("promoted", V::A(proms)));
        Some(V::O(o))
    }
}

fn unwind_v(u: &mir::UnwindAction) -> V {
    match u {
        mir::UnwindAction::Cleanup(bb) => V::I(bb.as_u32() as i128),
        _ => V::Null,
    }
}

fn dump<'tcx>(tcx: TyCtxt<'tcx>) {
    let out_dir = match std::env::var("MIRFACTS_OUT") {
        Ok(d) => d,
        Err(_) => return,
    };
    let want = std::env::var("MIRFACTS_CRATE").unwrap_or_else(|_| "adlt".to_string());
    let cname = tcx.crate_name(LOCAL_CRATE).to_string();
    if cname != want {
        return;
    }
    let is_bin = tcx.crate_types().iter().any(|t| matches!(t, rustc_session_crate_type::Executable));
    let cx = Cx { tcx, tag: if is_bin { "adlt_bin" } else { "adlt" } };

    let mut bodies: Vec<V> = Vec::new();
    for did in tcx.hir_body_owners() {
        if let Some(b) = cx.body(did) {
            bodies.push(b);
        }
    }
    // ADTs and impls
    let mut adts: Vec<V> = Vec::new();
    let mut impls: Vec<V> = Vec::new();
    let mut consts: Vec<V> = Vec::new();
    for did in tcx.hir_crate_items(()).definitions() {
        match tcx.def_kind(did) {
            DefKind::Struct | DefKind::Enum => {
                let def = tcx.adt_def(did.to_def_id());
                let mut vars: Vec<V> = Vec::new();
                let discrs: Vec<i128> = if def.is_enum() {
                    def.discriminants(tcx).map(|(_, d)| d.val as i128).collect()
                } else {
                    Vec::new()
                };
                for (vi, v) in def.variants().iter().enumerate() {
                    let mut fields: Vec<V> = Vec::new();
                    for f in v.fields.iter() {
                        let ft = tcx.type_of(f.did).instantiate_identity().skip_norm_wip();
                        fields.push(V::O(vec![("n", s(f.name.to_string())), ("t", s(cx.ty_str(ft)))]));
                    }
                    vars.push(V::O(vec![
                        ("n", s(v.name.to_string())),
                        ("d", match discrs.get(vi) { Some(d) => V::I(*d), None => V::Null }),
                        ("fields", V::A(fields)),
                    ]));
                }
                adts.push(V::O(vec![
                    ("path", s(cx.path(did.to_def_id()))),
                    ("enum", V::B(def.is_enum())),
                    ("variants", V::A(vars)),
                ]));
            }
            DefKind::Impl { of_trait } => {
                let st = tcx.type_of(did).instantiate_identity().skip_norm_wip();
                let mut o: Vec<(&'static str, V)> = vec![("self", s(cx.ty_str(st)))];
                if of_trait {
                    let tr = tcx.impl_trait_ref(did).instantiate_identity().skip_norm_wip();
                    o.push(("trait", s(cx.fix(np!((format!("{}", tr.print_only_trait_path())))))));
                    o.push(("trait_ref", s(cx.fix(np!((format!("{}", tr)))))));
                }
                let items: Vec<V> = tcx
                    .associated_item_def_ids(did)
                    .iter()
                    .map(|d| s(cx.path(*d)))
                    .collect();
                o.push(("items", V::A(items)));
                impls.push(V::O(o));
            }
            DefKind::Const { .. } | DefKind::Static { .. } => {
                let t = tcx.type_of(did).instantiate_identity().skip_norm_wip();
                let mut o: Vec<(&'static str, V)> =
                    vec![("path", s(cx.path(did.to_def_id()))), ("t", s(cx.ty_str(t)))];
                if matches!(tcx.def_kind(did), DefKind::Const { .. }) && (t.is_integral() || t.is_bool()) {
                    if let Ok(val) = tcx.const_eval_poly(did.to_def_id()) {
                        if let Some(si) = val.try_to_scalar_int() {
                            let size = si.size();
                            let bits = si.to_bits(size);
                            let v: i128 = if t.is_signed() { size.sign_extend(bits) as i128 } else { bits as i128 };
                            o.push(("v", V::I(v)));
                        }
                    }
                }
                // small integer arrays (lookup tables): element values, so that rules can propagate constants through an index
                if matches!(tcx.def_kind(did), DefKind::Const { .. }) {
                    if let ty::Array(elem, _) = t.kind() {
                        let esz: usize = match elem.kind() {
                            ty::Uint(ty::UintTy::U8) | ty::Int(ty::IntTy::I8) => 1,
                            ty::Uint(ty::UintTy::U16) | ty::Int(ty::IntTy::I16) => 2,
                            ty::Uint(ty::UintTy::U32) | ty::Int(ty::IntTy::I32) | ty::Char => 4,
                            ty::Uint(ty::UintTy::U64) | ty::Int(ty::IntTy::I64) | ty::Uint(ty::UintTy::Usize) => 8,
                            _ => 0,
                        };
                        if esz > 0 {
                            if let Ok(rustc_middle::mir::ConstValue::Indirect { alloc_id, offset }) = tcx.const_eval_poly(did.to_def_id()) {
                                if let rustc_middle::mir::interpret::GlobalAlloc::Memory(ca) = tcx.global_alloc(alloc_id) {
                                    let a = ca.inner();
                                    let start = offset.bytes() as usize;
                                    if a.len() >= start && a.len() - start <= 4096 {
                                        let bytes = a.inspect_with_uninit_and_ptr_outside_interpreter(start..a.len());
                                        let mut arr: Vec<V> = Vec::new();
                                        for ch in bytes.chunks(esz) {
                                            let mut v: i128 = 0;
                                            for (i, b) in ch.iter().enumerate() {
                                                v |= (*b as i128) << (8 * i);
                                            }
                                            arr.push(V::I(v));
                                        }
                                        o.push(("arr", V::A(arr)));
                                    }
                                }
                            }
                        }
                    }
                }
                // string constants (`const REGEX_CHARS: &str = ".."`): the text, so that a rule can read a character table
                if matches!(tcx.def_kind(did), DefKind::Const { .. }) {
                    if let ty::Ref(_, inner, _) = t.kind() {
                        if inner.is_str() {
                            if let Ok(rustc_middle::mir::ConstValue::Slice { alloc_id, meta }) = tcx.const_eval_poly(did.to_def_id()) {
                                if let rustc_middle::mir::interpret::GlobalAlloc::Memory(ca) = tcx.global_alloc(alloc_id) {
                                    let a = ca.inner();
                                    let n = meta as usize;
                                    if n <= a.len() && n <= 4096 {
                                        let bytes = a.inspect_with_uninit_and_ptr_outside_interpreter(0..n);
                                        o.push(("str", s(String::from_utf8_lossy(bytes).to_string())));
                                    }
                                }
                            }
                        }
                    }
                }
                consts.push(V::O(o));
            }
            _ => {}
        }
    }
    // alias table: visible (re-export) path -> real definition path for items of the extern crate `adlt`
    let mut aliases: Vec<V> = Vec::new();
    if is_bin {
        for &cnum in tcx.crates(()).iter() {
            if tcx.crate_name(cnum).as_str() != "adlt" {
                continue;
            }
            let mut seen: HashSet<DefId> = HashSet::new();
            let mut stack: Vec<DefId> = vec![cnum.as_def_id()];
            while let Some(m) = stack.pop() {
                for ch in tcx.module_children(m).iter() {
                    if let Some(did) = ch.res.opt_def_id() {
                        if did.krate != cnum || !seen.insert(did) {
                            continue;
                        }
                        let vis = ty::print::with_no_trimmed_paths!(tcx.def_path_str(did));
                        let real = ty::print::with_no_visible_paths!(ty::print::with_no_trimmed_paths!(tcx.def_path_str(did)));
                        if vis != real {
                            aliases.push(V::A(vec![s(vis), s(real)]));
                        }
                        match tcx.def_kind(did) {
                            DefKind::Mod | DefKind::Enum | DefKind::Trait => stack.push(did),
                            _ => {}
                        }
                    }
                }
            }
        }
    }
    let top = V::O(vec![
        ("crate", s(cx.tag)),
        ("rustc", s(rustc_version())),
        ("nonce", s(std::env::var("MIRFACTS_NONCE").unwrap_or_default())),
        ("bodies", V::A(bodies)),
        ("adts", V::A(adts)),
        ("impls", V::A(impls)),
        ("consts", V::A(consts)),
        ("aliases", V::A(aliases)),
    ]);
    let mut out = String::with_capacity(64 << 20);
    top.write(&mut out);
    let fname = format!("{}/{}.json", out_dir, if is_bin { "bin" } else { "lib" });
    let tmp = format!("{}.tmp{}", fname, std::process::id());
    std::fs::write(&tmp, out.as_bytes()).expect("mirfacts: cannot write facts");
    std::fs::rename(&tmp, &fname).expect("mirfacts: cannot rename facts");
}

fn rustc_version() -> String {
    option_env!("CFG_VERSION").unwrap_or("nightly").to_string()
}

use rustc_session::config::CrateType as rustc_session_crate_type;
extern crate rustc_session;

struct Cb;
impl rustc_driver::Callbacks for Cb {
    fn after_analysis<'tcx>(
        &mut self,
        _c: &rustc_interface::interface::Compiler,
        tcx: TyCtxt<'tcx>,
    ) -> rustc_driver::Compilation {
        dump(tcx);
        rustc_driver::Compilation::Continue
    }
}

fn main() {
    let mut a: Vec<String> = std::env::args().collect();
    // wrapper mode: argv[1] is the path of rustc
    if a.len() > 1 && (a[1].ends_with("rustc") || a[1].contains("/rustc")) {
        a.remove(1);
    }
    rustc_driver::run_compiler(&a, &mut Cb);
}
