#!/bin/bash
# runall.sh [quick|thorough] : run every claimed check, print one line per property
tier=${1:-quick}
cd /verif
for c in C01 C02 C03 C04 C05 C06 C07 C09 C10 C11 C12 C13 C15 C16 C17 C18 C19 C20; do
  out=$(./check $c --tier $tier 2>&1); rc=$?
  echo "$c rc=$rc $(echo "$out" | grep -c 'VIOLATION property') viol, $(echo "$out" | grep -c 'FAIL') selftest-fail, $(echo "$out" | grep -c 'KNOWN-FINDING') known"
  if [ $rc -ne 0 ]; then echo "$out" | grep -v " ok " | head -20 | cut -c1-300; fi
done
