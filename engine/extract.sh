#!/bin/bash
# extract.sh <source-tree> <out-dir>
# Runs the mirfacts driver over the adlt lib and bin of <source-tree> (a working tree of
# mbehr1/adlt), writing <out-dir>/lib.json and <out-dir>/bin.json.  The tree is copied to a
# scratch directory first; a hard-link copy of the warm dependency target dir is used so that
# cargo's freshness cache can never replay an old result for the adlt crates themselves.
set -u
SRC="$1"; mkdir -p "$2"; OUT="$(cd "$2" && pwd)"
HERE="$(cd "$(dirname "$0")" && pwd)"
VERIF="$(cd "$HERE/.." && pwd)"
CACHE="${VERIF_CACHE:-$VERIF/.cache}"
DRV="$HERE/mirfacts/target/release/mirfacts"
export CARGO_NET_OFFLINE=true
SYSROOT="$(rustc +nightly --print sysroot)"
export LD_LIBRARY_PATH="$SYSROOT/lib${LD_LIBRARY_PATH:+:$LD_LIBRARY_PATH}"

if [ ! -x "$DRV" ]; then
  (cd "$HERE/mirfacts" && cargo build --release --offline >&2) || { echo "ERROR: cannot build mirfacts driver" >&2; exit 2; }
fi

SCR="$(mktemp -d /tmp/adlt-verif-x.XXXXXX)"
trap 'rm -rf "$SCR"' EXIT
mkdir -p "$SCR/tree" "$OUT"
rsync -a --exclude '/target' --exclude '/.git' --exclude '/fuzz' "$SRC"/ "$SCR/tree"/ || { echo "ERROR: copy failed" >&2; exit 2; }

WARM="$CACHE/deps-target"
if [ -d "$WARM/debug" ]; then
  cp -al "$WARM" "$SCR/target" 2>/dev/null || cp -a "$WARM" "$SCR/target"
  rm -rf "$SCR"/target/debug/.fingerprint/adlt-* "$SCR"/target/debug/deps/libadlt-* "$SCR"/target/debug/deps/adlt-* "$SCR"/target/debug/incremental
fi
NONCE="$$-$(date +%s%N)"
rm -f "$OUT/lib.json" "$OUT/bin.json"
(
  cd "$SCR/tree" && \
  MIRFACTS_OUT="$OUT" MIRFACTS_NONCE="$NONCE" \
  RUSTFLAGS="-Zmir-opt-level=0 -Coverflow-checks=on -Cdebug-assertions=off -Awarnings" \
  CARGO_INCREMENTAL=0 \
  RUSTC_WORKSPACE_WRAPPER="$DRV" CARGO_TARGET_DIR="$SCR/target" \
  cargo +nightly check --offline --lib --bins -j 16 2> "$SCR/cargo.log"
)
RC=$?
if [ $RC -ne 0 ]; then
  echo "ERROR: cargo check of the tree failed (does not compile?)" >&2
  grep -v "process didn.t exit successfully" "$SCR/cargo.log" | cut -c1-400 | tail -40 >&2
  exit 2
fi
for f in lib bin; do
  if [ ! -s "$OUT/$f.json" ]; then echo "ERROR: fact file $f.json was not produced" >&2; tail -20 "$SCR/cargo.log" >&2; exit 2; fi
  if ! grep -q "\"nonce\":\"$NONCE\"" <(head -c 400 "$OUT/$f.json"); then echo "ERROR: fact file $f.json has a stale nonce" >&2; exit 2; fi
done
# first run: keep the dependency artefacts as warm cache
if [ ! -d "$WARM/debug" ]; then
  mkdir -p "$CACHE"
  rm -rf "$SCR"/target/debug/.fingerprint/adlt-* "$SCR"/target/debug/deps/libadlt-* "$SCR"/target/debug/deps/adlt-* "$SCR"/target/debug/incremental
  rm -rf "$WARM.tmp$$"; mv "$SCR/target" "$WARM.tmp$$" && mv "$WARM.tmp$$" "$WARM" 2>/dev/null || rm -rf "$WARM.tmp$$"
fi
exit 0
