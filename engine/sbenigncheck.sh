#!/bin/bash
# sbenigncheck.sh <patch> : like benigncheck.sh but on a scratch copy of /repo HEAD (does not touch /repo): run ALL checks (quick), report any alarm
export ADLT_VERIF_EVIDENCE_DIR=/tmp/adlt-verif-scratch-evidence
export VERIF_KEEP_FACTS=24
P="$1"
D=$(mktemp -d /tmp/adlt-scratch-XXXXXX)
(cd /repo && git archive HEAD | tar -x -C "$D") || exit 2
(cd "$D" && patch -p1 -s < "$P") || { echo "ERROR: patch does not apply: $P"; rm -rf "$D"; exit 2; }
echo "== $P"
for c in C01 C02 C03 C04 C05 C06 C07 C09 C10 C11 C12 C13 C15 C16 C17 C18 C19 C20; do
  out=$(cd /verif && ./check $c --repo "$D" 2>&1); rc=$?
  if [ $rc -ne 0 ]; then echo "  $c rc=$rc"; echo "$out" | grep "key=\|machinery\|Traceback\|Error" | head -8 | cut -c1-300; fi
done
rm -rf "$D"
