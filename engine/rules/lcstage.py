"""Shared event classification for the lifecycle-detection stage (C05, C06, C07).

Anchor: the library function with a parameter of type evmap::WriteHandle<LifecycleId, ..>, a
Receiver<DltMessage> and an outflow closure parameter."""
import re
from cfg import CFG
from expr import ExprBuilder, show
import own

W_DIRTY = re.compile(r'^evmap::WriteHandle::<K, V, M, S>::(update|insert|empty|clear|remove|remove_entry|remove_value|purge|extend|retain|reserve|fit|fit_all|empty_random)$')
W_CLEAN = re.compile(r'^evmap::WriteHandle::<K, V, M, S>::(refresh|flush|publish)$')


def find_stage(F):
    out = []
    for b in F.order:
        if b.crate != 'lib' or b.kind == 'closure':
            continue
        at = b.arg_types()
        if any(t.startswith('evmap::WriteHandle<') for t in at) and any(t.startswith('std::sync::mpsc::Receiver<adlt::dlt::DltMessage>') for t in at):
            out.append(b)
    return out


class Stage:
    def __init__(self, F, body):
        self.F = F
        self.body = body
        self.cfg = CFG(body)
        self.E = ExprBuilder(self.cfg)
        self.ev = {}     # block -> list of event names
        self.info = {}   # block -> dict
        self.msg_local = None
        self._classify()

    def add(self, bi, name, **kw):
        self.ev.setdefault(bi, []).append(name)
        self.info.setdefault(bi, {}).update(kw)

    def _classify(self):
        body, cfg = self.body, self.cfg
        for blk in body.calls():
            t = blk.term
            c = t.callee
            p = c.path
            args = t.args
            a0ty = (args[0].ty or '') if args else ''
            root = cfg.origin_of_operand(args[0]) if args else None
            rootty = root.t if root is not None else ''
            if p == 'std::iter::Iterator::next' and re.search(r'std::sync::mpsc::(IntoIter|Iter|TryIter)<(\'_, )?adlt::dlt::DltMessage>', a0ty):
                self.add(blk.i, 'RECV_IN')
            elif re.search(r'^std::sync::mpsc::Receiver::<T>::(recv|recv_timeout|try_recv|recv_deadline)$', p) and 'Receiver<adlt::dlt::DltMessage>' in a0ty:
                self.add(blk.i, 'RECV_IN')
            elif p == 'std::iter::Iterator::next' and 'vec_deque::IntoIter<adlt::dlt::DltMessage>' in a0ty:
                self.add(blk.i, 'FINAL_NEXT')
            elif p.endswith('VecDeque::<T, A>::pop_front') and 'DltMessage' in a0ty:
                self.add(blk.i, 'POP')
            elif re.search(r'VecDeque::<T, A>::(drain|pop_back|split_off|remove|truncate|clear|swap_remove_back|swap_remove_front|retain|retain_mut)$', p) and 'DltMessage' in a0ty:
                self.add(blk.i, 'POPX', what=p.split('::')[-1])
            elif p.endswith('VecDeque::<T, A>::push_back') and 'DltMessage' in a0ty:
                self.add(blk.i, 'STORE')
            elif p.endswith('VecDeque::<T, A>::is_empty') and 'DltMessage' in a0ty:
                self.add(blk.i, 'Q_IS_EMPTY')
            elif re.search(r'VecDeque::<T, A>::(front|front_mut|get)$', p) and 'DltMessage' in a0ty and self._discr_switched(blk):
                self.add(blk.i, 'Q_IS_EMPTY')     # `while let Some(m) = q.front()`: the None edge is the emptiness test
            elif p.startswith('std::collections::HashSet::<') and re.search(r'HashSet<u32\b', a0ty):
                m = p.split('::')[-1]
                self.add(blk.i, 'LCS_' + m.upper())
            elif self.F.get(p) is not None and self.F.get(p).kind != 'closure' and any(re.search(r'&mut std::collections::HashSet<u32\b', a.ty or '') for a in args) and \
                    any(x.term.callee.path.startswith('std::collections::HashSet::<') and x.term.callee.path.endswith('::insert') for x in self.F.get(p).calls()):
                # private helper that registers a lifecycle as unconfirmed (`register_buffered_lc(lc, &mut buffered_lcs, ..)`)
                self.add(blk.i, 'LCS_INSERT')
            elif p == 'adlt::lifecycle::Lifecycle::merge':
                self.add(blk.i, 'MERGE')
            elif p == 'adlt::lifecycle::Lifecycle::update':
                self.add(blk.i, 'LC_UPDATE')
            elif p == 'adlt::lifecycle::Lifecycle::new':
                self.add(blk.i, 'LC_NEW')
            elif W_DIRTY.match(p):
                self.add(blk.i, 'W_DIRTY', what=p.split('::')[-1])
            elif W_CLEAN.match(p):
                self.add(blk.i, 'W_CLEAN')
            elif p in own.SEND_CALLEES and 'SendError<' in t.dest.t and any((a.ty or '').startswith('(adlt::dlt::DltMessage,)') or (a.ty or '') == 'adlt::dlt::DltMessage' for a in args):
                self.add(blk.i, 'SEND')
            elif p in ('std::ops::FnMut::call_mut', 'std::ops::Fn::call', 'std::ops::FnOnce::call_once') and c.resolved and self.F.get(c.resolved) is not None:
                cl = self.F.get(c.resolved)
                s = closure_summary(cl)
                if s['dirty'] or s['clean']:
                    self.add(blk.i, 'W_CLOSURE', closure=cl.path, summary=s)
        # which SENDs forward the just-received message directly: the tuple argument is built from the
        # local that RECV_IN's Some payload was moved into
        recv_locals = set()
        for bi, evs in self.ev.items():
            if 'RECV_IN' in evs:
                dest = body.blocks[bi].term.dest
                for b in body.blocks:
                    for s in b.stmts:
                        if s.k == 'assign' and s.rv['k'] == 'use':
                            from facts import Operand
                            o = Operand(s.rv['o'])
                            if o.place is not None and o.place.l == dest.l and o.place.p and s.place.is_local:
                                recv_locals.add(s.place.l)
        # `let mut msg = match inflow.recv() { Ok(m) => m, .. }`: the payload travels through further plain moves
        changed = True
        while changed:
            changed = False
            for b in body.blocks:
                if b.cleanup:
                    continue
                for s in b.stmts:
                    if s.k == 'assign' and s.rv['k'] == 'use' and s.place.is_local and not s.place.p and s.place.l not in recv_locals:
                        from facts import Operand
                        o = Operand(s.rv['o'])
                        if o.place is not None and not o.place.p and o.place.l in recv_locals and 'DltMessage' in body.lty(s.place.l) and not body.lty(s.place.l).startswith('&'):
                            recv_locals.add(s.place.l)
                            changed = True
        self.recv_locals = recv_locals
        for bi, evs in list(self.ev.items()):
            if 'SEND' in evs or 'STORE' in evs:
                t = body.blocks[bi].term
                src = None
                for a in t.args:
                    l = self.trace_local(a)
                    if l in recv_locals:
                        src = 'direct'
                self.info[bi]['src'] = src or 'queued'

    def _discr_switched(self, blk):
        """is the Option returned by this call decided on directly (`while let Some(..) = call()` / `match call()`):
        the block the call returns to reads the discriminant of the destination and switches on it"""
        from facts import Operand
        t = blk.term
        nxt = t.d.get('t')
        if nxt is None or not t.dest.is_local:
            return False
        nb = self.body.blocks[nxt]
        if nb.term.k != 'switch':
            return False
        d = Operand(nb.term.d['d'])
        if d.place is None or not d.place.is_local:
            return False
        for s in nb.stmts:
            if s.k == 'assign' and s.place.is_local and s.place.l == d.place.l and s.rv['k'] == 'discr' and s.rv['p']['l'] == t.dest.l and not s.rv['p'].get('p'):
                return True
        return False

    def trace_local(self, op, depth=0):
        """follow moves / 1-tuples of single-definition temps back to a named local (by index)"""
        from facts import Operand
        if op.place is None or depth > 8:
            return None
        l = op.place.l
        if self.body.name_of(l) is not None or l <= self.body.arg_count:
            return l
        sd = self.cfg.single_def(l)
        if sd is None or sd[1] == 'call':
            return l
        rv = sd[2].rv
        if rv['k'] == 'use':
            return self.trace_local(Operand(rv['o']), depth + 1)
        if rv['k'] == 'agg' and len(rv['ops']) == 1:
            return self.trace_local(Operand(rv['ops'][0]), depth + 1)
        return l

    def blocks_with(self, name):
        return sorted(bi for bi, evs in self.ev.items() if name in evs)


def closure_summary(cl):
    """does the closure call dirty/clean operations on a write handle; is every dirty op followed by a clean on all paths to return"""
    cfg = CFG(cl)
    dirty = [b.i for b in cl.calls() if W_DIRTY.match(b.term.callee.path)]
    clean = [b.i for b in cl.calls() if W_CLEAN.match(b.term.callee.path)]
    balanced = True
    for d in dirty:
        # from d, can a return be reached without passing a clean block?
        reach = cfg.reachable_from(d, avoid=set(clean))
        if any(e in reach for e in cfg.exits):
            balanced = False
    return {'dirty': len(dirty), 'clean': len(clean), 'balanced': balanced}
