"""Thorough tier: checker self-test corpus.

Every selftest/<Cxx>/*.patch is applied to a scratch copy of the *current* working tree of the
repository; facts are extracted for the variant and the property's rules are run on them.
  break-*.patch   must make a rule fire; header line `# expect: <substring of violation key>`
  benign-*.patch  must stay silent (behaviour-preserving refactor)
A patch that no longer applies is reported as skipped (not a failure).  A wrong outcome means the
checker is broken (exit 2), never a VIOLATION against adlt."""
import os, re, subprocess, tempfile, shutil, sys, json
from concurrent.futures import ThreadPoolExecutor


def _one(args):
    prop, patch, verif, repo = args
    name = os.path.basename(patch)
    expect = None
    for line in open(patch):
        m = re.match(r'#\s*expect:\s*(.+)$', line.strip())
        if m:
            expect = m.group(1).strip()
            break
    scr = tempfile.mkdtemp(prefix='adlt-verif-st.')
    try:
        tree = os.path.join(scr, 'tree')
        r = subprocess.run(['rsync', '-a', '--exclude', '/target', '--exclude', '/.git', '--exclude', '/fuzz', repo + '/', tree + '/'])
        if r.returncode != 0:
            return {'patch': name, 'status': 'error', 'detail': 'copy failed'}
        r = subprocess.run(['patch', '-p1', '-s', '-f', '--no-backup-if-mismatch', '-i', patch], cwd=tree, stdout=subprocess.PIPE, stderr=subprocess.STDOUT)
        if r.returncode != 0:
            return {'patch': name, 'status': 'skipped', 'detail': 'patch does not apply to the current tree'}
        facts = os.path.join(scr, 'facts')
        r = subprocess.run([os.path.join(verif, 'engine', 'extract.sh'), tree, facts], stdout=subprocess.PIPE, stderr=subprocess.PIPE)
        if r.returncode != 0:
            return {'patch': name, 'status': 'error', 'detail': 'variant does not compile: ' + r.stderr.decode(errors='replace')[-600:]}
        r = subprocess.run([sys.executable, os.path.join(verif, 'engine', 'rules', 'selftest.py'), '--child', prop, facts],
                           stdout=subprocess.PIPE, stderr=subprocess.PIPE)
        if r.returncode != 0:
            return {'patch': name, 'status': 'error', 'detail': 'rule run failed: ' + r.stderr.decode(errors='replace')[-600:]}
        keys = json.loads(r.stdout.decode())
        if name.startswith('break'):
            hit = [k for k in keys if (expect or '') in k]
            if hit:
                return {'patch': name, 'status': 'ok', 'detail': 'fired: ' + hit[0]}
            return {'patch': name, 'status': 'FAIL', 'detail': 'expected a violation containing %r, got %r' % (expect, keys)}
        else:
            if keys:
                return {'patch': name, 'status': 'FAIL', 'detail': 'benign variant raised %r' % keys}
            return {'patch': name, 'status': 'ok', 'detail': 'silent'}
    finally:
        shutil.rmtree(scr, ignore_errors=True)


def run(prop, mod, verif, repo):
    d = os.path.join(verif, 'selftest', prop)
    patches = sorted(os.path.join(d, f) for f in os.listdir(d) if f.endswith('.patch')) if os.path.isdir(d) else []
    out = {'variants': len(patches), 'results': []}
    if not patches:
        return out
    with ThreadPoolExecutor(max_workers=8) as ex:
        results = list(ex.map(_one, [(prop, p, verif, repo) for p in patches]))
    out['results'] = results
    bad = [r for r in results if r['status'] in ('FAIL', 'error')]
    for r in results:
        print('  selftest %-40s %-8s %s' % (r['patch'], r['status'], r['detail'][:160]))
    if bad:
        out['broken'] = '; '.join('%s: %s' % (r['patch'], r['detail'][:200]) for r in bad)
    out['ok'] = sum(1 for r in results if r['status'] == 'ok')
    out['skipped'] = sum(1 for r in results if r['status'] == 'skipped')
    return out


def child(prop, factsdir):
    import importlib, io, contextlib
    import facts as factsmod, report
    mod = importlib.import_module(prop.lower())
    F = factsmod.load(factsdir)
    chk = report.Check(prop, mod.LEVEL, 'quick')
    buf = io.StringIO()
    with contextlib.redirect_stdout(buf):
        mod.run(F, chk)
    kf = report.KnownFindings()
    keys = []
    for r in chk.rules:
        for v in r.violations:
            k = v['key'].replace(' ', '_')
            if kf.lookup(prop, v['key']) is None:
                keys.append(k)
    sys.stdout.write(json.dumps(keys))


if __name__ == '__main__':
    if len(sys.argv) >= 4 and sys.argv[1] == '--child':
        sys.path.insert(0, os.path.dirname(os.path.abspath(__file__)))
        child(sys.argv[2].upper(), sys.argv[3])
