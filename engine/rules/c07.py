"""C07 - final lifecycle table consistent with delivered messages (structural clauses).

Decided: P1/P2 count follows label in Lifecycle::new/update, merge adds the other count and zeroes
it; P3 every merge in the stage is followed by the relabelling of the queued messages and of the
current one; P4 every merge is accompanied by evidence that the merged lifecycle was never published
(still in the buffered set) or by its removal from the table; O1 comparators that order lifecycles
are key-based (total).  Not decided: numeric agreement of counts for all streams, listing order."""
import re
import lcstage, guards, effects, pairing, comparators, counting
from cfg import CFG
from expr import ExprBuilder, show, walk
from paths import Explorer
from facts import Operand

LEVEL = 'other'
EXPLANATION = ('Path-pairing of label stores and counter increments in Lifecycle::new/update/merge, typestate after each merge site in the stage '
               '(relabel queued + current message; merged id provably unpublished or unpublished explicitly), and a totality lint on every comparator over lifecycles.')
ASSUMPTIONS = [
    'decides structural clauses only: equality of counts with delivered messages for all streams and the listing order are NOT decided',
    'O1 is a lint: a non key-based comparator is not necessarily wrong, a key-based one is total by construction',
]
MANIFEST = {'text': 'structural necessary conditions of table/message agreement: count increments paired with label stores on all paths of new/update, merge transfers the count, every merge relabels '
                    'queued and current messages, every merge site shows the merged lifecycle was never published (or unpublishes it), comparators over lifecycles are key-based.'
                    " Added: the published table is written only through update/empty/purge/refresh (every key holds exactly one value); delivered messages had their lifecycle marked for the final refresh; the listing's sort key follows the resume links transitively. Added: the regular refresh leaves its scan loops early only when no marked lifecycle is left to republish.",
            'technique': 'static analysis: MIR path pairing, typestate after merge sites, comparator totality lint Added: every refresh of the table is followed by an increment of the refresh index before the next table write, hand-over or return (no two publications under one stamp).'}


def run(F, chk):
    P1 = chk.rule('P1', 'Lifecycle::new / Lifecycle::update: on every return path (#stores of self.id into msg.lifecycle) == (#nr_msgs += 1) in {0,1}; the new-lifecycle path does neither on self')
    P2 = chk.rule('P2', 'Lifecycle::merge adds the merged count to self and zeroes the merged count')
    P3 = chk.rule('P3', 'every merge in the stage is followed (before the next receive / any send or store) by the relabel of queued messages and of the current message')
    P4 = chk.rule('P4', 'every merge site shows that the merged lifecycle was never published (buffered_lcs.contains evidence) or removes it from the published table')
    O1 = chk.rule('O1', 'comparators that order lifecycles are key-based (same key of both arguments): total by construction')
    P5 = chk.rule('P5', 'every message handed to the outflow had its lifecycle marked for the table refresh (or just updated) since it was taken; mark-skipping caches are invalidated by every clear of the list')
    P9 = chk.rule('P9', 'every refresh of the table is followed by an increment of the refresh index before the next table write, refresh, hand-over or return (no two publications under one stamp)')
    P7 = chk.rule('P7', 'a possibly confirmed lifecycle is merged away only when all of its messages are still queued (queued count == nr_msgs)')
    check_update(F, P1)
    check_new(F, P1)
    check_merge_fn(F, P2)
    for b in lcstage.find_stage(F):
        st = lcstage.Stage(F, b)
        check_relabel(F, st, P3)
        check_unpublish(F, st, P4)
        check_marked(F, st, P5)
        check_merge_needs_all_queued(st, P7)
        check_refresh_stamp(F, st, P9)
        P8 = chk.rule('P8', 'the regular refresh republishes every marked lifecycle: its scan loops are left early only when the count of marked lifecycles still to update reached 0')
        check_refresh_scan_complete(F, st, P8)
    P3.floor('lifecycle stage functions', len(lcstage.find_stage(F)), 1)
    comparators.check(F, O1, where=lambda b: any(re.search(r'Lifecycle\b', t) for t in b.arg_types()), floor=2)
    P6 = chk.rule('P6', 'the published table is written only through update (replace the single value), empty (remove the key), purge and refresh: every key readers see holds exactly one value')
    check_table_api(F, P6)
    O3 = chk.rule('O3', 'the listing order is computed by following the resume links transitively (a loop/recursion that reads `.resume_lc` and looks the resumed lifecycle up)')
    check_listing_chain(F, O3)


def is_self_field(e, name):
    return isinstance(e, tuple) and e[0] == 'place' and e[1] == 'self' and e[-1] == '.' + name and '*' in e


def check_update(F, P1):
    name = 'adlt::lifecycle::Lifecycle::update'
    body = F.get(name)
    if body is None:
        P1.violation(('anchor-lost', name), name + ' not found')
        return
    P1.fn(name)
    cfg = CFG(body)
    E = ExprBuilder(cfg)

    def stmt_event(s, b):
        if s.k != 'assign':
            return None
        out = []
        if effects.field_path(s.place) == 'lifecycle':
            e = E.rvalue(s.rv)
            out.append('label' if is_self_field(e, 'id') else 'label_other')
        t = E.target(s.place)
        if is_self_field(t, 'nr_msgs'):
            e = E.rvalue(s.rv)
            good = isinstance(e, tuple) and e[0] == 'bin' and e[1] == 'Add' and is_self_field(e[2], 'nr_msgs') and e[3] == ('const', 1)
            out.append('count' if good else 'count_other')
        if s.place.is_local and s.place.l == 0:
            rv = s.rv
            if rv['k'] == 'agg' and rv.get('variant') == 'None':
                out.append('ret_none')
            elif rv['k'] == 'agg' and rv.get('variant') == 'Some':
                out.append('ret_some')
        return out

    def term_event(t, b):
        if t.k == 'call' and t.callee.path == 'adlt::lifecycle::Lifecycle::new':
            return ['new_lc']
        return None
    ex = pairing.explore_counts(cfg, stmt_event, term_event)
    P1.paths += ex.n_states
    n = 0
    for rb in cfg.exits:
        for st in ex.out_states.get(rb, ()):
            n += 1
            f = st[1]
            c = lambda k: pairing.count(f, k)
            if c('ret_some'):
                ok = c('label') == 0 and c('count') == 0 and c('new_lc') == 1 and not c('label_other') and not c('count_other')
                kind = 'new lifecycle'
            else:
                ok = c('label') == 1 and c('count') == 1 and c('new_lc') == 0 and not c('label_other') and not c('count_other')
                kind = 'updated'
            if ok:
                P1.ok(sample={'function': name, 'return': kind, 'label_stores': c('label'), 'count_increments': c('count'), 'Lifecycle::new calls': c('new_lc')})
            else:
                P1.violation(('count-label', name, kind.replace(' ', '-'), 'label%d' % c('label'), 'count%d' % c('count'), 'new%d' % c('new_lc'), 'x%d%d' % (c('label_other'), c('count_other'))),
                             'a path of %s returning "%s" has %d label store(s) of self.id, %d nr_msgs increment(s), %d Lifecycle::new call(s)' % (name, kind, c('label'), c('count'), c('new_lc')),
                             where=body.loc(None), witness={'block_path': ex.witness(rb, ex.out_entry.get((rb, st), st))[-40:]})
    P1.floor('return states of ' + name, n, 4)


def check_new(F, P1):
    name = 'adlt::lifecycle::Lifecycle::new'
    body = F.get(name)
    if body is None:
        P1.violation(('anchor-lost', name), name + ' not found')
        return
    P1.fn(name)
    cfg = CFG(body)
    E = ExprBuilder(cfg)
    nr1 = False
    label = 0
    import c03
    id_roots = set()      # the value that becomes the id of the new lifecycle (`let id = NEXT.fetch_add(..); msg.lifecycle = id; Lifecycle { id, .. }`)
    for b in body.blocks:
        if b.cleanup:
            continue
        for s in b.stmts:
            if s.k == 'assign' and s.rv['k'] == 'agg' and s.rv.get('adt') == 'adlt::lifecycle::Lifecycle':
                fields = s.rv.get('fields', [])
                if 'nr_msgs' in fields:
                    o = Operand(s.rv['ops'][fields.index('nr_msgs')])
                    nr1 = E.operand(o) == ('const', 1)
                if 'id' in fields:
                    r = c03.ssa_root(cfg, Operand(s.rv['ops'][fields.index('id')]))
                    if r is not None and r > body.arg_count:
                        id_roots.add(r)
    for b in body.blocks:
        if b.cleanup:
            continue
        for s in b.stmts:
            if s.k == 'assign' and effects.field_path(s.place) == 'lifecycle':
                e = E.rvalue(s.rv)
                if isinstance(e, tuple) and e[0] == 'place' and e[-1] == '.id':
                    label += 1
                elif s.rv['k'] == 'use' and c03.ssa_root(cfg, Operand(s.rv['o'])) in id_roots:
                    label += 1
    # the label store must be on every path
    writes = {b.i for b in body.blocks if not b.cleanup and any(s.k == 'assign' and effects.field_path(s.place) == 'lifecycle' for s in b.stmts)}
    esc = [e for e in cfg.exits if e in cfg.reachable_from(0, avoid=writes)]
    if nr1 and label == 1 and not esc:
        P1.ok(sample={'function': name, 'nr_msgs_initial': 1, 'label_stores': 1})
    else:
        P1.violation(('new-count-label', name), 'Lifecycle::new: initial nr_msgs==1: %s, label stores of the new id: %d, on all paths: %s' % (nr1, label, not esc), where=body.loc(None))


def check_merge_fn(F, P2):
    name = 'adlt::lifecycle::Lifecycle::merge'
    body = F.get(name)
    if body is None:
        P2.violation(('anchor-lost', name), name + ' not found')
        return
    P2.fn(name)
    cfg = CFG(body)
    E = ExprBuilder(cfg)
    other = body.name_of(2) or 'arg2'
    add_blocks, zero_blocks = set(), set()
    for b in body.blocks:
        if b.cleanup:
            continue
        for s in b.stmts:
            if s.k != 'assign':
                continue
            t = E.target(s.place)
            e = E.rvalue(s.rv)
            if is_self_field(t, 'nr_msgs') and isinstance(e, tuple) and e[0] == 'bin' and e[1] == 'Add' and is_self_field(e[2], 'nr_msgs') and \
                    isinstance(e[3], tuple) and e[3][0] == 'place' and e[3][1] == other and e[3][-1] == '.nr_msgs':
                add_blocks.add(b.i)
            if isinstance(t, tuple) and t[0] == 'place' and t[1] == other and t[-1] == '.nr_msgs' and e == ('const', 0):
                zero_blocks.add(b.i)
    esc_a = [e for e in cfg.exits if e in cfg.reachable_from(0, avoid=add_blocks)]
    esc_z = [e for e in cfg.exits if e in cfg.reachable_from(0, avoid=zero_blocks)]
    if add_blocks and zero_blocks and not esc_a and not esc_z:
        P2.ok(sample={'function': name, 'self.nr_msgs += other.nr_msgs': True, 'other.nr_msgs = 0': True, 'on_all_paths': True})
    else:
        P2.violation(('merge-count', name), 'Lifecycle::merge does not on every path add the merged count (%s) and zero it (%s)' % (bool(add_blocks) and not esc_a, bool(zero_blocks) and not esc_z), where=body.loc(None))


def check_relabel(F, st, P3):
    body, cfg = st.body, st.cfg
    P3.fn(body.path)
    eff = effects.get(F)
    merges = set(st.blocks_with('MERGE'))
    P3.floor('merge call sites in the stage', len(merges), 2)
    relabel_q = set()
    relabel_cur = set()
    partial = []
    for blk in body.blocks:
        if blk.cleanup:
            continue
        if blk.term.k == 'call' and blk.term.callee.path.endswith('Iterator::for_each') and 'DltMessage' in (blk.term.args[0].ty or ''):
            # closure argument must write exactly {lifecycle}; the traversal must be the *whole* queue:
            # iter_mut() of the queue itself with no element-dropping adaptor (skip, take, filter, step_by ...) in between
            cl = comparators.closure_path_of(F, body, blk.term.args[1])
            src = st.E.operand(blk.term.args[0])
            whole = isinstance(src, tuple) and src[0] == 'call' and (src[1].endswith('VecDeque::<T, A>::iter_mut') or src[1].endswith('IntoIterator::into_iter')) and \
                'VecDeque<adlt::dlt::DltMessage>' in (blk.term.args[0].ty or '') or (isinstance(src, tuple) and src[0] == 'call' and src[1].endswith('VecDeque::<T, A>::iter_mut'))
            if cl is not None and eff.may_write(cl.path) == {'lifecycle'}:
                if whole:
                    relabel_q.add(blk.i)
                else:
                    partial.append((blk, show(src)))
        for s in blk.stmts:
            if s.k == 'assign' and effects.field_path(s.place) == 'lifecycle' and s.place.l in st.recv_locals:
                relabel_cur.add(blk.i)
    # the same relabel written as a plain loop: `for m in queue.iter_mut() { if m.lifecycle == a { m.lifecycle = b } }`
    loops = cfg.loops()
    E2 = ExprBuilder(cfg, fold_named=True)
    for blk in body.calls():
        t = blk.term
        if t.callee.path != 'std::iter::Iterator::next' or 'vec_deque::IterMut<' not in (t.args[0].ty or '') or 'DltMessage' not in (t.args[0].ty or ''):
            continue
        src = E2.operand(t.args[0])
        ssrc = show(src)
        inner = [hd for hd, lb in loops.items() if blk.i in lb]
        if not inner:
            continue
        hd = min(inner, key=lambda h: len(loops[h]))
        lb = loops[hd]
        writes = [s for x in lb for s in body.blocks[x].stmts if s.k == 'assign' and effects.field_path(s.place) == 'lifecycle']
        other = [s for x in lb for s in body.blocks[x].stmts if s.k == 'assign' and effects.field_path(s.place) not in (None, 'lifecycle')]
        if not writes or other:
            continue
        whole = re.search(r'VecDeque::iter_mut\(', ssrc) is not None and not re.search(r'Iterator::(skip|take|filter|step_by|skip_while|take_while|nth|peekable|zip)\b', ssrc)
        # every exit of the loop leaves from the block that tests the result of this next() (the None edge)
        exits = [(x, y) for x in lb for y in cfg.succ[x] if y not in lb and body.blocks[y].term.k != 'unreachable']
        nxt_test = set(cfg.succ[blk.i])
        only_none_exit = all(x in nxt_test or x == blk.i for (x, y) in exits)
        if whole and only_none_exit:
            relabel_q.add(blk.i)
        else:
            partial.append((blk, ssrc + ('' if only_none_exit else ' (loop left early)')))
    # the relabelling done by a private helper that is given the message in flight and / or the queue
    # (`relabel_msgs_after_merge(&mut msg, &mut buffered_msgs, from, to)`): summarised from the helper's body
    for blk in body.calls():
        t = blk.term
        H = F.get(t.callee.resolved) if t.callee.resolved else F.get(t.callee.path)
        if H is None or H.kind == 'closure' or H.crate != 'lib' or H.path == body.path or not H.path.startswith('adlt::lifecycle::'):
            continue
        msg_params = [i for i, ty in enumerate(H.arg_types(), start=1) if ty == '&mut adlt::dlt::DltMessage']
        q_params = [i for i, ty in enumerate(H.arg_types(), start=1) if ty.startswith('&mut std::collections::VecDeque<adlt::dlt::DltMessage')]
        if not msg_params and not q_params:
            continue
        hcfg = CFG(H)
        hE = ExprBuilder(hcfg, fold_named=True)
        hloops = hcfg.loops()
        # (a) the message parameter gets `lifecycle` stored on every path
        for pi in msg_params:
            a = t.args[pi - 1]
            o = cfg.origin_of_operand(a) if a.place is not None else None
            if o is None or o.l not in st.recv_locals:
                continue
            stores = [x.i for x in H.blocks if not x.cleanup and not any(x.i in lb for lb in hloops.values())
                      for s_ in x.stmts if s_.k == 'assign' and effects.field_path(s_.place) == 'lifecycle' and s_.place.l == pi]
            if stores and not any(e in hcfg.reachable_from(0, avoid=set(stores)) for e in hcfg.exits):
                relabel_cur.add(blk.i)
        # (b) the queue parameter is traversed as a whole, writing only `lifecycle`
        for pi in q_params:
            good = False
            for hb in H.calls():
                ht = hb.term
                if ht.callee.path != 'std::iter::Iterator::next' or 'vec_deque::IterMut<' not in (ht.args[0].ty or ''):
                    continue
                ssrc = show(hE.operand(ht.args[0]))
                inner = [hd for hd, lb in hloops.items() if hb.i in lb]
                if not inner:
                    continue
                lb = hloops[min(inner, key=lambda h: len(hloops[h]))]
                writes = [s_ for x in lb for s_ in H.blocks[x].stmts if s_.k == 'assign' and effects.field_path(s_.place) == 'lifecycle']
                other = [s_ for x in lb for s_ in H.blocks[x].stmts if s_.k == 'assign' and effects.field_path(s_.place) not in (None, 'lifecycle')]
                whole = re.search(r'VecDeque::iter_mut\(', ssrc) is not None and not re.search(r'Iterator::(skip|take|filter|step_by|skip_while|take_while|nth|peekable|zip)\b', ssrc)
                exits = [(x, y) for x in lb for y in hcfg.succ[x] if y not in lb and H.blocks[y].term.k != 'unreachable']
                only_none_exit = all(x in set(hcfg.succ[hb.i]) or x == hb.i for (x, y) in exits)
                head_on_all_paths = not any(e in hcfg.reachable_from(0, avoid={hb.i}) for e in hcfg.exits)
                if writes and not other and whole and only_none_exit and head_on_all_paths:
                    good = True
            if good:
                relabel_q.add(blk.i)
    sinks = set(st.blocks_with('RECV_IN')) | set(st.blocks_with('SEND')) | set(st.blocks_with('STORE')) | set(cfg.exits)

    def block_effect(b, facts):
        if b.i in merges:
            facts = frozenset(facts | {('need_q', b.i), ('need_cur', b.i)})
        if b.i in relabel_q:
            facts = frozenset(f for f in facts if f[0] != 'need_q')
        if b.i in relabel_cur:
            facts = frozenset(f for f in facts if f[0] != 'need_cur')
        return facts
    ex = Explorer(cfg, block_effect=block_effect, var_roots=set())
    ex.run()
    P3.paths += ex.n_states
    bad = {}
    for sb in sinks:
        for s in ex.states.get(sb, ()):
            for f in s[1]:
                if f[0] in ('need_q', 'need_cur'):
                    bad.setdefault((f[1], f[0]), (sb, s))
    for (blk, src) in partial:
        P3.violation(('relabel-partial-traversal', body.path, re.sub(r'[^A-Za-z:]+', '_', src.split('(')[0])[:40]),
                     'the relabelling after a merge at %s traverses only part of the queue (%s): queued messages of the merged lifecycle outside that part keep an id that no longer denotes a lifecycle' % (body.loc(blk.term.sp), src[:80]),
                     where=body.loc(blk.term.sp))
    ms = sorted(merges)
    for m in ms:
        for need, what in (('need_q', 'queued messages'), ('need_cur', 'the current message')):
            if (m, need) in bad:
                sb, s = bad[(m, need)]
                P3.violation(('merge-without-relabel', body.path, need, guard_key(st, m)), 'after the merge at %s the %s can keep the id of the merged (invalid) lifecycle' % (body.loc(body.blocks[m].term.sp), what),
                             where=body.loc(body.blocks[m].term.sp), witness={'block_path': ex.witness(sb, s)[-40:]})
            else:
                P3.ok(sample={'merge_at': body.loc(body.blocks[m].term.sp), 'relabels': what})


def guard_key(st, m):
    """stable descriptor of a merge site: truth of the dominating buffered_lcs.contains(prev) test"""
    for (e, t, D) in guards.known(st.cfg, st.E, m):
        if isinstance(e, tuple) and e[0] == 'place' and e[1] == 'is_buffered' and t in (True, False):
            return 'prev_buffered=%s' % t
        if isinstance(e, tuple) and e[0] == 'call' and e[1].endswith('::contains') and t in (True, False):
            return 'prev_buffered=%s' % t
    return 'unguarded'


def diverges(cfg, start):
    """no normal exit reachable from start"""
    r = cfg.reachable_from(start)
    return not any(e in r for e in cfg.exits)


def check_unpublish(F, st, P4):
    """after each merge(prev, merged): on every normal path to the next receive either the merged id is
    removed from the published table, or a membership test of the merged id in the buffered set
    (contains / remove returning true; an assert!(contains) counts because its false edge diverges)
    proves it was never published."""
    body, cfg, E = st.body, st.cfg, st.E
    P4.fn(body.path)
    merges = sorted(st.blocks_with('MERGE'))
    tests = st.blocks_with('LCS_CONTAINS') + st.blocks_with('LCS_REMOVE')
    unpublish = set(bi for bi in st.blocks_with('W_DIRTY') if st.info[bi].get('what') in ('empty', 'remove_entry', 'purge'))   # key-removing calls only: clear/remove keep the key with an empty bag
    recvs = set(st.blocks_with('RECV_IN'))
    merged_of = {}
    for m in merges:
        t = body.blocks[m].term
        merged = show(E.operand(t.args[1]))
        merged_of[m] = re.sub(r'[^A-Za-z0-9_]', '', merged.split('.')[0])
    # membership tests: block -> (dest local, name mentioned)
    test_dest = {}
    def one_step(op, depth=0):
        # `let merged_id = lc2.id; .. contains(&merged_id)` names the same id: resolve a single-definition local one step
        # (through the borrow) to the place it was copied from, keeping the names of that place
        if op.place is None or depth > 6:
            return ''
        if not op.place.is_local:
            return show(E.operand(op))
        sd = cfg.single_def(op.place.l)
        if sd is None or sd[1] == 'call':
            return ''
        rv = sd[2].rv
        if rv['k'] in ('ref', 'rawptr'):
            from facts import Place
            pl = Place(rv['p'])
            if pl.is_local or all(e['k'] == 'deref' for e in pl.p):
                return one_step(Operand({'k': 'copy', 'p': {'l': pl.l, 'p': [], 't': ''}}), depth + 1)
            return show(E.place(pl))
        if rv['k'] == 'use':
            o = Operand(rv['o'])
            if o.place is not None and not o.place.is_local:
                return show(E.operand(o))
            return one_step(o, depth + 1)
        return ''
    for c in tests:
        ct = body.blocks[c].term
        arg = show(E.operand(ct.args[1])) + ' ' + one_step(ct.args[1])
        if ct.dest.is_local:
            test_dest[ct.dest.l] = arg

    def block_effect(b, facts):
        if b.i in merges:
            facts = frozenset(facts | {('need_unpub', b.i)})
        if b.i in unpublish:
            facts = frozenset(f for f in facts if f[0] != 'need_unpub')
        return facts

    def edge_effect(b, tgt, facts):
        if b.term.k == 'switch' and any(f[0] == 'need_unpub' for f in facts):
            d = Operand(b.term.d['d'])
            if d.place is not None and d.place.is_local:
                l = d.place.l
                src = None
                if l in test_dest:
                    src = l
                else:
                    sd = cfg.single_def(l)
                    if sd is not None and sd[1] != 'call' and sd[2].rv['k'] == 'use':
                        o = Operand(sd[2].rv['o'])
                        if o.place is not None and o.place.is_local and o.place.l in test_dest:
                            src = o.place.l
                    if sd is not None and sd[1] != 'call' and sd[2].rv['k'] == 'un' and sd[2].rv['op'] == 'Not':
                        o = Operand(sd[2].rv['a'])
                        if o.place is not None and o.place.is_local and o.place.l in test_dest:
                            src = -o.place.l - 1   # negated
                if src is not None:
                    neg = src < 0
                    arg = test_dest[-src - 1 if neg else src]
                    vals = b.term.d['vals']
                    edge_true = None
                    for v, t in vals:
                        if t == tgt:
                            edge_true = (v != 0)
                    if edge_true is None and b.term.d['otherwise'] == tgt and all(v == 0 for v, _ in vals):
                        edge_true = True
                    if edge_true is not None:
                        member = (not edge_true) if neg else edge_true
                        if member:
                            facts = frozenset(f for f in facts if not (f[0] == 'need_unpub' and re.search(r'\b%s\b' % re.escape(merged_of[f[1]]), arg) and '.id' in arg))
        return facts
    ex = Explorer(cfg, block_effect=block_effect, edge_effect=edge_effect, var_roots=set())
    ex.run()
    P4.paths += ex.n_states
    bad = {}
    for sb in list(recvs) + cfg.exits:
        for s in ex.states.get(sb, ()):
            for f in s[1]:
                if f[0] == 'need_unpub':
                    bad.setdefault(f[1], (sb, s))
    for m in merges:
        t = body.blocks[m].term
        P4.sites += 1
        if m in bad:
            sb, s = bad[m]
            P4.violation(('merge-of-possibly-published', body.path, guard_key(st, m)),
                         'the merge at %s invalidates lifecycle `%s`, but a path to the next receive neither proves that it was never published (membership of %s.id in the buffered set) nor removes it from '
                         'the published table: a confirmed lifecycle can stay listed although no delivered message references it' % (body.loc(t.sp), merged_of[m], merged_of[m]),
                         where=body.loc(t.sp), witness={'block_path': ex.witness(sb, s)[-50:]})
        else:
            P4.ok(sample={'merge_at': body.loc(t.sp), 'merged': merged_of[m], 'evidence': 'every path to the next receive passes a membership proof of %s.id in the buffered set or its removal from the published table' % merged_of[m]})
    P4.floor('merge call sites in the stage', len(merges), 2)


# ---------------------------------------------------------------------------------------------
# P5: every delivered message's lifecycle is (re)marked for the final table refresh

def check_marked(F, st, P5):
    """Rule #2 of the stage ("the lifecycle info ... at the end reflects the final state"): between taking a
    message (receive / pop / final flush) and handing it to the outflow, its lifecycle id is put on the
    refresh list (mark closure) - or the mark is skipped on an equality edge `id == cache` where the cache
    local was set together with a mark/update of that id and the list was not cleared since."""
    import re as _re
    body, cfg, E = st.body, st.cfg, st.E
    P5.fn(body.path)
    # a new message is in play after the inflow/final-flush take and after every hand-over (the queue head is
    # inspected and marked *before* it is popped, so pop_front itself is not a boundary)
    sends = st.blocks_with('SEND')
    takes = set(st.blocks_with('RECV_IN')) | set(st.blocks_with('FINAL_NEXT')) | set(sends) | set(st.blocks_with('STORE'))
    marks = {}
    clears = set()
    for blk in body.calls():
        t = blk.term
        tgt = t.callee.resolved and F.get(t.callee.resolved)
        if tgt is not None and tgt.kind == 'closure':
            ats = tgt.arg_types()
            calls = [x.term.callee.path for x in tgt.calls()]
            if len(ats) >= 3 and ats[1] == 'u32' and ats[2].startswith('&mut std::vec::Vec<u32>') and any(c.endswith('Vec::<T, A>::push') for c in calls):
                e = E.operand(t.args[1])
                arg = e[2][0] if isinstance(e, tuple) and e[0] == 'agg' and e[2] else e
                marks[blk.i] = show(arg)
            if any(c.endswith('Vec::<T, A>::clear') for c in calls):
                clears.add(blk.i)
        if t.callee.path.endswith('Vec::<T, A>::clear') and 'Vec<u32>' in (t.args[0].ty or ''):
            clears.add(blk.i)
    for bi in st.blocks_with('W_DIRTY'):
        t = body.blocks[bi].term
        if st.info[bi].get('what') == 'update' and len(t.args) > 1:
            marks.setdefault(bi, show(E.operand(t.args[1])))
    P5.floor('mark/update sites in the stage', len(marks), 4)
    P5.floor('refresh-list clear sites (directly or in closures)', len(clears), 1)
    # assignments to named u32 locals (candidate caches)
    assigns = {}
    for blk in body.blocks:
        if blk.cleanup:
            continue
        for i, s in enumerate(blk.stmts):
            if s.k == 'assign' and s.place.is_local and body.name_of(s.place.l) and body.lty(s.place.l) == 'u32':
                assigns.setdefault(blk.i, []).append((body.name_of(s.place.l), E.rvalue(s.rv)))

    def block_effect(b, facts):
        if b.i in takes:
            facts = frozenset(f for f in facts if f != ('marked',))
        for (nm, e) in assigns.get(b.i, []):
            facts = frozenset(f for f in facts if not (f[0] in ('cache', 'zero', 'pend') and f[1] == nm))
            if e == ('const', 0):
                facts = frozenset(facts | {('zero', nm)})
            elif ('mk', show(e)) in facts:
                facts = frozenset(facts | {('cache', nm)})
            else:
                facts = frozenset(facts | {('pend', nm, show(e))})
        if b.i in marks:
            arg = marks[b.i]
            new = {('marked',), ('mk', arg)}
            for f in facts:
                if f[0] == 'pend' and f[2] == arg:
                    new.add(('cache', f[1]))
            facts = frozenset(facts | new)
        if b.i in clears:
            facts = frozenset(f for f in facts if f[0] not in ('cache', 'mk', 'pend'))
        return facts

    def edge_effect(b, tgt, facts):
        if b.term.k != 'switch':
            return facts
        c = E.switch_cond(b)
        if not (isinstance(c, tuple) and c[0] == 'bin' and c[1] in ('Eq', 'Ne')):
            return facts
        names = [x[1] for x in (c[2], c[3]) if isinstance(x, tuple) and x[0] == 'place' and len(x) == 2]
        if not names:
            return facts
        vals = b.term.d['vals']
        is_true = None
        for v, t in vals:
            if t == tgt:
                is_true = (v != 0)
        if is_true is None and b.term.d['otherwise'] == tgt and [v for v, _ in vals] == [0]:
            is_true = True
        if is_true is None:
            return facts
        equal_edge = (c[1] == 'Eq') == is_true
        if not equal_edge:
            return facts
        for nm in names:
            if ('zero', nm) in facts:
                return None      # an assigned lifecycle id is never 0: infeasible
            if ('cache', nm) in facts:
                return frozenset(facts | {('marked',)})
        return facts
    ex = Explorer(cfg, block_effect=block_effect, edge_effect=edge_effect, var_roots=set())
    ex.run()
    P5.paths += ex.n_states
    for bi in sends:
        bad = [s for s in ex.states.get(bi, ()) if ('marked',) not in s[1]]
        where = body.loc(body.blocks[bi].term.sp)
        if bad:
            P5.violation(('delivered-unmarked', body.path, st.info[bi].get('src') or 'q', guard_key2(st, bi)),
                         'a message can be handed to the outflow at %s without its lifecycle having been marked for the table refresh since it was taken (or via a cache whose list was cleared in between): '
                         'the final table can list a stale message count for that lifecycle' % where, where=where, witness={'block_path': ex.witness(bi, bad[0])[-50:]})
        else:
            P5.ok(sample={'outflow_call': where, 'lifecycle_marked_or_just_updated_on_all_paths': True})


def guard_key2(st, bi):
    ks = []
    for (c, t, D) in guards.known(st.cfg, st.E, bi):
        if t in (True, False) and isinstance(c, tuple) and c[0] in ('bin',) and c[1] in ('Eq', 'Ne'):
            ks.append(re.sub(r'[^A-Za-z_(),]+', '', show(c))[:30] + str(t))
    return ','.join(ks[:2]) or 'top'


# ---------------------------------------------------------------------------------------------
# P6: table write API

TABLE_WRITE_OK = {'update': 'replaces the value-bag by exactly one value', 'empty': 'removes the key', 'purge': 'removes all keys', 'refresh': 'publishes',
                  'flush': 'publishes', 'pending': 'read-only', 'is_empty': 'read-only', 'len': 'read-only', 'destroy': 'ends the table',
                  'deref': 'read access', 'clone': 'read handle'}
TABLE_WRITE_BAD = {'insert': 'adds a second value to the bag of a key: readers use get_one() and would see an arbitrary one',
                   'clear': 'keeps the key with an empty value-bag: the id stays published and readers (get_one().unwrap()) fail on it',
                   'remove': 'removes one value but keeps the key with an empty bag',
                   'remove_value': 'removes one value but keeps the key with an empty bag',
                   'extend': 'inserts without replacing', 'retain': 'can leave an empty bag', 'empty_random': 'removes an arbitrary key',
                   'reserve': 'creates an empty bag for a new key', 'fit': 'n/a', 'fit_all': 'n/a'}


def check_table_api(F, P6):
    """Readers of the lifecycle table (listing, sorter, remote, export plugin) take `get_one()` of each key and unwrap it, so
    the invariant "every key present <=> exactly one value" must be kept by the writers.  Who-may-call rule over every
    call on an evmap WriteHandle in library and binary."""
    n = 0
    for b in F.order:
        for blk in b.calls():
            p = blk.term.callee.path
            m = re.match(r'^evmap::WriteHandle::<K, V, M, S>::(\w+)$', p)
            if not m:
                continue
            n += 1
            P6.sites += 1
            P6.fn(b.path)
            what = m.group(1)
            if what in TABLE_WRITE_OK:
                P6.ok(sample={'function': b.path, 'call': what, 'why_ok': TABLE_WRITE_OK[what]})
            else:
                P6.violation(('table-api', b.closure_of or b.path, what), '%s calls WriteHandle::%s on the published lifecycle table at %s: %s' %
                             (b.path, what, b.loc(blk.term.sp), TABLE_WRITE_BAD.get(what, 'not a reviewed table operation')), where=b.loc(blk.term.sp))
    P6.floor('calls on the table write handle', n, 7)


# ---------------------------------------------------------------------------------------------
# O3: the listing key follows the resume chain

LOOKUP = re.compile(r'(HashMap::<.*>::get|BTreeMap::<.*>::get|Iterator::find|Iterator::position|ops::Index::index|slice::<impl \[T\]>::binary_search\w*|MapReadRef::<.*>::get_one|ReadHandle::<.*>::get_one)$')


def _feats(F, body, blocks=None, depth=0, seen=None):
    """(reads `.resume_lc`, looks another lifecycle up) within the given blocks of body, closures passed there included"""
    seen = seen if seen is not None else set()
    reads = looks = False
    for blk in body.blocks:
        if blk.cleanup or (blocks is not None and blk.i not in blocks):
            continue
        places = []
        for s in blk.stmts:
            if s.k == 'assign':
                places += [o.place for o in s.rv_operands() if o.place is not None]
                if s.rv_place() is not None:
                    places.append(s.rv_place())
        if blk.term.k == 'call':
            places += [a.place for a in blk.term.args if a.place is not None]
            p = blk.term.callee.path
            if LOOKUP.search(p):
                looks = True
            for a in blk.term.args:
                if '{closure@' in (a.ty or '') and depth < 4:
                    cl = comparators.closure_path_of(F, body, a)
                    if cl is not None and cl.path not in seen:
                        seen.add(cl.path)
                        r2, l2 = _feats(F, cl, None, depth + 1, seen)
                        reads |= r2
                        looks |= l2
            tgt = F.get(p)
            if tgt is not None and tgt.path.startswith('adlt::lifecycle::') and depth < 3 and tgt.path not in seen:
                seen.add(tgt.path)
                r2, l2 = _feats(F, tgt, None, depth + 1, seen)
                reads |= r2
                looks |= l2
            if blk.term.callee.resolved and depth < 4:
                cl = F.get(blk.term.callee.resolved)
                if cl is not None and cl.path not in seen:
                    seen.add(cl.path)
                    r2, l2 = _feats(F, cl, None, depth + 1, seen)
                    reads |= r2
                    looks |= l2
        if blk.term.k == 'switch':
            o = Operand(blk.term.d['d'])
            if o.place is not None:
                places.append(o.place)
        for pl in places:
            if any(e['k'] == 'f' and e.get('n') == 'resume_lc' for e in pl.p):
                reads = True
    return reads, looks


def check_listing_chain(F, O3):
    """"never places a resumed lifecycle before the one it resumes": a lifecycle only records the lifecycle it resumes
    directly (id and a snapshot of its start), so for chains a <- b <- c the order can only be right if the computation of
    the listing order follows the resume links transitively: somewhere below get_sorted_lifecycles_as_vec there must be a
    cycle (loop, or recursion) whose body reads `.resume_lc` and looks the resumed lifecycle up.  Decides this necessary
    structural condition, not the order itself."""
    b = F.get('adlt::lifecycle::get_sorted_lifecycles_as_vec')
    if b is None:
        O3.violation(('anchor-lost', 'get_sorted_lifecycles_as_vec'), 'listing function not found')
        return
    O3.fn(b.path)
    bodies = [b] + list(F.closures_of(b.path))
    any_reads, _ = _feats(F, b)
    for cl in F.closures_of(b.path):
        r, _l = _feats(F, cl)
        any_reads |= r
    O3.sites += len(bodies)
    if not any_reads:
        O3.violation(('listing-ignores-resume', b.path), 'the lifecycle listing never consults `.resume_lc`: a resumed lifecycle whose start estimate is earlier is listed before the one it resumes', where=b.loc(None))
        return
    # only what the sort call actually uses counts: the closures given to sort_by* / *_by_key and everything they call
    reach = []
    seen_r = set()
    work = []
    for blk in b.calls():
        if comparators.SORT_CALLEES.search(blk.term.callee.path) or comparators.KEY_CALLEES.search(blk.term.callee.path):
            for a in blk.term.args:
                if '{closure@' in (a.ty or ''):
                    cl = comparators.closure_path_of(F, b, a)
                    if cl is not None:
                        work.append(cl)
    while work:
        x = work.pop()
        if x.path in seen_r:
            continue
        seen_r.add(x.path)
        reach.append(x)
        for blk in x.calls():
            for cand in (blk.term.callee.resolved, blk.term.callee.path):
                t2 = F.get(cand) if cand else None
                if t2 is not None and (t2.path.startswith('adlt::lifecycle::') or t2.kind == 'closure'):
                    work.append(t2)
            for a in blk.term.args:
                if '{closure@' in (a.ty or ''):
                    c2 = comparators.closure_path_of(F, x, a)
                    if c2 is not None:
                        work.append(c2)
    O3.floor('closures used by the sort call of the listing', len(reach), 1)
    found = None
    for x in reach:
        cfg = CFG(x)
        for hd, lb in cfg.loops().items():
            r, l = _feats(F, x, lb)
            if r and l:
                found = (x, hd)
        # recursion: x calls itself
        if any(blk.term.callee.path == x.path or blk.term.callee.resolved == x.path for blk in x.calls()):
            r, l = _feats(F, x)
            if r and l:
                found = (x, 'recursion')
    if found:
        O3.ok(sample={'listing': b.path, 'resume_chain_followed_in': found[0].path, 'by': 'loop at block %s' % found[1] if found[1] != 'recursion' else 'recursion'})
    else:
        O3.violation(('resume-chain-not-followed', b.path), 'the listing order consults `.resume_lc` but nowhere in a loop/recursion that looks the resumed lifecycle up: only the directly resumed lifecycle is taken into account, '
                     'so in a chain a <- b <- c whose start estimates cross, c can be listed before a', where=b.loc(None))


# ---------------------------------------------------------------------------------------------
# P7: a lifecycle is only merged away while all of its messages are still queued

def check_merge_needs_all_queued(st, P7):
    """When the previous lifecycle is no longer buffered, the newer lifecycle may already have been confirmed and some of its
    messages delivered.  Merging it then would leave delivered messages with the id of a lifecycle that no longer exists
    and move their count to another lifecycle.  So that merge is dominated by the equality of the number of queued
    messages carrying its id (+ the current one) with its `nr_msgs`.  (In the other branch - previous lifecycle still
    buffered - the merged lifecycle is buffered too, see P4/Q5: nothing of it was delivered.)"""
    body, cfg, E = st.body, st.cfg, st.E
    EF = ExprBuilder(cfg, fold_named=True)
    P7.fn(body.path)
    n = 0
    for m in sorted(st.blocks_with('MERGE')):
        if guard_key(st, m) != 'prev_buffered=False':
            continue
        n += 1
        P7.sites += 1
        ok = None
        for (c, truth, D) in guards.known(cfg, EF, m):
            sc = show(c)
            if truth is True and sc.startswith('Eq(') and 'Iterator::count(' in sc and 'nr_msgs' in sc and ('VecDeque::iter(' in sc or 'buffered_msgs' in sc):
                ok = sc
            elif truth is True and isinstance(c, tuple) and c[0] == 'bin' and c[1] == 'Eq':
                # the same count spelled as a loop: `let mut n = 1; for m in queued.iter() { if m.lifecycle == id { n += 1 } }`
                for (cnt, other) in ((c[2], c[3]), (c[3], c[2])):
                    if not (isinstance(cnt, tuple) and cnt[0] == 'place' and len(cnt) == 2 and 'nr_msgs' in show(other)):
                        continue
                    for l in body.locals_named(cnt[1]):
                        cl = counting.counting_loop(cfg, EF, l)
                        if cl is None or D in cl['body'] or not cfg.dominates(cl['loop'], D):
                            continue
                        if ('VecDeque::iter(' in cl['source'] or 'buffered_msgs' in cl['source']) and \
                                all(any(t is True and x.startswith('Eq(') and '.lifecycle' in x for (x, t) in cs) for cs in cl['conds']):
                            ok = sc
        if ok:
            P7.ok(sample={'merge_at': body.loc(body.blocks[m].term.sp), 'only_when': 'count of queued messages of the merged lifecycle (+1) == its nr_msgs'})
        else:
            P7.violation(('merge-with-delivered-messages', body.path), 'the merge at %s (previous lifecycle no longer buffered) is not dominated by the equality of the queued messages of the merged lifecycle with its nr_msgs: '
                         'a lifecycle with already delivered messages can be merged away - those messages keep an id that denotes no lifecycle and the counts no longer add up' % body.loc(body.blocks[m].term.sp),
                         where=body.loc(body.blocks[m].term.sp))
    P7.floor('merge sites with a possibly confirmed merged lifecycle', n, 1)


# ---------------------------------------------------------------------------------------------
# P9: every refresh gets its own stamp

def check_refresh_stamp(F, st, P9):
    """Published items carry the refresh index they were written with (`new_lifecycle_item(lc, idx)`); consumers that follow the
    table incrementally (the remote server) skip everything whose stamp they have already seen.  So no two refreshes may
    publish under the same stamp: after every refresh() the index is incremented before the next table write, the next
    refresh, the next hand-over of a message or the return.  (Otherwise a consumer that looks at the table between two such
    refreshes - a matter of pacing - ignores the second publication and ends with a stale table.)"""
    from cfg import CFG
    from facts import Operand
    bodies = [st.body] + [F.get(st.info[bi]['closure']) for bi in st.blocks_with('W_CLOSURE') if F.get(st.info[bi]['closure']) is not None]
    n = 0
    for b in bodies:
        cfg = st.cfg if b is st.body else CFG(b)
        E = ExprBuilder(cfg, fold_named=True)
        E0 = ExprBuilder(cfg)
        P9.fn(b.path)
        # the stamp: second argument of new_lifecycle_item
        stamps = set()
        for blk in b.calls():
            if blk.term.callee.path.endswith('::new_lifecycle_item') and len(blk.term.args) >= 2:
                stamps.add(show(E0.operand(blk.term.args[1])).lstrip('&'))
                stamps.add(show(E.operand(blk.term.args[1])).lstrip('&'))        # `let idx = *last_refresh_index; .. item(lc, idx)`: the counter behind the copy
        if not stamps:
            continue
        inc_blocks = set()
        for blk in b.blocks:
            if blk.cleanup:
                continue
            for s_ in blk.stmts:
                if s_.k == 'assign' and show(E0.target(s_.place)) in stamps:
                    inc_blocks.add(blk.i)
        cleans = [blk.i for blk in b.calls() if lcstage.W_CLEAN.match(blk.term.callee.path)]
        stops = set()
        for blk in b.calls():
            p = blk.term.callee.path
            if lcstage.W_CLEAN.match(p) or lcstage.W_DIRTY.match(p):
                stops.add(blk.i)
        if b is st.body:
            stops |= set(st.blocks_with('SEND')) | set(st.blocks_with('W_CLOSURE'))
        for c in cleans:
            t = b.blocks[c].term
            if t.d.get('t') is None:
                continue
            n += 1
            P9.sites += 1
            if t.d['t'] in inc_blocks:
                region = set()
            else:
                region = cfg.reachable_from(t.d['t'], avoid=inc_blocks)
            hit = sorted(x for x in region if x in stops or x in cfg.exits)
            if hit:
                what = 'the return' if hit[0] in cfg.exits and hit[0] not in stops else b.blocks[hit[0]].term.callee.path.split('::')[-1] if b.blocks[hit[0]].term.k == 'call' else 'the return'
                P9.violation(('refresh-without-new-stamp', b.path), 'after the refresh at %s the refresh index is not incremented before %s (%s): the next publication carries a stamp that consumers following the table have already seen - they ignore it and keep a stale table' %
                             (b.loc(t.sp), what, b.loc(b.blocks[hit[0]].term.sp)), where=b.loc(t.sp))
            else:
                P9.ok(sample={'refresh_at': b.loc(t.sp), 'stamp': sorted(stamps)[0], 'incremented_before': 'next table write / hand-over / return'})
    P9.floor('refresh sites with a stamped publication', n, 3)


# ---------------------------------------------------------------------------------------------
# P8: the regular refresh reaches every marked lifecycle

def check_refresh_scan_complete(F, st, P8):
    """Delivered messages of an already published lifecycle only *mark* it; the regular (and final) refresh republishes the
    marked ones and then clears the marks.  If the scan that looks for the marked lifecycles can stop early for any reason other
    than "all marked ones were updated", a marked lifecycle keeps its stale snapshot while its mark is cleared: the table's
    nr_msgs stays below the number of delivered messages carrying that id.  In the body that both updates the table inside
    loops and clears a mark list: every exit of those loops is the exhaustion of the iterator, or the true edge of
    `remaining == 0` for a counter initialised with the number of marks and decremented per update."""
    import lcstage
    bodies = [st.body] + list(F.closures_of(st.body.path))
    n = 0
    for x in bodies:
        cfg = CFG(x)
        E = ExprBuilder(cfg, fold_named=True)
        upd = [blk.i for blk in x.calls() if lcstage.W_DIRTY.match(blk.term.callee.path) and blk.term.callee.path.endswith('::update')]
        clears = [blk for blk in x.calls() if re.search(r'Vec::<T, A>::clear$', blk.term.callee.path) and 'u32' in (blk.term.args[0].ty or '')]
        if not upd or not clears:
            continue
        loops = cfg.loops()
        scan = {h: lb for h, lb in loops.items() if any(u in lb for u in upd) and not any(c.i in lb for c in clears)}
        if not scan:
            continue
        P8.fn(x.path)
        for h, lb in scan.items():
            for bi in sorted(lb):
                blk = x.blocks[bi]
                outs = [s_ for s_ in cfg.succ[bi] if s_ not in lb and not x.blocks[s_].cleanup and x.blocks[s_].term.k != 'unreachable']
                if not outs:
                    continue
                for s_ in outs:
                    n += 1
                    P8.sites += 1
                    why = None
                    if blk.term.k == 'switch':
                        c = E.switch_cond(blk)
                        sc = show(c)
                        edge_true = None
                        for v, t in blk.term.d['vals']:
                            if t == s_:
                                edge_true = (v != 0)
                        if edge_true is None and blk.term.d['otherwise'] == s_:
                            edge_true = [v for v, _ in blk.term.d['vals']] == [0]
                        if sc.startswith('discr(Iterator::next('):
                            why = 'iterator exhausted'
                        elif edge_true is not None:
                            c2, t2 = guards.normalise(c, edge_true)
                            if t2 is True and isinstance(c2, tuple) and c2[0] == 'bin' and c2[1] == 'Eq' and c2[3] == ('const', 0) and isinstance(c2[2], tuple) and c2[2][0] == 'place' and len(c2[2]) == 2:
                                ls_ = x.locals_named(c2[2][1])
                                ok_cnt = bool(ls_)
                                for l_ in ls_:
                                    for (b2, s2, d2) in cfg.defs.get(l_, []):
                                        if s2 == 'call':
                                            ok_cnt = ok_cnt and d2.callee.path.endswith('::len')
                                        else:
                                            v2 = E.rvalue(d2.rv)
                                            ok_cnt = ok_cnt and (v2 == ('bin', 'Sub', c2[2], ('const', 1)) or (isinstance(v2, tuple) and v2[0] == 'call' and v2[1].endswith('::len')))
                                if ok_cnt:
                                    why = 'no marked lifecycle left to update (%s == 0)' % c2[2][1]
                    elif blk.term.k == 'goto':
                        # `break` after the counter test lowers to a goto from a block dominated by the test
                        for (c, truth, D) in guards.known(cfg, E, bi):
                            if truth is True and D in lb and isinstance(c, tuple) and c[0] == 'bin' and c[1] == 'Eq' and c[3] == ('const', 0) and isinstance(c[2], tuple) and c[2][0] == 'place':
                                why = 'no marked lifecycle left to update (%s == 0)' % c[2][1]
                    if why:
                        P8.ok(sample={'body': x.path, 'loop_exit_at': x.loc(blk.term.sp), 'because': why})
                    else:
                        P8.violation(('refresh-scan-left-early', x.closure_of or x.path), 'the scan that republishes the marked lifecycles can be left at %s for a reason other than {iterator exhausted, all marked lifecycles updated}: '
                                     'a marked lifecycle behind that point keeps its stale snapshot while the marks are cleared - the table counts fall behind the delivered messages' % x.loc(blk.term.sp), where=x.loc(blk.term.sp))
    P8.floor('exits of the refresh scan loops', n, 2)
