"""P-own: linearity of message-carrying values inside one function.

For one body, finds
  * LIVE-DROP: a non-cleanup Drop terminator of a message-carrying place that P-path can reach in a
    state that holds none of the excuses {consumer gone (crossed the Err edge of a SEND), the dropped
    container/source was drained (crossed the empty edge of a take on it), a rule-supplied excuse};
  * CLONE: Clone::clone / to_owned / to_vec / cloned on a message-carrying type;
  * LOSSY: by-value or by-&mut calls that can discard messages (retain, clear, truncate, drain,
    skip, take, filter, nth, pop_back ...) on message containers / sources, unless allow-listed;
  * CONSUMER: a call that takes a message-carrying value by move and returns nothing that carries
    it and is not a SEND or STORE (drop(), mem::forget, a new helper) unless allow-listed.
"""
import re
from facts import Place, Operand
from cfg import CFG
from paths import Explorer, place_key
from expr import ExprBuilder
import pairing

NON_OWNING = ('std::sync::mpsc::SyncSender<', 'std::sync::mpsc::Sender<', 'std::sync::mpmc::', 'std::thread::JoinHandle<',
              '{closure@', 'adlt::utils::DltFileInfos', 'std::option::Option<std::thread::JoinHandle<')
NON_OWNING_ANY = ('JoinHandle<', 'DltFileInfos', 'ProgressNonAsyncFuture<', 'Box<dyn std::any::Any')


def owns_msgs(ty):
    if ty.startswith('std::sync::mpmc::SendError<') or ty.startswith('std::sync::mpsc::TrySendError<'):
        return True
    if ty.startswith(NON_OWNING):
        return False
    for s in NON_OWNING_ANY:
        if s in ty:
            return False
    return True


SEND_CALLEES = ('std::ops::Fn::call', 'std::ops::FnMut::call_mut', 'std::ops::FnOnce::call_once',
                'std::sync::mpsc::Sender::<T>::send', 'std::sync::mpsc::SyncSender::<T>::send',
                'adlt::utils::sync_sender_send_delay_if_full')
TAKE_CALLEES = {
    # callee path -> index of the 'empty' variant of the result
    'std::iter::Iterator::next': 0,
    'std::sync::mpsc::Receiver::<T>::recv': 1,
    'std::collections::VecDeque::<T, A>::pop_front': 0,
    'std::collections::BinaryHeap::<T, A>::pop': 0,
    'std::iter::Peekable::<I>::next': 0,
}
STORE_CALLEES = ('std::collections::VecDeque::<T, A>::push_back', 'std::collections::BinaryHeap::<T, A>::push',
                 'std::vec::Vec::<T, A>::push', 'std::collections::VecDeque::<T, A>::push_front',
                 'std::vec::Vec::<T, A>::insert', 'std::collections::VecDeque::<T, A>::insert',
                 'std::iter::Extend::extend', 'std::vec::Vec::<T, A>::append', 'std::collections::VecDeque::<T, A>::append')
CLONE_CALLEES = ('std::clone::Clone::clone', 'std::borrow::ToOwned::to_owned', 'std::slice::<impl [T]>::to_vec',
                 'std::iter::Iterator::cloned', 'std::option::Option::<&T>::cloned', 'std::clone::Clone::clone_from',
                 'std::option::Option::<&mut T>::cloned', 'std::iter::Iterator::cycle', 'std::iter::repeat', 'std::vec::from_elem')
# methods on a message container / source that can discard or reorder messages
LOSSY_METHODS = re.compile(r'::(retain|retain_mut|clear|truncate|drain|split_off|remove|swap_remove|swap_remove_back|swap_remove_front|'
                           r'pop_back|dedup\w*|skip|skip_while|take|take_while|step_by|nth|nth_back|last|filter|filter_map|find|find_map|'
                           r'position|count|advance_by|rev|sort\w*|reverse|rotate_left|rotate_right|swap|resize\w*|shrink_to|fold|try_fold|'
                           r'for_each|try_for_each|all|any|min\w*|max\w*|sum|product|zip|chain|peekable|map|map_while|scan|flat_map|'
                           r'flatten|fuse|inspect|collect|partition|unzip|into_sorted_vec|into_vec|try_recv|recv_timeout|try_iter|make_contiguous)$')
CONTAINER_TY = re.compile(r'^(&mut |&)?(std::collections::VecDeque<|std::vec::Vec<|std::collections::BinaryHeap<|std::boxed::Box<dyn std::iter::Iterator<|'
                          r'std::sync::mpsc::Receiver<|std::sync::mpsc::IntoIter<|std::vec::IntoIter<|std::collections::vec_deque::IntoIter<|dyn std::iter::Iterator<)')


class OwnSpec:
    """per-function parameters of the linearity rule"""

    def __init__(self, allow_drop=(), allow_lossy=(), allow_consumer=(), allow_clone=(), excuse_edges=(), per_msg_facts=(),
                 drain_inside=(), stmt_facts=(), cond_facts=(), stmt_counts=(), track_msg_events=False):
        # allow_drop: list of (matcher(place_show, ty) -> bool, required_fact or None, reason)
        self.allow_drop = list(allow_drop)
        self.allow_lossy = list(allow_lossy)        # (callee regex, reason)
        self.allow_consumer = list(allow_consumer)  # (callee regex, reason)
        self.allow_clone = list(allow_clone)
        # excuse_edges: list of (callee path regex, switch value on the call result, fact name)
        self.excuse_edges = list(excuse_edges)
        self.per_msg_facts = set(per_msg_facts)
        self.drain_inside = list(drain_inside)
        # reset_takes: predicate(root_show, callee) selecting which take sites start a new message (default all)
        self.reset_takes = None
        # stmt_facts: list of (predicate(stmt, body) -> bool, fact name): fact is set when the statement executes
        self.stmt_facts = list(stmt_facts)
        # cond_facts: list of (predicate(expr) -> bool, truth, fact): fact is set on the edge of a switch
        # over a matching boolean expression where the expression is true (truth=True) / false
        self.cond_facts = list(cond_facts)
        # stmt_counts: like stmt_facts but counted: ('n', name, k) facts, k capped at 2
        self.stmt_counts = list(stmt_counts)
        # track_msg_events: set per-message facts ('recvd',) on the non-empty edge of a take and count
        # ('n','sent',k) at SEND and ('n','stored',k) at STORE call blocks
        self.track_msg_events = track_msg_events


class OwnResult:
    def __init__(self):
        self.recv_sites = []
        self.send_sites = []
        self.store_sites = []
        self.drop_sites = []       # (block, place_show, ty, verdict, reason)
        self.live_drops = []       # violations: dict
        self.clones = []
        self.lossy = []
        self.consumers = []
        self.states = 0
        self.allowed_used = []
        self.helpers = []          # forwarding helpers called (bodies)


def covers(drop_key, root_key):
    """is root (the drained thing) the dropped place itself or inside it via deref/downcast/field only"""
    if len(root_key) < len(drop_key):
        return False
    if root_key[:len(drop_key)] != drop_key:
        return False
    for e in root_key[len(drop_key):]:
        if e[0] in ('idx', 'cidx'):
            return False
    return True


def bool_false_only_under(H, rx):
    """every definition of H's bool result is `true`, or `false` at a place dominated by the false edge of a call matching rx"""
    import guards
    cfg = CFG(H)
    E = ExprBuilder(cfg)
    n_false = 0
    for (bi, si, d) in cfg.defs.get(0, []):
        if si == 'call' or d.rv['k'] != 'use':
            return False
        o = Operand(d.rv['o'])
        if not o.is_const or o.value not in (0, 1, True, False):
            return False
        if o.value in (1, True):
            continue
        n_false += 1
        ok = False
        for (c, truth, D) in guards.known(cfg, E, bi):
            if truth is False and isinstance(c, tuple) and c[0] == 'call' and re.search(rx, c[1]):
                ok = True
        if not ok:
            return False
    return n_false > 0


_FAITHFUL = {}


def send_faithful(F, H, _depth=0):
    """Forwarding helper: a private function returning Result<_, SendError<DltMessage>> whose Err results all stem from a send
    error of its own (every definition of the return place that is not `Ok(..)` is only reached with the 'consumer gone'
    fact).  A call of such a helper is, for its caller, a send whose Err edge means the consumer is gone."""
    key = (id(F), H.path)
    if key in _FAITHFUL:
        return _FAITHFUL[key]
    _FAITHFUL[key] = False      # recursion guard
    ok = False
    rt = H.ret_type()
    if H.kind != 'closure' and 'SendError<' in rt and 'DltMessage' in rt and _depth < 3:
        res = analyse(H, OwnSpec(), F=F, _depth=_depth + 1)
        ok = bool(res.send_sites)
        for (bi, si, d) in res.cfg.defs.get(0, []):
            if si != 'call' and d.rv['k'] == 'agg' and d.rv.get('variant') == 'Ok':
                continue
            sts = res.explorer.states.get(bi, ())
            if not all(('senderr',) in st[1] for st in sts):
                ok = False
    _FAITHFUL[key] = ok
    return ok


def analyse(body, spec=None, carries=lambda ty, cm: cm, track_all_vars=False, F=None, _depth=0):
    spec = spec or OwnSpec()
    cfg = CFG(body)
    res = OwnResult()
    blocks = body.blocks

    send_dest = {}    # dest place key -> block
    take_info = {}    # block -> (dest key, root key, empty variant)
    store_info = {}   # block -> root key
    excuse_calls = {} # block -> (switch value, fact)
    explicit_drops = {}  # block -> Operand (mem::drop(x))
    for b in blocks:
        if b.cleanup or b.term.k != 'call':
            continue
        t = b.term
        c = t.callee
        path = c.path
        args = t.args
        dest = t.dest
        arg_tys = [a.ty or '' for a in args]
        moved_cm = []
        for a in args:
            if a.k == 'move' and a.place is not None:
                ty = a.place.t
                if _place_cm(body, a.place) and owns_msgs(ty):
                    moved_cm.append(a)
        dest_cm = _place_cm(body, dest)
        for (rx, val, fact) in spec.excuse_edges:
            if re.search(rx, path) or (c.resolved and re.search(rx, c.resolved)):
                excuse_calls[b.i] = (dest, val, fact)
            elif F is not None and dest.t == 'bool' and val == 0:
                # private helper that reports the excuse (`fn plugins_accept_msg(..) -> bool`): false only where the excusing call was false
                H = F.get(c.resolved) if c.resolved else F.get(path)
                if H is not None and H.kind != 'closure' and H.path != body.path and H.ret_type() == 'bool' and bool_false_only_under(H, rx):
                    excuse_calls[b.i] = (dest, val, fact)
        # CLONE
        if path in CLONE_CALLEES or path.endswith('::clone'):
            st = c.self_ty or (arg_tys[0] if arg_tys else '')
            if 'DltMessage' in (st or '') and not (st or '').startswith(NON_OWNING) and 'Sender<' not in st and not st.startswith('&std::sync') \
                    and 'ReadHandle' not in st and 'Arc<' not in st:
                if not any(re.search(rx, path + ' ' + st) for rx, _ in spec.allow_clone):
                    res.clones.append({'block': b.i, 'callee': path, 'self_ty': st, 'sp': t.sp})
        # TAKE
        if path in TAKE_CALLEES and args:
            if dest_cm:
                root = cfg.origin_of_operand(args[0])
                if root is not None:
                    take_info[b.i] = (place_key(dest), place_key(root), TAKE_CALLEES[path], root)
                    res.recv_sites.append({'block': b.i, 'callee': path, 'from': root.show(body), 'sp': t.sp})
        # SEND
        if moved_cm and path in SEND_CALLEES and ('SendError<' in dest.t):
            send_dest[place_key(dest)] = b.i
            res.send_sites.append({'block': b.i, 'callee': path, 'sp': t.sp})
            continue
        # forwarding helper (`release_due(&mut heap, .., outflow)?`): a send for the caller; its own body is analysed too
        if F is not None and 'SendError<' in dest.t and not spec.track_msg_events and path not in SEND_CALLEES:
            H = F.get(c.resolved) if c.resolved else F.get(path)
            if H is not None and H.path != body.path and send_faithful(F, H, _depth):
                send_dest[place_key(dest)] = b.i
                res.send_sites.append({'block': b.i, 'callee': path, 'sp': t.sp, 'via_helper': H.path})
                res.helpers.append(H)
                continue
        # STORE
        if moved_cm and path in STORE_CALLEES and args:
            root = cfg.origin_of_operand(args[0])
            if root is not None:
                store_info[b.i] = place_key(root)
            res.store_sites.append({'block': b.i, 'callee': path, 'into': root.show(body) if root else '?', 'sp': t.sp})
            continue
        # LOSSY methods on containers/sources (by value or by &mut)
        if args and LOSSY_METHODS.search(re.sub(r'::<[^<>]*(<[^<>]*>[^<>]*)*>', '', path) if not path.startswith('<') else path):
            a0ty = arg_tys[0]
            if CONTAINER_TY.match(a0ty) and 'DltMessage' in a0ty and not a0ty.startswith('&std') and not a0ty.startswith('&['):
                if not any(re.search(rx, path) for rx, _ in spec.allow_lossy):
                    res.lossy.append({'block': b.i, 'callee': path, 'on': a0ty, 'sp': t.sp})
                continue
        # explicit drop(x): same as a Drop terminator
        if moved_cm and path in ('std::mem::drop', 'core::mem::drop'):
            explicit_drops[b.i] = moved_cm[0]
            continue
        # CONSUMER
        if moved_cm and not dest_cm:
            if not any(re.search(rx, path) for rx, _ in spec.allow_consumer):
                res.consumers.append({'block': b.i, 'callee': path or t.func.show(body), 'arg': moved_cm[0].show(body), 'sp': t.sp})

    per_msg = set(spec.per_msg_facts)
    if spec.track_msg_events:
        per_msg |= {'recvd', 'sent', 'stored'}
    send_blocks = set(send_dest.values())
    spec.reset_takes_blocks = set()
    if spec.reset_takes is not None:
        for bi, ti in take_info.items():
            if spec.reset_takes(ti[3].show(body), body.blocks[bi].term.callee.path):
                spec.reset_takes_blocks.add(bi)
    EB = ExprBuilder(cfg)
    EBF = ExprBuilder(cfg, fold_named=True)

    def block_effect(b, facts):
        # statements: assignment to a drained root kills the drained fact
        if facts:
            kill = None
            for s in b.stmts:
                if s.k == 'assign':
                    k = place_key(s.place)
                    for f in facts:
                        if f[0] == 'drained' and covers(k, f[1]) and not covers(f[1], k) or (f[0] == 'drained' and f[1] == k):
                            kill = kill or set()
                            kill.add(f)
            if kill:
                facts = frozenset(facts - kill)
        if b.i in store_info:
            rk = store_info[b.i]
            facts = frozenset(f for f in facts if not (f[0] == 'drained' and (covers(f[1], rk) or covers(rk, f[1]))))
        if b.i in take_info and per_msg and (spec.reset_takes is None or b.i in spec.reset_takes_blocks):
            # a new message is being received: per-message excuses end here
            facts = frozenset(f for f in facts if not (f[0] in per_msg or (f[0] == 'n' and f[1] in per_msg)))
        if spec.stmt_counts:
            for s in b.stmts:
                for (pred, name) in spec.stmt_counts:
                    if pred(s, body):
                        facts = pairing.bump(facts, name)
        if spec.track_msg_events:
            if b.i in send_blocks:
                facts = pairing.bump(facts, 'sent')
            if b.i in store_info:
                facts = pairing.bump(facts, 'stored')
        if spec.stmt_facts:
            for s in b.stmts:
                for (pred, fact) in spec.stmt_facts:
                    if (fact,) not in facts and pred(s, body):
                        facts = frozenset(facts | {(fact,)})
        return facts

    def edge_effect(b, tgt, facts):
        add = None
        for f in facts:
            if f[0] == 'var':
                # SEND result known to be Err(1)
                if f[2] == 1 and f[1] in send_dest and ('senderr',) not in facts:
                    add = add or set()
                    add.add(('senderr',))
        if add:
            facts = frozenset(facts | add)
        # take result known empty -> drained(root)
        if take_info:
            add = None
            for f in facts:
                if f[0] == 'var':
                    for bi, (dk, rk, ev, _root) in take_info.items():
                        if f[1] == dk and f[2] == ev and ('drained', rk) not in facts:
                            add = add or set()
                            add.add(('drained', rk))
                        if spec.track_msg_events and f[1] == dk and f[2] != ev and ('recvd',) not in facts:
                            add = add or set()
                            add.add(('recvd',))
            if add:
                facts = frozenset(facts | add)
        if spec.cond_facts and b.term.k == 'switch':
            e = EB.switch_cond(b)
            for (pred, truth, fact) in spec.cond_facts:
                if (fact,) in facts or not pred(e):
                    continue
                vals = b.term.d['vals']
                is_true_edge = None
                for v, t in vals:
                    if t == tgt:
                        is_true_edge = (v != 0)
                if is_true_edge is None and b.term.d['otherwise'] == tgt and all(v == 0 for v, _ in vals):
                    is_true_edge = True
                if is_true_edge is not None and is_true_edge == truth:
                    facts = frozenset(facts | {(fact,)})
            # integer switch (`match n { 1 => .. }`): the edge for value v carries the fact of the condition `e == v`
            d_ty = (Operand(b.term.d['d']).ty or '')
            if d_ty not in ('bool', ''):
                e2 = EBF.switch_cond(b)
                for (pred, truth, fact) in spec.cond_facts:
                    if (fact,) in facts or truth is not True:
                        continue
                    for v, t in b.term.d['vals']:
                        if t == tgt and pred(('bin', 'Eq', e2, ('const', v))):
                            facts = frozenset(facts | {(fact,)})
        # excuse edges: switch directly on the call result (bool) in the block after the call
        if b.term.k == 'switch' and excuse_calls:
            d = Operand(b.term.d['d'])
            if d.place is not None and d.place.is_local:
                for cb, (dest, val, fact) in excuse_calls.items():
                    if dest.is_local and dest.l == d.place.l:
                        for v, t in b.term.d['vals']:
                            if t == tgt and v == val:
                                facts = frozenset(facts | {(fact,)})
                        if val != 0 and b.term.d['otherwise'] == tgt and all(v == 0 for v, _ in b.term.d['vals']):
                            facts = frozenset(facts | {(fact,)})
        return facts

    roots = set(send_dest) | set(v[0] for v in take_info.values())
    for k in list(roots):
        pass
    ex = Explorer(cfg, block_effect=block_effect, edge_effect=edge_effect, var_roots=None if track_all_vars else roots)
    ex.run()
    res.states = ex.n_states
    res.explorer = ex
    res.cfg = cfg
    res.take_info = take_info
    res.send_blocks = send_blocks
    res.store_info = store_info

    # LIVE-DROP
    for b in blocks:
        if b.cleanup:
            continue
        if b.i in explicit_drops:
            p = explicit_drops[b.i].place
            ty = p.t
        elif b.term.k == 'drop' and b.term.d['cm']:
            ty = b.term.d['ty']
            p = b.term.place
        else:
            continue
        if not owns_msgs(ty):
            continue
        pshow = _stable_show(body, p)
        states = ex.out_states.get(b.i, set())
        if not states:
            res.drop_sites.append((b.i, pshow, ty, 'unreachable', 'no feasible path (drop flag false on all paths)'))
            continue
        dk = place_key(p)
        bad_state = None
        reasons = set()
        for st in states:
            facts = st[1]
            if ('senderr',) in facts:
                reasons.add('consumer gone (Err edge of a send crossed)')
                continue
            if any(f[0] == 'drained' and covers(dk, f[1]) for f in facts):
                reasons.add('drained (empty edge of its own take crossed)')
                continue
            if any(f[0] == 'var' and f[1] == dk and any(ti[0] == dk and ti[2] == f[2] for ti in take_info.values()) for f in facts):
                reasons.add('take result in its empty variant')
                continue
            ok = False
            for (m, need, why) in spec.allow_drop:
                if m(pshow, ty) and (need is None or (need,) in facts):
                    ok = True
                    reasons.add('allowed: ' + why)
                    res.allowed_used.append(why)
                    break
            if ok:
                continue
            bad_state = st
            break
        if bad_state is None:
            res.drop_sites.append((b.i, pshow, ty, 'excused', '; '.join(sorted(reasons))))
        else:
            w = ex.witness(b.i, ex.out_entry.get((b.i, bad_state), bad_state))
            res.drop_sites.append((b.i, pshow, ty, 'LIVE', ''))
            res.live_drops.append({'block': b.i, 'place': pshow, 'ty': ty, 'sp': b.term.sp,
                                   'witness': [(x, body.blocks[x].term.sp['l'] if body.blocks[x].term.sp else None) for x in w][-60:],
                                   'facts': sorted(str(f) for f in bad_state[1] if f[0] != 'var')})
    return res


def _ty_carries(body, place):
    return True


def _place_cm(body, place):
    if place is None:
        return False
    if place.is_local:
        return body.locals[place.l]['cm']
    t = place.t
    return 'DltMessage' in t and not t.startswith(('&', '*'))


def _stable_show(body, p):
    """place rendering without local numbers for unnamed temps"""
    n = body.name_of(p.l)
    s = n if n else '<tmp>'
    if p.l == 0:
        s = '<ret>'
    for e in p.p:
        k = e['k']
        if k == 'f':
            s = '%s.%s' % (s, e['n'])
        elif k == 'deref':
            s = '(*%s)' % s
        elif k == 'dc':
            s = '(%s as %s)' % (s, e['n'])
        else:
            s = '%s[..]' % s
    return s
