"""CFG primitives over a facts.Body: normal-path successor graph, dominators, post-dominators,
loops, reachability, def sites, reference origins.  Cleanup blocks and unwind edges are excluded
from everything here (a panic is not a 'normal path')."""
from facts import Place, Operand


class CFG:
    def __init__(self, body):
        self.body = body
        bl = body.blocks
        n = len(bl)
        self.n = n
        self.succ = [[] for _ in range(n)]
        self.pred = [[] for _ in range(n)]
        for b in bl:
            if b.cleanup:
                continue
            for s in b.term.succs():
                if bl[s].cleanup:
                    continue
                if s not in self.succ[b.i]:
                    self.succ[b.i].append(s)
                    self.pred[s].append(b.i)
        self.reach = self._reach(0)
        self.exits = [b.i for b in bl if not b.cleanup and b.i in self.reach and b.term.k == 'return']
        self._idom = None
        self._ipdom = None
        self._defs = None

    def _reach(self, start, avoid=()):
        seen = set()
        st = [start]
        while st:
            x = st.pop()
            if x in seen or x in avoid:
                continue
            seen.add(x)
            st.extend(self.succ[x])
        return seen

    def reachable_from(self, start, avoid=()):
        return self._reach(start, avoid)

    # ---- dominators (iterative, Cooper-Harvey-Kennedy on RPO)
    def _rpo(self, succ, start):
        seen = set()
        order = []
        st = [(start, iter(succ[start]))]
        seen.add(start)
        while st:
            node, it = st[-1]
            adv = False
            for s in it:
                if s not in seen:
                    seen.add(s)
                    st.append((s, iter(succ[s])))
                    adv = True
                    break
            if not adv:
                order.append(node)
                st.pop()
        order.reverse()
        return order

    def _doms(self, succ, pred, start):
        rpo = self._rpo(succ, start)
        idx = {b: i for i, b in enumerate(rpo)}
        idom = {start: start}
        changed = True
        while changed:
            changed = False
            for b in rpo[1:]:
                ps = [p for p in pred[b] if p in idom]
                if not ps:
                    continue
                new = ps[0]
                for p in ps[1:]:
                    a, c = p, new
                    while a != c:
                        while idx[a] > idx[c]:
                            a = idom[a]
                        while idx[c] > idx[a]:
                            c = idom[c]
                    new = a
                if idom.get(b) != new:
                    idom[b] = new
                    changed = True
        return idom

    @property
    def idom(self):
        if self._idom is None:
            self._idom = self._doms(self.succ, self.pred, 0)
        return self._idom

    def dominates(self, a, b):
        """does block a dominate block b (a == b counts)"""
        idom = self.idom
        if b not in idom:
            return False
        while True:
            if a == b:
                return True
            nb = idom[b]
            if nb == b:
                return False
            b = nb

    def dominators(self, b):
        out = []
        idom = self.idom
        if b not in idom:
            return out
        while True:
            out.append(b)
            nb = idom[b]
            if nb == b:
                break
            b = nb
        return out

    @property
    def ipdom(self):
        """post-dominators with a virtual exit node n joining all return blocks"""
        if self._ipdom is None:
            n = self.n
            succ = [list(p) for p in self.pred] + [list(self.exits)]
            pred = [list(s) for s in self.succ] + [[]]
            for e in self.exits:
                pred[e] = pred[e] + [n]
            self._ipdom = self._doms(succ, pred, n)
        return self._ipdom

    def postdominates(self, a, b):
        ip = self.ipdom
        if b not in ip:
            return False
        while True:
            if a == b:
                return True
            nb = ip[b]
            if nb == b or nb == self.n:
                return a == nb
            b = nb

    def back_edges(self):
        out = []
        for b in range(self.n):
            for s in self.succ[b]:
                if self.dominates(s, b):
                    out.append((b, s))
        return out

    def loops(self):
        """natural loops: header -> set of blocks"""
        loops = {}
        for (t, h) in self.back_edges():
            body = loops.setdefault(h, {h})
            st = [t]
            while st:
                x = st.pop()
                if x in body:
                    continue
                body.add(x)
                st.extend(self.pred[x])
        return loops

    # ---- definitions of locals
    @property
    def defs(self):
        """local -> list of (block, stmt_index or 'call', Stmt or Term) for assignments to the *whole* local"""
        if self._defs is None:
            d = {}
            for b in self.body.blocks:
                if b.cleanup:
                    continue
                for i, s in enumerate(b.stmts):
                    if s.k == 'assign' and s.place.is_local:
                        d.setdefault(s.place.l, []).append((b.i, i, s))
                if b.term.k == 'call':
                    dp = b.term.dest
                    if dp.is_local:
                        d.setdefault(dp.l, []).append((b.i, 'call', b.term))
            self._defs = d
        return self._defs

    def single_def(self, l):
        ds = self.defs.get(l, [])
        if len(ds) == 1:
            return ds[0]
        return None

    PASS = ('std::option::Option::<T>::as_mut', 'std::option::Option::<T>::as_ref', 'std::convert::AsMut::as_mut',
            'std::convert::AsRef::as_ref', 'std::ops::DerefMut::deref_mut', 'std::ops::Deref::deref',
            'std::borrow::BorrowMut::borrow_mut', 'std::borrow::Borrow::borrow', 'std::option::Option::<T>::as_deref_mut',
            'std::option::Option::<T>::as_deref', 'std::option::Option::<T>::unwrap', 'std::result::Result::<T, E>::unwrap',
            'std::option::Option::<T>::expect', 'std::result::Result::<T, E>::expect', 'std::result::Result::<T, E>::as_ref',
            'std::result::Result::<T, E>::as_mut', 'std::pin::Pin::<Ptr>::as_mut', 'std::string::String::as_str',
            'std::vec::Vec::<T, A>::as_slice', 'std::vec::Vec::<T, A>::as_mut_slice', 'std::ops::Try::branch')

    def origin(self, l, depth=0):
        """the Place a local denotes: references are conflated with their referent, unnamed value
        temps with the place they were copied/moved from, and results of reference-preserving
        calls (as_mut, deref, unwrap ...) with (a part of) their first argument."""
        body = self.body
        here = Place({'l': l, 'p': [], 't': body.lty(l)})
        if depth > 16 or l <= body.arg_count:
            return here
        sd = self.single_def(l)
        if sd is None:
            return here
        ty = body.lty(l)
        is_ref = ty.startswith(('&', '*'))
        named = body.name_of(l) is not None
        if sd[1] == 'call':
            c = sd[2].callee
            if c.path in self.PASS and sd[2].args:
                a0 = sd[2].args[0]
                if a0.place is not None:
                    return self._resolve_place(a0.place, depth + 1)
            return here
        rv = sd[2].rv
        if rv['k'] in ('ref', 'rawptr'):
            return self._resolve_place(Place(rv['p']), depth + 1)
        if rv['k'] in ('use', 'cast'):
            o = Operand(rv['o'])
            if o.place is not None:
                if named and not is_ref:
                    return here
                return self._resolve_place(o.place, depth + 1)
        return here

    def _resolve_place(self, p, depth=0):
        base = self.origin(p.l, depth)
        if base.is_local and base.l == p.l:
            return p
        proj = p.p
        if proj and proj[0]['k'] == 'deref' and self.body.lty(p.l).startswith(('&', '*')):
            proj = proj[1:]
        return Place({'l': base.l, 'p': base.p + proj, 't': p.t})

    def origin_of_operand(self, op):
        if op.place is None:
            return None
        return self._resolve_place(op.place, 0)
