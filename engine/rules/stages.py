"""The four pipeline stages (anchored by signature) with their linearity specs, shared by C13."""
import own
import lcstage, c10, c12


def plugin_stage_bodies(F):
    return [b for b in F.order if b.crate == 'lib' and b.kind != 'closure' and
            any(t.startswith('std::sync::mpsc::Receiver<adlt::dlt::DltMessage>') for t in b.arg_types()) and
            any('dyn adlt::plugins::plugin::Plugin' in t for t in b.arg_types())]


def plugin_stage_spec():
    return own.OwnSpec(
        allow_drop=[(lambda p, ty: ty == 'adlt::dlt::DltMessage', 'plugin_false', 'a plugin returned false for this message')],
        excuse_edges=[(r'adlt::plugins::plugin::Plugin::process_msg$', 0, 'plugin_false')],
        per_msg_facts=['plugin_false'])


def filter_stage_spec(body):
    from facts import Operand
    cl = c12.counter_locals(body)
    dropped = cl[1] if cl else -1

    def is_inc(s, b):
        if s.k != 'assign' or not s.place.is_local or s.place.l != dropped:
            return False
        rv = s.rv
        return rv['k'] == 'use' and Operand(rv['o']).place is not None and bool(Operand(rv['o']).place.p)
    return own.OwnSpec(
        allow_drop=[(lambda p, ty: ty == 'adlt::dlt::DltMessage', 'dropped_inc', 'message filtered out and counted as dropped')],
        stmt_facts=[(is_inc, 'dropped_inc')], per_msg_facts=['dropped_inc'])


def all_stages(F):
    out = []
    for b in lcstage.find_stage(F):
        out.append({'name': 'lifecycle detection', 'body': b, 'spec': own.OwnSpec(), 'min_send': 3, 'min_recv': 2})
    for b in plugin_stage_bodies(F):
        out.append({'name': 'plugins', 'body': b, 'spec': plugin_stage_spec(), 'min_send': 1, 'min_recv': 1})
    for b in c10.stage_bodies(F):
        out.append({'name': 'time sort', 'body': b, 'spec': own.OwnSpec(), 'min_send': 2, 'min_recv': 2})
    for b in c12.stream_filter_bodies(F):
        out.append({'name': 'stream filter', 'body': b, 'spec': filter_stage_spec(b), 'min_send': 1, 'min_recv': 1})
    return out
