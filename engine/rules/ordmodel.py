"""Decision of a two-argument comparator over the finite model of orderings.

A comparator that touches its two arguments only through comparisons of the *same* field of both is a function of the
finite tuple (relation of A.f to B.f for every field f it reads), each relation one of < = >.  This module evaluates
the comparator's MIR abstractly over every such tuple (fields are discovered on demand: a valuation is split three
ways when the comparator first asks for the relation of a new field) and returns the complete decision table
[(valuation, result)].  Nothing of adlt is executed: the domain has no message, no integer field value, only relations.

Values: Sym(side, path) = (a reference to) the field `path` of argument `side`; OrdV(-1|0|1); Clo(closure body, captured
values); ('some', v); ('rev', v) = std::cmp::Reverse(v); python tuples for tuples; ints for integer/bool constants."""
import re


class Undecided(Exception):
    pass


class Need(Exception):
    def __init__(self, path):
        self.path = path


class Sym:
    __slots__ = ('side', 'path')

    def __init__(self, side, path=()):
        self.side, self.path = side, tuple(path)

    def __repr__(self):
        return '%s.%s' % (self.side, '.'.join(self.path))


class OrdV:
    __slots__ = ('r',)

    def __init__(self, r):
        self.r = r

    def __repr__(self):
        return {-1: 'Less', 0: 'Equal', 1: 'Greater'}[self.r]


class Clo:
    __slots__ = ('body', 'caps')

    def __init__(self, body, caps):
        self.body, self.caps = body, caps


ORD_VARIANTS = {'Less': -1, 'Equal': 0, 'Greater': 1}
REL_OPS = {'Eq': lambda r: r == 0, 'Ne': lambda r: r != 0, 'Lt': lambda r: r < 0, 'Le': lambda r: r <= 0, 'Gt': lambda r: r > 0, 'Ge': lambda r: r >= 0}
ORD_PRED = {'is_eq': 'Eq', 'is_ne': 'Ne', 'is_lt': 'Lt', 'is_le': 'Le', 'is_gt': 'Gt', 'is_ge': 'Ge'}
CMP_PRED = {'eq': 'Eq', 'ne': 'Ne', 'lt': 'Lt', 'le': 'Le', 'gt': 'Gt', 'ge': 'Ge'}


class Model:
    def __init__(self, F, max_steps=400, max_depth=6):
        self.F = F
        self.max_steps, self.max_depth = max_steps, max_depth
        self.val = {}
        self.read = []

    # ---------------------------------------------------------------- relations
    def rel(self, x, y):
        """-1/0/1 for the abstract comparison of two values"""
        if isinstance(x, tuple) and x and x[0] == 'rev' and isinstance(y, tuple) and y and y[0] == 'rev':
            return -self.rel(x[1], y[1])
        if isinstance(x, tuple) and x and x[0] == 'some' and isinstance(y, tuple) and y and y[0] == 'some':
            return self.rel(x[1], y[1])
        if isinstance(x, tuple) and isinstance(y, tuple) and len(x) == len(y) and not (x and isinstance(x[0], str)):
            for a, b in zip(x, y):
                r = self.rel(a, b)
                if r != 0:
                    return r
            return 0
        if isinstance(x, int) and isinstance(y, int):
            return (x > y) - (x < y)
        if isinstance(x, OrdV) and isinstance(y, OrdV):
            return (x.r > y.r) - (x.r < y.r)
        if isinstance(x, Sym) and isinstance(y, Sym):
            if x.path == y.path and x.side != y.side:
                if x.path not in self.val:
                    raise Need(x.path)
                if x.path not in self.read:
                    self.read.append(x.path)
                r = self.val[x.path]
                return r if x.side == 'A' else -r
            if x.path == y.path and x.side == y.side:
                return 0
            raise Undecided('compares different fields %r and %r' % (x, y))
        raise Undecided('compares %r with %r' % (x, y))

    # ---------------------------------------------------------------- values
    def place_val(self, env, pl):
        v = env.get(pl['l'])
        for e in pl.get('p', []):
            k = e['k']
            if k == 'deref':
                continue
            if k == 'f':
                if isinstance(v, Sym):
                    v = Sym(v.side, v.path + (e.get('n') or str(e['i']),))
                elif isinstance(v, Clo):
                    v = v.caps[e['i']] if e['i'] < len(v.caps) else None
                elif isinstance(v, tuple) and v and v[0] in ('some', 'rev') and e['i'] == 0:
                    v = v[1]
                elif isinstance(v, tuple) and not (v and isinstance(v[0], str)) and e['i'] < len(v):
                    v = v[e['i']]
                else:
                    return None
            elif k == 'downcast':
                continue
            else:
                return None
        return v

    def opval(self, env, o):
        if o['k'] == 'const':
            return o.get('v')
        return self.place_val(env, o['p'])

    def rv_val(self, env, rv, body):
        k = rv['k']
        if k in ('use', 'cast'):
            return self.opval(env, rv['o'])
        if k in ('ref', 'rawptr'):
            return self.place_val(env, rv['p'])
        if k == 'discr':
            v = self.place_val(env, rv['p'])
            if isinstance(v, OrdV):
                return v.r & 0xff
            if isinstance(v, tuple) and v and v[0] == 'some':
                return 1
            return None
        if k == 'bin':
            a, b = self.opval(env, rv['a']), self.opval(env, rv['b'])
            op = rv['op']
            if op in REL_OPS:
                if a is None or b is None:
                    return None
                return int(REL_OPS[op](self.rel(a, b)))
            if isinstance(a, int) and isinstance(b, int):
                fn = {'BitAnd': a & b, 'BitOr': a | b, 'BitXor': a ^ b}.get(op)
                return fn
            if (isinstance(a, Sym) or isinstance(b, Sym)) and op not in ('Offset',):
                raise Undecided('arithmetic %s on a compared field at %s' % (op, body.path))
            return None
        if k == 'un':
            a = self.opval(env, rv['a'])
            if rv['op'] == 'Not' and a in (0, 1):
                return int(not a)
            if isinstance(a, Sym):
                raise Undecided('unary %s on a compared field' % rv['op'])
            return None
        if k == 'agg':
            ak = rv.get('ak')
            ops = [self.opval(env, o) for o in rv.get('ops', [])]
            if ak == 'closure':
                return Clo(rv.get('closure'), ops)
            if ak == 'tuple':
                return tuple(ops)
            adt = rv.get('adt', '')
            if adt == 'std::cmp::Ordering':
                return OrdV(ORD_VARIANTS[rv['variant']])
            if adt.startswith('std::option::Option'):
                return ('some', ops[0]) if rv.get('variant') == 'Some' and ops else None
            if adt.startswith('std::cmp::Reverse') and ops:
                return ('rev', ops[0])
            return None
        return None

    # ---------------------------------------------------------------- calls
    def call(self, t, args, depth, body):
        c = t.callee
        p = c.path if c else ''
        nm = p.split('::')[-1]
        if p in ('std::cmp::Ord::cmp', 'std::cmp::PartialOrd::partial_cmp') and len(args) == 2:
            H = self.F.get(c.resolved) if c.resolved else None
            if H is not None and H.crate in ('lib', 'bin') and depth < self.max_depth:
                return self.run(H, args, depth + 1)
            if args[0] is None or args[1] is None:
                raise Undecided('compares a value the model does not track (%s in %s)' % (p, body.path))
            r = OrdV(self.rel(args[0], args[1]))
            return r if nm == 'cmp' else ('some', r)
        if p.startswith('std::cmp::PartialOrd::') and nm in CMP_PRED and len(args) == 2 or p.startswith('std::cmp::PartialEq::') and nm in ('eq', 'ne') and len(args) == 2:
            if args[0] is None or args[1] is None:
                raise Undecided('compares a value the model does not track (%s in %s)' % (p, body.path))
            return int(REL_OPS[CMP_PRED[nm]](self.rel(args[0], args[1])))
        if p.startswith('std::cmp::Ordering::'):
            a = args[0] if args else None
            if not isinstance(a, OrdV):
                raise Undecided('%s of an untracked ordering' % p)
            if nm == 'reverse':
                return OrdV(-a.r)
            if nm in ORD_PRED:
                return int(REL_OPS[ORD_PRED[nm]](a.r))
            if nm == 'then':
                if a.r != 0:
                    return a
                if not isinstance(args[1], OrdV):
                    raise Undecided('then() of an untracked ordering')
                return args[1]
            if nm == 'then_with':
                if a.r != 0:
                    return a
                return self.call_closure(args[1], [], depth, body)
            raise Undecided('unmodelled %s' % p)
        if p.startswith('std::option::Option::<') and nm in ('unwrap', 'expect', 'unwrap_or', 'unwrap_unchecked', 'unwrap_or_default') and args:
            if isinstance(args[0], tuple) and args[0] and args[0][0] == 'some':
                return args[0][1]
            raise Undecided('%s of an untracked option' % nm)
        if p in ('std::ops::Fn::call', 'std::ops::FnMut::call_mut', 'std::ops::FnOnce::call_once') and args:
            tup = args[1] if len(args) > 1 and isinstance(args[1], tuple) else ()
            return self.call_closure(args[0], list(tup), depth, body)
        if p in ('std::ops::Deref::deref', 'std::convert::AsRef::as_ref', 'std::borrow::Borrow::borrow', 'std::clone::Clone::clone') and args:
            return args[0]
        H = self.F.get(c.resolved) if c is not None and c.resolved else (self.F.get(p) if p else None)
        if H is not None and H.kind != 'closure' and H.crate in ('lib', 'bin') and depth < self.max_depth and H.arg_count == len(args):
            return self.run(H, args, depth + 1)
        if any(isinstance(a, (Sym, OrdV)) for a in args):
            raise Undecided('a compared value is passed to %s' % p)
        return None

    def call_closure(self, clo, args, depth, body):
        if not isinstance(clo, Clo):
            raise Undecided('call of an untracked closure in %s' % body.path)
        H = self.F.get(clo.body)
        if H is None or depth >= self.max_depth:
            raise Undecided('closure body not found')
        return self.run(H, [clo] + list(args), depth + 1)

    # ---------------------------------------------------------------- run
    def run(self, body, args, depth=0):
        env = {}
        for i, a in enumerate(args):
            env[i + 1] = a
        bi = 0
        for _ in range(self.max_steps):
            blk = body.blocks[bi]
            for s in blk.stmts:
                if s.k == 'assign':
                    pl = s.d['p']
                    v = self.rv_val(env, s.rv, body)
                    if not pl.get('p'):
                        env[pl['l']] = v
                    elif len(pl['p']) == 1 and pl['p'][0]['k'] == 'f' and isinstance(env.get(pl['l'], ()), tuple):
                        cur = list(env.get(pl['l'], ()))
                        i = pl['p'][0]['i']
                        while len(cur) <= i:
                            cur.append(None)
                        cur[i] = v
                        env[pl['l']] = tuple(cur)
            t = blk.term
            if t.k == 'goto':
                bi = t.d['t']
            elif t.k == 'return':
                return env.get(0)
            elif t.k == 'call':
                vals = [self.opval(env, a) for a in t.d.get('args', [])]
                val = self.call(t, vals, depth, body)
                dest = t.d.get('dest')
                if dest is not None and not dest.get('p'):
                    env[dest['l']] = val
                if t.d.get('t') is None:
                    raise Undecided('diverging call in %s' % body.path)
                bi = t.d['t']
            elif t.k == 'switch':
                v = self.opval(env, t.d['d'])
                if not isinstance(v, int):
                    raise Undecided('branch on a value outside the ordering model at %s' % body.loc(t.sp))
                nxt = t.d['otherwise']
                for (k_, tg) in t.d['vals']:
                    if k_ == v:
                        nxt = tg
                bi = nxt
            elif t.k in ('assert', 'drop'):
                bi = t.d['t']
            else:
                raise Undecided('terminator %s in %s' % (t.k, body.path))
        raise Undecided('step limit in %s' % body.path)


def decision_table(F, body, first_arg=1, result='ord'):
    """[(valuation {field path: -1|0|1} in the order the comparator asked, result -1|0|1)] for every ordering of the
    fields the comparator reads; raises Undecided when the comparator leaves the model"""
    table = []
    work = [dict()]
    n = 0
    while work:
        val = work.pop()
        n += 1
        if n > 3 ** 7:
            raise Undecided('more than 7 compared fields')
        m = Model(F)
        m.val = val
        args = [None] * (first_arg - 1) + [Sym('A'), Sym('B')]
        try:
            r = m.run(body, args)
        except Need as need:
            for rr in (1, 0, -1):
                v2 = dict(val)
                v2[need.path] = rr
                work.append(v2)
            continue
        if isinstance(r, tuple) and r and r[0] == 'some':
            r = r[1]
        if result == 'bool':
            if r not in (0, 1):
                raise Undecided('the predicate returns a value outside the ordering model')
            table.append(([(p, val[p]) for p in m.read], int(r)))
            continue
        if not isinstance(r, OrdV):
            raise Undecided('the comparator returns a value outside the ordering model')
        table.append(([(p, val[p]) for p in m.read], r.r))
    return table


def lexicographic_violations(table, keys, pred=None):
    """the comparator must order by `keys` (list of field-path suffix matchers) lexicographically and by nothing else:
    returns [(valuation, result, expected or None, reason)]; pred = 'Lt'/'Le'/.. when the table is that of a predicate"""
    bad = []
    conv = (lambda r: int(REL_OPS[pred](r))) if pred else (lambda r: r)

    def is_key(path, k):
        return path[-len(k):] == tuple(k)
    for val, res in table:
        d = dict(val)
        exp = None
        decided = False
        for k in keys:
            hit = [p for p in d if is_key(p, k)]
            if not hit:
                break
            r = d[hit[0]]
            if r != 0:
                exp, decided = r, True
                break
        else:
            exp, decided = 0, True
        if not decided:
            bad.append((val, res, None, 'the result does not depend on %s although every key before it ties' % '.'.join(keys[[i for i, k in enumerate(keys) if not [p for p in d if is_key(p, k)]][0]])))
        elif conv(exp) != res:
            bad.append((val, res, conv(exp), 'result differs from the order by (%s)' % ', '.join('.'.join(k) for k in keys)))
    return bad
