"""C09 - merging message sources loses nothing and keeps per-source order (structural clauses).

Decided: L1 no live drop of a message or of an un-exhausted source, L2 no clone, L7 no lossy
container/iterator operation, K3 index/return pairing, L6 end-of-stream discipline, O1 key-based
heap comparator, O2 merge key = reception time of the head message, O3 direction of the heap order
(finite model of field orderings).  Not decided: tie behaviour between sources; sortedness of the sources is assumed."""
import re
from facts import Operand
import guards
from cfg import CFG
from expr import ExprBuilder, show, walk
import own, lin, pairing, comparators

LEVEL = 'proof'
EXPLANATION = ('All normal CFG paths of the two multi-source iterators are explored with drop-flag and enum-variant '
               'propagation; a message-carrying value may only be dropped when its own next()/pop() returned None.')
ASSUMPTIONS = [
    'decides structural clauses only: ordering of the merged stream is decided as (key = reception time, smallest first); that each source is itself sorted is the premise of the property; tie behaviour between sources is NOT decided',
    'BinaryHeap/Vec/Box from std behave as documented; unwinding paths are outside the rule',
    'a generic source container `O` (type parameter) is not tracked as message-carrying',
]

MANIFEST = {'text': 'proof (all normal paths of both multi-source iterators) of: no message-carrying value (message, source, heap entry) is dropped unless its own next()/pop() returned None, no clone, '
                    'no lossy container operation, index/return pairing, end of stream only after the container of sources is exhausted, key-based heap comparator; '
                    'the constructors drop a container of sources only behind a proof that it holds exactly the one source taken (len() == 1 / exact size_hint). Ordering by reception time is decided through its two structural halves only (O2: the heap key is the reception time of the head message; O3: the heap hands out the smallest key first). Added: the direction of the merge heap order is decided over the finite model of field orderings (reverse of the key order for the max-heap; cmp and partial_cmp agree); that the key is the reception time is O2.'}

SRC_TY = 'dyn std::iter::Iterator<Item = adlt::dlt::DltMessage>'


def anchor_types(F):
    """ADTs that own boxed message sources (directly or through a heap of entries)"""
    direct = set()
    for p, a in F.adts.items():
        for v in a['variants']:
            for f in v['fields']:
                if SRC_TY in f['t']:
                    direct.add(p)
    out = set(direct)
    for p, a in F.adts.items():
        for v in a['variants']:
            for f in v['fields']:
                if any(d + '<' in f['t'] or f['t'].endswith(d) or (d in f['t']) for d in direct):
                    out.add(p)
    return out


def is_len_eq_1(e):
    return isinstance(e, tuple) and e[0] == 'bin' and e[1] == 'Eq' and e[3] == ('const', 1) and \
        isinstance(e[2], tuple) and e[2][0] == 'call' and e[2][1].endswith('::len')


def run(F, chk):
    tys = anchor_types(F)
    bodies = [b for b in F.order if b.crate == 'lib' and b.impl_self and any(b.impl_self.startswith(t) for t in tys)
              and any(l['cm'] for l in b.locals)]
    L1 = chk.rule('L1', 'no message / un-exhausted source is dropped on a normal path of the multi-source iterators (incl. L4: a source dies only after its own None)')
    L2 = chk.rule('L2', 'no message-carrying value is cloned')
    L7 = chk.rule('L7', 'no lossy/reordering container operation and no unclassified by-value consumer')
    L1.floor('multi-source iterator functions (anchor: impl blocks of ADTs owning Box<dyn Iterator<Item=DltMessage>>)', len(bodies), 5)
    spec_default = own.OwnSpec()
    spec_single = own.OwnSpec(
        allow_drop=[(lambda p, ty: ty.startswith('std::vec::IntoIter<std::boxed::Box<dyn std::iter::Iterator<Item = adlt::dlt::DltMessage>'),
                     'len_eq_1', 'rest of a one-element source vector after its only element was taken (len()==1 edge)')],
        cond_facts=[(is_len_eq_1, True, 'len_eq_1')])
    for b in bodies:
        spec = spec_single if b.path.endswith('new_or_single_it') else spec_default
        lin.run_linearity(b, spec, L1, L2, L7, F=F)

    # K3 + L6 on the two `next` implementations
    K3 = chk.rule('K3', 'every Some(msg) return stores the pre-increment self.index into msg.index and increments exactly once; other returns do neither')
    L6 = chk.rule('L6', 'None is returned only after the container of sources reported exhaustion; an exhausted current source leads to advance-and-retry')
    L8 = chk.rule('L8', 'a container of sources is dropped by the constructors only behind a proof that it holds exactly the one source taken (len() == 1 / exact size_hint)')
    check_single_source_shortcut(F, L8)
    nexts = [b for b in bodies if b.impl_trait == 'std::iter::Iterator' and b.path.endswith('::next')]
    K3.floor('Iterator::next impls of multi-source iterators', len(nexts), 2)
    for b in nexts:
        check_numbering(b, K3)
        check_eos(b, L6)

    O1 = chk.rule('O1', 'heap comparator of the merge is key-based (cmp of the same key expression of both arguments)')
    comparators.check(F, O1, lambda b: b.impl_self and any(b.impl_self.startswith(t) for t in tys), floor=1)
    O2 = chk.rule('O2', 'the merge heap is ordered by the reception time of the head message itself (directly, or through a key field stored verbatim)')
    check_merge_key(F, tys, O2)
    O3 = chk.rule('O3', 'the merge heap hands out the smallest key first: for every ordering of the compared fields with different primary keys the entry order is the reverse of the key order (plain order under Reverse<>); Ord::cmp and the PartialOrd methods agree (decided over the finite model of field orderings)')
    check_merge_direction(F, tys, O3)


def is_self_index(e):
    return isinstance(e, tuple) and e[0] == 'place' and e[1:] == ('self', '*', '.index')


def check_numbering(body, K3):
    cfg = CFG(body)
    E = ExprBuilder(cfg)
    K3.fn(body.path)

    def stmt_event(s, b):
        if s.k != 'assign':
            return None
        out = []
        pl = s.place
        fl = [e for e in pl.p if e['k'] == 'f']
        if fl and fl[-1]['n'] == 'index' and fl[-1]['o'] == 'adlt::dlt::DltMessage' and pl.p[-1]['k'] == 'f':
            e = E.rvalue(s.rv)
            good = is_self_index(e)
            if not good and isinstance(e, tuple) and e[0] == 'place' and len(e) == 2:
                # `let assigned = self.index; ..; msg.index = assigned;`: a named copy taken before the increment (wherever the
                # increment sits relative to the store: the copy keeps the pre-increment value)
                ls_ = body.locals_named(e[1])
                sd_ = cfg.single_def(ls_[0]) if len(ls_) == 1 else None
                if sd_ is not None and sd_[1] != 'call' and is_self_index(E.rvalue(sd_[2].rv)):
                    incs = []
                    for xb in body.blocks:
                        if xb.cleanup:
                            continue
                        for xi, xs in enumerate(xb.stmts):
                            if xs.k == 'assign' and E.target(xs.place) == ('place', 'self', '*', '.index'):
                                incs.append((xb.i, xi))
                    dblk = body.blocks[sd_[0]]
                    di = dblk.stmts.index(sd_[2]) if sd_[2] in dblk.stmts else -1
                    after_inc = any((ib == sd_[0] and ii < di) or (ib != sd_[0] and sd_[0] in cfg.reachable_from(ib)) for (ib, ii) in incs)
                    if di >= 0 and not after_inc:
                        good = True
            out.append('A' if good else 'A_bad')
        # self.index = ...
        if E.target(pl) == ('place', 'self', '*', '.index'):
            e = E.rvalue(s.rv)
            good = isinstance(e, tuple) and e[0] == 'bin' and e[1] == 'Add' and is_self_index(e[2]) and e[3] == ('const', 1)
            out.append('B' if good else 'B_bad')
        if pl.is_local and pl.l == 0:
            rv = s.rv
            if rv['k'] == 'agg' and rv.get('variant') == 'Some':
                out.append('ret_some')
            elif rv['k'] == 'agg' and rv.get('variant') == 'None':
                out.append('ret_none')
            else:
                out.append('ret_other')
        return out

    def term_event(t, b):
        if none_by_question_mark(body, t):
            return ['ret_none']
        if t.k == 'call' and t.dest.is_local and t.dest.l == 0:
            tgt = t.callee.resolved or t.callee.path
            return ['ret_deleg' if tgt == body.path else 'ret_other']
        return None

    ex = pairing.explore_counts(cfg, stmt_event, term_event)
    K3.paths += ex.n_states
    n_ret = 0
    for rb in cfg.exits:
        for st in ex.out_states.get(rb, ()):
            n_ret += 1
            f = st[1]
            c = lambda n: pairing.count(f, n)
            kind = 'some' if c('ret_some') else 'none' if c('ret_none') else 'deleg' if c('ret_deleg') else 'other'
            ok = True
            if c('A_bad') or c('B_bad') or kind == 'other':
                ok = False
            if kind == 'some' and not (c('A') == 1 and c('B') == 1):
                ok = False
            if kind in ('none', 'deleg') and (c('A') or c('B')):
                ok = False
            if ok:
                K3.ok(sample={'function': body.path, 'return': kind, 'index_stores': c('A'), 'increments': c('B')})
            else:
                K3.violation(('numbering', body.path, kind, 'A%d' % c('A'), 'B%d' % c('B'), 'Abad%d' % c('A_bad'), 'Bbad%d' % c('B_bad')),
                             'path returning %s has %d store(s) of self.index into msg.index (+%d of something else) and %d increment(s) (+%d irregular) in %s'
                             % (kind, c('A'), c('A_bad'), c('B'), c('B_bad'), body.path),
                             where=body.loc(None), witness={'block_path': ex.witness(rb, next(iter(ex.states[rb])))})
    K3.floor('return states of ' + body.path, n_ret, 2)


def none_by_question_mark(body, t):
    """`opt?` in a function returning Option: the Break edge stores FromResidual::from_residual(None-residual) into the return
    place - a `None` return spelled with the question mark"""
    return t.k == 'call' and t.dest.is_local and t.dest.l == 0 and not t.dest.p and t.callee.path.endswith('FromResidual::from_residual') and \
        body.ret_type().startswith('std::option::Option<') and t.args and (t.args[0].ty or '').startswith('std::option::Option<std::convert::Infallible')


def check_eos(body, L6):
    """None returns: only with the exhaustion fact of the source container"""
    cfg = CFG(body)
    L6.fn(body.path)
    res = own.analyse(body, track_all_vars=True)
    ex = res.explorer
    # take sites on self.<container>
    takes = {}
    for b in body.blocks:
        if b.cleanup or b.term.k != 'call':
            continue
        if b.term.callee.path in own.TAKE_CALLEES and b.term.args:
            root = cfg.origin_of_operand(b.term.args[0])
            takes[b.i] = root
    n = 0
    for b in body.blocks:
        if b.cleanup:
            continue
        sites = [s for s in b.stmts if s.k == 'assign' and s.place.is_local and s.place.l == 0 and s.rv['k'] == 'agg' and s.rv.get('variant') == 'None']
        if none_by_question_mark(body, b.term):
            sites.append(b.term)
        for s in sites:
            if True:
                n += 1
                states = ex.states.get(b.i, set())
                bad = None
                for st in states:
                    facts = st[1]
                    # acceptable: a drained fact for a place rooted at self (not the current source's own message take),
                    # or the variant fact "self.cur_it is None"
                    ok = False
                    for f in facts:
                        if f[0] == 'drained' and f[1][0] == 1 and not _is_current_source(f[1]):
                            ok = True
                        if f[0] == 'var' and f[2] == 0 and f[1][0] == 1:
                            ok = True
                    if not ok:
                        bad = st
                        break
                if bad is None and states:
                    L6.ok(sample={'function': body.path, 'none_return_block': b.i, 'requires': 'exhaustion of the source container'})
                else:
                    L6.violation(('eos', body.path), 'a `None` (end of stream) can be returned without the container of sources being exhausted in %s' % body.path,
                                 where=body.loc(s.sp), witness={'block_path': ex.witness(b.i, bad) if bad else []})
    L6.floor('None-return sites in ' + body.path, n, 1)
    # exhausted current source => must not return None directly: covered above (the None site needs container exhaustion)


def _is_current_source(key):
    # a take on the boxed current source looks like (1, '*', f cur_it, dc Some, f 0 [, '*'])
    return any(e[0] == 'dc' for e in key[1:])


# ---------------------------------------------------------------------------------------------
# L8: the single-source shortcut

SRC_CONTAINER = re.compile(r'(^O$|Vec<std::boxed::Box<dyn std::iter::Iterator<Item = adlt::dlt::DltMessage>|IntoIter<std::boxed::Box<dyn std::iter::Iterator<Item = adlt::dlt::DltMessage>)')


def check_single_source_shortcut(F, L8):
    """`new_or_single_it` returns the only source unwrapped and lets the container of sources go.  Dropping that container
    discards every source still in it, so each normal-path drop of the container must be dominated by a proof that it
    holds nothing else: `len() == 1`, or `size_hint() == (1, Some(1))` (exact: lower == upper) before the one `next()`,
    or `size_hint() == (0, Some(0))` after it.  A test of the lower bound alone proves nothing for filter/flat_map."""
    n = 0
    for b in F.order:
        if b.crate != 'lib' or b.kind == 'closure' or 'sorting_multi_readeriterator' not in b.path or '::tests::' in b.path:
            continue
        if not b.ret_type().startswith('std::boxed::Box<dyn std::iter::Iterator<Item = adlt::dlt::DltMessage>'):
            continue
        cfg = CFG(b)
        E = ExprBuilder(cfg, fold_named=True)
        for blk in b.blocks:
            if blk.cleanup or blk.term.k != 'drop':
                continue
            pl = blk.term.place
            if pl is None or not pl.is_local or not SRC_CONTAINER.search(pl.t or b.lty(pl.l) or ''):
                continue
            n += 1
            L8.sites += 1
            L8.fn(b.path)
            proof = None
            lower_eq = upper_eq = None
            for (c, truth, D) in guards.known(cfg, E, blk.i):
                sc = show(c)
                if truth is True and re.match(r'Eq\(Vec::len\(.*\), 1\)$', sc):
                    proof = 'len() == 1'
                if truth == ('eq', 1) and re.match(r'Vec::len\(.*\)$', sc):
                    proof = 'len() == 1 (match arm)'
                if truth is True and 'PartialEq::eq(' in sc and 'size_hint(' in sc and re.search(r'tuple\{(1, Option::Some\{1\}|0, Option::Some\{0\})\}', sc):
                    proof = 'size_hint() == (n, Some(n)) with n in {0, 1}'
                # the same written component-wise: lower == n && upper == Some(n)
                m1 = re.match(r'Eq\(\{?Iterator::size_hint\(.*\)\}?\.0, ([01])\)$', sc)
                if truth is True and m1:
                    lower_eq = int(m1.group(1))
                m2 = re.search(r'size_hint\(.*\)\}?\.1.*Option::Some\{([01])\}', sc)
                if truth is True and 'PartialEq::eq(' in sc and m2:
                    upper_eq = int(m2.group(1))
            if proof is None and lower_eq is not None and lower_eq == upper_eq:
                proof = 'size_hint() lower == %d && upper == Some(%d)' % (lower_eq, upper_eq)
            if proof:
                L8.ok(sample={'function': b.path, 'container_dropped_at': b.loc(blk.term.sp), 'proof_of_single_source': proof})
            else:
                L8.violation(('sources-discarded', b.path), '%s can drop its container of sources at %s without a dominating proof that nothing is left in it (len() == 1 / exact size_hint): with an inexact size hint '
                             '(filter, flat_map) all sources after the first are silently lost' % (b.path, b.loc(blk.term.sp)), where=b.loc(blk.term.sp))
    L8.floor('drops of a source container in the multi-iterator constructors', n, 2)


# ---------------------------------------------------------------------------------------------
# O2: the merge key is the reception time itself

def check_merge_direction(F, tys, O3):
    """BinaryHeap is a max-heap: the merged stream is ascending only if the entry order is the reverse of the key order (or the
    entries are wrapped in Reverse).  The comparator touches its arguments only through comparisons, so ordmodel tabulates it
    for every ordering of the fields it reads; rows whose first-read (primary) key differs must give the opposite sign.  Ties
    on the primary key may be resolved any way (the property says nothing about messages of different sources with equal
    reception times) but identically by cmp and partial_cmp, since the heap uses <= of PartialOrd."""
    import ordmodel
    n = 0
    for ty in sorted(tys):
        adt = F.adts.get(ty)
        if adt is None or not any('adlt::dlt::DltMessage' == f['t'] for v in adt['variants'] for f in v['fields']):
            continue          # the heap entry holds the head message next to its source
        wrapped = None
        for p, a in F.adts.items():
            for v in a['variants']:
                for f in v['fields']:
                    if 'BinaryHeap<' in f['t'] and ty in f['t']:
                        wrapped = 'Reverse<' in f['t']
        if wrapped is None:
            continue
        want = 1 if wrapped else -1
        tables = {}
        for b in F.order:
            if (b.impl_self or '').split('<')[0] != ty or b.impl_trait not in ('std::cmp::Ord', 'std::cmp::PartialOrd'):
                continue
            nm = b.path.split('::')[-1]
            pred = {'lt': 'Lt', 'le': 'Le', 'gt': 'Gt', 'ge': 'Ge'}.get(nm)
            if nm not in ('cmp', 'partial_cmp') and pred is None:
                continue
            n += 1
            O3.sites += 1
            O3.fn(b.path)
            try:
                table = ordmodel.decision_table(F, b, result='bool' if pred else 'ord')
            except ordmodel.Undecided as e:
                O3.violation(('merge-order-undecided', b.path), 'the order %s of the merge heap entry leaves the ordering model (%s)' % (b.path, e), where=b.loc(None))
                continue
            O3.paths += len(table)
            bad = None
            for val, res in table:
                if not val:
                    bad = (val, res, 'the result does not depend on any field of the entries')
                    break
                r = val[0][1]
                if r == 0:
                    continue
                exp = want * r
                if pred:
                    exp = int(ordmodel.REL_OPS[pred](exp))
                if res != exp:
                    bad = (val, res, 'with %s %s of the first entry the result is %s, expected %s' % ('.'.join(val[0][0]), '<=>'[r + 1], res, exp))
                    break
            if bad:
                O3.violation(('merge-order-direction', b.path), '%s does not make the max-heap hand out the smallest key first: %s — the merged stream is not ascending by reception time' % (b.path, bad[2]), where=b.loc(None))
            else:
                O3.ok(sample={'function': b.path, 'orderings_decided': len(table), 'direction': 'reversed (max-heap used as min-heap)' if not wrapped else 'plain under Reverse<>'})
            if not pred:
                tables[nm] = sorted((tuple(v), r) for v, r in table)
        if 'cmp' in tables and 'partial_cmp' in tables and tables['cmp'] != tables['partial_cmp']:
            O3.violation(('merge-order-cmp-partial-cmp-differ', ty), 'Ord::cmp and PartialOrd::partial_cmp of %s decide differently: BinaryHeap orders by PartialOrd (<=), the rest of the code by Ord' % ty)
    O3.floor('order functions of the merge heap entry', n, 2)


def check_merge_key(F, tys, O2):
    """"if every source is ordered by reception time, the merged stream is ordered by reception time": the heap of source heads
    must be ordered by the head message's `reception_time_us` itself.  The comparator of the heap entry compares either that
    field directly, or a cached key field all of whose writers store the message's reception time verbatim (no shift, mask,
    narrowing cast, scaling or packing - those identify different times)."""
    import comparators
    comps = [x for x in comparators.find_comparators(F, lambda b: b.impl_self and any(b.impl_self.startswith(t) for t in tys)) if x[0] in ('ord', 'cmp2')]
    O2.floor('comparators of the merge heap entries', len(comps), 1)
    lib = [b for b in F.order if b.crate == 'lib']
    for kind, body, user in comps:
        O2.fn(body.path)
        O2.sites += 1
        cfg = CFG(body)
        E = ExprBuilder(cfg, fold_named=True)
        keys = set()
        for blk in body.calls():
            if blk.term.callee.path in ('std::cmp::Ord::cmp', 'std::cmp::PartialOrd::partial_cmp') or blk.term.callee.path.endswith('::cmp'):
                for a in blk.term.args[:2]:
                    if a.place is not None:
                        pl = cfg.origin_of_operand(a)
                        # `let own_time = self.m.reception_time_us; own_time.cmp(..)`: a named copy of the field (arguments are not mutated)
                        for _ in range(4):
                            if pl is not None and not pl.p and pl.l > body.arg_count:
                                sd0 = cfg.single_def(pl.l)
                                if sd0 is not None and sd0[1] != 'call' and sd0[2].rv['k'] in ('use', 'cast') and Operand(sd0[2].rv['o']).place is not None:
                                    pl = cfg.origin_of_operand(Operand(sd0[2].rv['o']))
                                    continue
                            break
                        fl = [e for e in (pl.p if pl is not None else []) if e['k'] == 'f']
                        if fl:
                            keys.add((fl[-1].get('o'), fl[-1]['n'], fl[-1]['i']))
                        elif pl is not None and pl.is_local:
                            # `self.sort_key().cmp(&other.sort_key())`: the compared value is the result of a trivial accessor
                            sd = cfg.single_def(pl.l)
                            if sd is not None and sd[1] == 'call':
                                gf = comparators.getter_fields(F, sd[2].callee.resolved or sd[2].callee.path)
                                if gf:
                                    keys.add(gf[-1])
        if not keys:
            O2.violation(('merge-key-unknown', body.path), 'cannot determine the field compared by %s' % body.path, where=body.loc(None))
            continue
        bad = None
        for (owner, name, idx) in keys:
            if name == 'reception_time_us' and owner == 'adlt::dlt::DltMessage':
                continue
            # cached key field: every writer stores a verbatim reception time
            import c03
            ws = []
            for b2 in lib:
                for blk in b2.blocks:
                    if blk.cleanup:
                        continue
                    for s in blk.stmts:
                        if s.k != 'assign':
                            continue
                        if s.rv['k'] == 'agg' and s.rv.get('adt') == owner and len(s.rv['ops']) > idx:
                            ws.append((b2, s, Operand(s.rv['ops'][idx])))
                        else:
                            fl = [e for e in s.place.p if e['k'] == 'f']
                            if fl and fl[-1].get('o') == owner and fl[-1]['n'] == name and s.place.p[-1] is fl[-1]:
                                ws.append((b2, s, Operand(s.rv['o']) if s.rv['k'] in ('use', 'cast') else None))
            if not ws:
                bad = 'the compared field %s.%s has no writer' % (owner, name)
            for (b2, s, o) in ws:
                if o is None:
                    bad = 'the key field %s is stored from a computed value at %s' % (name, b2.loc(s.sp))
                    continue
                e = ExprBuilder(CFG(b2), fold_named=True).operand(o)
                se = show(e)
                pure = isinstance(e, tuple) and e[0] in ('place', 'proj') and se.endswith('reception_time_us')
                if not pure:
                    bad = 'the key field `%s` is stored as %s at %s - not the reception time itself' % (name, se[:70], b2.loc(s.sp))
        if bad:
            O2.violation(('merge-key-not-reception-time', body.path), 'the merge heap is ordered by %s: %s; sources sorted by reception time no longer give a merged stream sorted by reception time' %
                         (sorted(k[1] for k in keys), bad), where=body.loc(None))
        else:
            O2.ok(sample={'comparator': body.path, 'key': sorted(k[1] for k in keys), 'is': 'the reception time of the head message (verbatim)'})
