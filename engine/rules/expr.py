"""P-expr: fold single-definition MIR temporaries into expression trees so that guards can be
recognised by what they compare.  Expressions are nested tuples:
  ('const', value) ('str', text) ('fn', path) ('place', local_name_or_index, proj, ...)
  ('bin', op, a, b) ('un', op, a) ('cast', a, ty) ('call', callee_path, (args...)) ('ref', e)
  ('discr', e) ('agg', name, (ops...)) ('?', text)
Place projections appear as strings: '*', '.field', '@Variant', '[i]'."""
from facts import Place, Operand

CMP_SWAP = {'Lt': 'Gt', 'Gt': 'Lt', 'Le': 'Ge', 'Ge': 'Le', 'Eq': 'Eq', 'Ne': 'Ne'}
CMP_NEG = {'Lt': 'Ge', 'Ge': 'Lt', 'Gt': 'Le', 'Le': 'Gt', 'Eq': 'Ne', 'Ne': 'Eq'}

import re


class ExprBuilder:
    def __init__(self, cfg, max_depth=40, fold_named=False):
        # fold_named: also fold *named* locals that have a single definition (value provenance
        # questions only; for guards this could be stale, so it is off by default)
        self.fold_named = fold_named
        self.cfg = cfg
        self.body = cfg.body
        self.max_depth = max_depth
        self._memo = {}
        self._visiting = set()

    def target(self, p):
        """expression of an assignment target: the place itself, never folded into its definition"""
        return self.place(p, fold=False)

    def place(self, p, depth=0, fold=True):
        body = self.body
        l = p.l
        base = None
        if fold and l > body.arg_count and (body.name_of(l) is None or self.fold_named) and depth < self.max_depth:
            sd = self.cfg.single_def(l)
            if sd is not None:
                base = self.local(l, depth + 1)
        projs = []
        for e in p.p:
            k = e['k']
            if k == 'deref':
                projs.append('*')
            elif k == 'f':
                projs.append('.' + e['n'])
            elif k == 'dc':
                projs.append('@' + str(e['n']))
            elif k == 'idx':
                projs.append('[%s]' % (body.name_of(e['l']) or '_'))
            elif k == 'cidx':
                projs.append('[%s%d]' % ('-' if e['fe'] else '', e['off']))
            else:
                projs.append('[..]')
        if base is not None:
            if not projs:
                return base
            # (*ref(X)).f  ->  X.f
            if base[0] == 'ref' and projs and projs[0] == '*':
                inner = base[1]
                if inner[0] == 'place':
                    return inner + tuple(projs[1:])
                return ('proj', inner) + tuple(projs[1:])
            if base[0] in ('place', 'proj'):
                return base + tuple(projs)
            # (a, b, c).1 -> b   (`match (x, flag_a, flag_b) { (_, true, false) => .. }` switches on the elements of a tuple temp)
            if base[0] == 'agg' and base[1] == 'tuple' and projs and re.match(r'^\.\d+$', projs[0]) and int(projs[0][1:]) < len(base[2]):
                el = base[2][int(projs[0][1:])]
                if len(projs) == 1:
                    return el
                if isinstance(el, tuple) and el[0] in ('place', 'proj'):
                    return el + tuple(projs[1:])
                return ('proj', el) + tuple(projs[1:])
            # (AddWithOverflow(a, b)).0 -> Add(a, b)
            if base[0] == 'bin' and base[1].endswith('WithOverflow') and projs == ['.0']:
                return ('bin', base[1][:-len('WithOverflow')], base[2], base[3])
            return ('proj', base) + tuple(projs)
        name = body.name_of(l)
        if name is None:
            name = 'arg%d' % l if l <= body.arg_count else '_%d' % l
        return ('place', name) + tuple(projs)

    def local(self, l, depth=0):
        if l in self._memo:
            return self._memo[l]
        body = self.body
        sd = self.cfg.single_def(l)
        if sd is None or depth > self.max_depth:
            name = body.name_of(l) or ('arg%d' % l if l <= body.arg_count else '_%d' % l)
            return ('place', name)
        if l in self._visiting:
            name = body.name_of(l) or '_%d' % l
            return ('place', name)
        self._visiting.add(l)
        try:
            if sd[1] == 'call':
                t = sd[2]
                c = t.callee
                e = ('call', c.path if c else '<indirect>', tuple(self.operand(a, depth + 1) for a in t.args))
            else:
                e = self.rvalue(sd[2].rv, depth + 1)
        finally:
            self._visiting.discard(l)
        if depth < 12:
            self._memo[l] = e
        return e

    def operand(self, o, depth=0):
        if o.is_const:
            if o.fn:
                return ('fn', o.fn['path'])
            if o.value is not None:
                return ('const', o.value)
            if o.d.get('promoted') is not None and depth < self.max_depth:
                pb = self.body.promoted_body(o.d['promoted'])
                if pb is not None:
                    from cfg import CFG
                    return ExprBuilder(CFG(pb)).local(0)
            return ('str', o.const_str() or '')
        if o.place is None:
            return ('?', 'operand')
        return self.place(o.place, depth)

    def rvalue(self, rv, depth=0):
        k = rv['k']
        if k == 'use':
            return self.operand(Operand(rv['o']), depth)
        if k == 'bin':
            return ('bin', rv['op'], self.operand(Operand(rv['a']), depth), self.operand(Operand(rv['b']), depth))
        if k == 'un':
            return ('un', rv['op'], self.operand(Operand(rv['a']), depth))
        if k == 'cast':
            return ('cast', self.operand(Operand(rv['o']), depth), rv['t'])
        if k in ('ref', 'rawptr'):
            return ('ref', self.place(Place(rv['p']), depth))
        if k == 'discr':
            return ('discr', self.place(Place(rv['p']), depth))
        if k == 'agg':
            nm = rv.get('adt') or rv.get('closure') or rv['ak']
            if rv.get('variant') and rv.get('ak') == 'adt':
                nm = nm + '::' + rv['variant']
            return ('agg', nm, tuple(self.operand(Operand(o), depth) for o in rv['ops']))
        return ('?', rv.get('s', k)[:80])

    def switch_cond(self, block):
        """expression switched on in a switch block.  A *named* bool local is folded into its
        definition only when it has a single definition located in the switch block itself or in its
        unique direct predecessor (evaluated immediately before the branch: cannot be stale)."""
        t = block.term
        if t.k != 'switch':
            return None
        e = self.operand(Operand(t.d['d']))
        return self._unfold_fresh_named(e, block, 0)

    def _unfold_fresh_named(self, e, block, depth):
        if depth > 3 or not isinstance(e, tuple):
            return e
        if e[0] == 'un' and e[1] == 'Not':
            return ('un', 'Not', self._unfold_fresh_named(e[2], block, depth + 1))
        if e[0] == 'place' and len(e) == 2:
            ls = [l for l in self.body.locals_named(e[1]) if self.body.lty(l) == 'bool']
            if len(ls) == 1:
                l = ls[0]
                sd = self.cfg.single_def(l)
                if sd is not None:
                    preds = self.cfg.pred[block.i]
                    if sd[0] == block.i or (len(preds) == 1 and preds[0] == sd[0]):
                        if sd[1] == 'call':
                            t = sd[2]
                            return ('call', t.callee.path, tuple(self.operand(a) for a in t.args))
                        return self.rvalue(sd[2].rv)
        return e


def show(e):
    if not isinstance(e, tuple):
        return str(e)
    k = e[0]
    if k == 'const':
        return str(e[1])
    if k == 'str':
        return e[1][:40]
    if k == 'fn':
        return 'fn:' + e[1]
    if k == 'place':
        s = str(e[1])
        for p in e[2:]:
            if p == '*':
                s = '(*%s)' % s
            else:
                s += p
        return s
    if k == 'proj':
        s = '{' + show(e[1]) + '}'
        for p in e[2:]:
            s = '(*%s)' % s if p == '*' else s + p
        return s
    if k == 'bin':
        return '%s(%s, %s)' % (e[1], show(e[2]), show(e[3]))
    if k == 'un':
        return '%s(%s)' % (e[1], show(e[2]))
    if k == 'cast':
        return '(%s as %s)' % (show(e[1]), e[2].split('::')[-1])
    if k == 'call':
        return '%s(%s)' % (short(e[1]), ', '.join(show(a) for a in e[2]))
    if k == 'ref':
        return '&' + show(e[1])
    if k == 'discr':
        return 'discr(%s)' % show(e[1])
    if k == 'agg':
        return '%s{%s}' % (short(e[1]), ', '.join(show(a) for a in e[2]))
    return '?' + str(e[1:])


def short(path):
    import re
    q = re.sub(r'::<[^<>]*(<[^<>]*>[^<>]*)*>', '', path)
    parts = q.split('::')
    return '::'.join(parts[-2:]) if len(parts) > 2 else q


def walk(e):
    """all sub-expressions"""
    yield e
    if isinstance(e, tuple):
        for x in e:
            if isinstance(x, tuple) and x:
                for y in walk(x):
                    yield y


def contains(e, pred):
    return any(pred(x) for x in walk(e))


def strip_refs(e):
    while isinstance(e, tuple) and e[0] == 'ref':
        e = e[1]
    return e


def strip_casts(e):
    while isinstance(e, tuple) and e[0] in ('cast', 'ref'):
        e = e[1]
    return e
