"""Dominating guards: which switch-edge conditions are known to hold on entry to a block."""
from expr import ExprBuilder, CMP_NEG


def dominating_edges(cfg, block):
    """list of (switch_block, target, value or None) for switch edges D->S where S dominates `block`
    and every other predecessor of S is dominated by S (loop back edges)."""
    out = []
    body = cfg.body
    doms = cfg.dominators(block)   # block, idom(block), ...
    domset = set(doms)
    for S in doms:
        preds = cfg.pred[S]
        fwd = [p for p in preds if not cfg.dominates(S, p)]
        if len(fwd) != 1:
            continue
        D = fwd[0]
        t = body.blocks[D].term
        if t.k != 'switch':
            continue
        vals = t.d['vals']
        hits = [v for v, tg in vals if tg == S]
        if t.d['otherwise'] == S:
            if hits:
                continue   # both explicit and otherwise go to S: no information
            out.append((D, S, None, [v for v, _ in vals]))
        elif len(hits) == 1:
            out.append((D, S, hits[0], [v for v, _ in vals]))
    return out


def materialised_bool(cfg, D):
    """If block D switches on a bool temp that was *materialised* immediately before (`matches!(..)`, `a && b`, `a || b`
    lower to const true/false stores in sibling blocks that all jump straight to D), return {True: [blocks storing true],
    False: [blocks storing false]}, else None.  Freshness: every way into D comes from one of the storing blocks through
    goto-only blocks, so the value tested is the one stored last (drop flags, which are stored far away, do not qualify)."""
    body = cfg.body
    t = body.blocks[D].term
    if t.k != 'switch':
        return None
    from facts import Operand
    o = Operand(t.d['d'])
    if o.place is None or not o.place.is_local or body.lty(o.place.l) != 'bool':
        return None
    ds = cfg.defs.get(o.place.l, [])
    if len(ds) == 1 and ds[0][0] == D and ds[0][1] != 'call' and ds[0][2].rv['k'] == 'use':
        # `_t = copy flag; switchInt(move _t)` in the switch block itself: look at the named bool behind the copy
        src = Operand(ds[0][2].rv['o'])
        if src.place is not None and src.place.is_local and body.lty(src.place.l) == 'bool':
            ds = cfg.defs.get(src.place.l, [])
    if len(ds) < 2:
        return None
    out = {True: [], False: [], 'expr': []}
    R = set()
    for (bi, i, st) in ds:
        if bi == D:
            return None
        if i == 'call':
            # `a && f(x)`: the last conjunct is a call whose result is stored into the flag
            out['expr'].append((bi, st))
            R.add(bi)
            x = st.d.get('t')
            ok_chain = False
            for _ in range(6):
                if x is None:
                    break
                if x == D:
                    ok_chain = True
                    break
                R.add(x)
                tx = body.blocks[x].term
                if tx.k != 'goto':
                    break
                x = tx.d['t']
            if not ok_chain:
                return None
            continue
        if st.rv['k'] == 'use' and st.rv_operands() and st.rv_operands()[0].is_const:
            out[bool(st.rv_operands()[0].d.get('v'))].append(bi)
        elif st.rv['k'] in ('bin', 'un', 'use'):
            # `a && b` lowers to  if a { x = b } else { x = false }: the last conjunct is stored as an expression
            out['expr'].append((bi, st))
        else:
            return None
        # follow the goto chain to D
        x = bi
        for _ in range(6):
            R.add(x)
            tx = body.blocks[x].term
            if tx.k != 'goto':
                return None
            x = tx.d['t'] if 't' in tx.d else cfg.succ[x][0]
            if x == D:
                break
        else:
            return None
    defblocks = {bi for (bi, _, _) in ds}
    for p in cfg.pred[D]:
        if p not in R:
            return None
    for x in R - defblocks:
        if any(p not in R for p in cfg.pred[x]):
            return None
    return out


def conditions(cfg, E, block, _depth=0):
    """list of (expr, truth) boolean-ish facts holding on entry to block: truth True means expr != 0 /
    for discriminants (expr, ('eq', v)) or (expr, ('ne', [v..]))"""
    out = []
    for (D, S, v, allvals) in dominating_edges(cfg, block):
        if _depth < 4:
            mb = materialised_bool(cfg, D)
            if mb is not None:
                tv = None
                if v is None and allvals == [0]:
                    tv = True
                elif v is not None:
                    tv = (v != 0)
                if tv is not None and len(mb[tv]) == 1 and not mb['expr']:
                    # the tested value was stored by exactly one block: everything known there is known here
                    out.extend(conditions(cfg, E, mb[tv][0], _depth + 1))
                elif tv is not None and not mb[tv] and len(mb['expr']) == 1:
                    # only the expression store can have produced this value: it holds, together with what is known there
                    (xb, xs) = mb['expr'][0]
                    out.extend(conditions(cfg, E, xb, _depth + 1))
                    if hasattr(xs, 'rv') and xs.k == 'assign':
                        out.append((E.rvalue(xs.rv), tv, xb))
                    else:
                        out.append((('call', xs.callee.path, tuple(E.operand(a) for a in xs.args)), tv, xb))
        e = E.switch_cond(cfg.body.blocks[D])
        if v is None:
            if allvals == [0]:
                out.append((e, True, D))
            else:
                out.append((e, ('ne', tuple(allvals)), D))
        else:
            if v == 0 and True:
                out.append((e, False, D))
                out.append((e, ('eq', 0), D))
            else:
                out.append((e, ('eq', v), D))
                if allvals == [v] or v == 1:
                    out.append((e, True, D))
    return out


def normalise(e, truth):
    """push negation into comparisons: returns (expr, truth) with Not() removed and false comparisons flipped"""
    while isinstance(e, tuple) and e[0] == 'un' and e[1] == 'Not' and truth in (True, False):
        e = e[2]
        truth = not truth
    if isinstance(e, tuple) and e[0] == 'bin' and e[1] in CMP_NEG and truth is False:
        e = ('bin', CMP_NEG[e[1]], e[2], e[3])
        truth = True
    return e, truth


def known(cfg, E, block):
    """normalised list of (expr, truth, switch_block)"""
    out = []
    for (e, t, D) in conditions(cfg, E, block):
        if t in (True, False):
            e2, t2 = normalise(e, t)
            out.append((e2, t2, D))
        else:
            out.append((e, t, D))
    return out
