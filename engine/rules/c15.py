"""C15 - remote server survives any command sequence and always answers (structural clauses).

Decided: R1 exactly one text reply on every normal path of the command handler (the search helper is
summarised from its own body: Ok => 1 reply, Err => 0); R2 no unguarded unwrap/expect of a
parse-like operation on request text in the handler cone (deviance rule); R3 the `close` drain loop
is left only on TryRecvError::Disconnected and all thread handles are joined before the reply, the
file context is taken before the drain.
Not decided: session-state consistency over histories, behaviour relative to parsing progress."""
import re
from cfg import CFG
from expr import ExprBuilder, show, walk
from facts import Operand, Place
from paths import Explorer, place_key
import pairing, guards

LEVEL = 'proof'
EXPLANATION = ('Path counting of Message::Text replies over all normal CFG paths of the command handler (726 blocks) with flag and variant propagation, '
               'interprocedural summary of the search helper; deviance rule on unwraps of parse results of request text; loop-exit analysis of the close arm.')
ASSUMPTIONS = [
    'decides structural clauses only: consistency of session state over command histories and behaviour while parsing runs are NOT decided',
    'a failing websocket write (client gone) ends the connection thread by design (unwrap on write_message is allowed)',
    'panics other than the R2 idiom (index/overflow/poisoned locks/plugin code) are outside R2',
]
MANIFEST = {'text': 'proof (all normal paths) that the command handler sends exactly one text reply per command and that `close` only leaves its drain loop when the pipeline is disconnected and joins all threads; '
                    'plus a deviance rule (level other) that no parse/split result of request text is unwrapped unguarded in the handler cone.'
                    ' Added: integers parsed from the request reach allocation sizes, slice indices/range bounds and checked multiplications only behind a bound (taint rule with helper summaries). Added: eagerly evaluated defaults (unwrap_or / map_or / then_some) in the remote module contain no panic-capable operation. Added: text is sliced by byte offsets only at offsets obtained from the text itself (find / char_indices / len). Added: unsigned subtractions that involve a stream window bound (client state, changeable at any time by stream_change_window) are discharged by a dominating comparison / clamp. Added: close joins no pipeline thread before the drain loop has seen Disconnected. Added: the sender sends everything processed in the same round (shared with C16 G5), the premise of the one-pass drain. Added: process_file_context constructs an Err (which ends the connection) only under the error arm of the extraction poll.'}

TEXT_VARIANT = 'Message::Text'
PARSE_LIKE = re.compile(r'(split_once|rsplit_once|::parse|from_str|::get\b|::nth\b|strip_prefix|strip_suffix|::find\b|::position\b|as_u64|as_i64|as_str|as_array|as_object|as_bool|'
                        r'Iterator::next|::first\b|::last\b|::pop\b|char_indices|to_digit)')
UNWRAPS = ('std::option::Option::<T>::unwrap', 'std::result::Result::<T, E>::unwrap', 'std::option::Option::<T>::expect', 'std::result::Result::<T, E>::expect',
           'std::result::Result::<T, E>::unwrap_err')


def find_handler(F):
    out = []
    for b in F.order:
        if b.crate != 'bin' or b.kind == 'closure':
            continue
        at = b.arg_types()
        if any(t == 'std::string::String' for t in at) and any(t.startswith('&mut std::option::Option<') and 'FileContext' in t for t in at) and \
                any(t.startswith('&mut tungstenite::WebSocket<') or 'WebSocket<' in t for t in at):
            out.append(b)
    return out


def is_text_reply(E, t):
    if not t.callee.path.endswith('WebSocket::<Stream>::write_message') and not t.callee.path.endswith('::write_message'):
        return False
    if len(t.args) < 2:
        return False
    e = E.operand(t.args[1])
    return any(isinstance(x, tuple) and x and x[0] == 'agg' and x[1].endswith(TEXT_VARIANT) for x in walk(e))


def reply_profile(F, body, summaries):
    """explore all paths; returns (explorer, list of (exit block, state, replies, kind))"""
    cfg = CFG(body)
    E = ExprBuilder(cfg, fold_named=True)
    reply_blocks = set()
    summ_blocks = {}
    for blk in body.calls():
        t = blk.term
        if is_text_reply(E, t):
            reply_blocks.add(blk.i)
        tgt = t.callee.path
        if tgt in summaries:
            if isinstance(summaries[tgt], tuple) and summaries[tgt][0] == 'const':
                if summaries[tgt][1] == 1:
                    reply_blocks.add(blk.i)      # helper that sends exactly one reply on every path
            else:
                summ_blocks[blk.i] = place_key(t.dest)
    roots = set(summ_blocks.values())

    def block_effect(b, facts):
        if b.i in reply_blocks:
            facts = pairing.bump(facts, 'reply')
        if b.i in summ_blocks:
            facts = pairing.bump(facts, 'helper')
        # return kind
        for s in b.stmts:
            if s.k == 'assign' and s.place.is_local and s.place.l == 0 and s.rv['k'] == 'agg':
                v = s.rv.get('variant')
                if v in ('Ok', 'Err'):
                    facts = frozenset([f for f in facts if f[0] != 'ret'] + [('ret', v)])
        if b.term.k == 'call' and b.term.dest.is_local and b.term.dest.l == 0 and 'from_residual' in b.term.callee.path:
            facts = frozenset([f for f in facts if f[0] != 'ret'] + [('ret', 'Err')])
        return facts

    def edge_effect(b, tgt, facts):
        # Err edge of a summarised helper: the helper did not reply
        for f in facts:
            if f[0] == 'var' and f[1] in roots and f[2] == 1 and ('helper_err',) not in facts:
                return frozenset(facts | {('helper_err',)})
        return facts
    ex = Explorer(cfg, block_effect=block_effect, edge_effect=edge_effect, var_roots=roots)
    ex.run()
    res = []
    for rb in cfg.exits:
        for st in ex.out_states.get(rb, ()):
            f = st[1]
            n = pairing.count(f, 'reply')
            h = pairing.count(f, 'helper')
            if h and ('helper_err',) not in f:
                n += h
            kind = None
            for x in f:
                if x[0] == 'ret':
                    kind = x[1]
            res.append((rb, st, n, kind))
    return ex, res, len(reply_blocks), cfg


def run(F, chk):
    R1 = chk.rule('R1', 'exactly one Message::Text reply on every normal path of the command handler (search helper summarised: Ok => 1, Err => 0)')
    R2 = chk.rule('R2', 'no unguarded unwrap/expect of a parse-like result of request text in the handler and its helpers')
    R3 = chk.rule('R3', 'close: file context taken first, drain loop left only on Disconnected, all thread handles joined before the reply')
    R4 = chk.rule('R4', 'integers parsed from the request reach allocation sizes, slice indices/range bounds and checked multiplications only behind a bound')
    check_client_integers(F, R4)
    R5 = chk.rule('R5', 'a stream is removed from the session by index only with a position just looked up on the list (otherwise through retain)')
    check_stream_removal(F, R5)
    R6 = chk.rule('R6', 'remote module: the eagerly evaluated default of unwrap_or / map_or / then_some contains no panic-capable operation (slicing, unsigned subtraction, division)')
    check_eager_defaults(F, R6)
    R7 = chk.rule('R7', 'remote module: text is sliced by byte offsets only at offsets that come from the text itself (find / char_indices / len), never at a fixed or foreign number')
    check_str_slicing(F, R7)
    R10 = chk.rule('R10', 'the server loop function process_file_context ends the connection (returns Err) only for a failed websocket write or a failed archive extraction: every locally constructed Err lies under the Err arm of the extraction poll')
    check_loop_errors(F, R10)
    R9 = chk.rule('R9', 'sender loop: everything that was processed is sent in the same round (new_end = min(stream length, window end), stored on all paths): the one-pass drain removes what was processed, a message left unsent would be indexed below the drained prefix in the next round (index panic in the connection thread); shared with C16 G5')
    import c16
    c16.check_progress(F, R9)
    R8 = chk.rule('R8', 'remote module: an unsigned subtraction that involves a stream window bound (msgs_to_send, set by stream / query / stream_change_window requests) is discharged by a dominating comparison, clamp or bounded form')
    check_window_subtractions(F, R8)
    hs = find_handler(F)
    R1.floor('command handler (anchor: fn(.., String, &mut Option<FileContext>, &mut WebSocket))', len(hs), 1)
    for h in hs:
        # helper summaries: bin functions called from the handler that take a WebSocket and return Result
        summaries = {}
        const_helpers = {}
        for blk in h.calls():
            tgt = F.get(blk.term.callee.path)
            if tgt is not None and tgt.crate == 'bin' and any('WebSocket<' in t for t in tgt.arg_types()) and tgt.ret_type().startswith('std::result::Result<'):
                summaries[tgt.path] = tgt
            elif tgt is not None and tgt.crate == 'bin' and tgt.kind != 'closure' and any('WebSocket<' in t for t in tgt.arg_types()):
                const_helpers[tgt.path] = tgt
        helper_reply_sites = 0
        # helpers that do not return a Result (a command arm moved into its own function): same number of replies on every path
        for p, hb in const_helpers.items():
            R1.fn(p)
            ex, res, nrep, _ = reply_profile(F, hb, {})
            R1.paths += ex.n_states
            helper_reply_sites += nrep
            ns = sorted(set(n for (rb, st, n, k) in res))
            if len(ns) == 1 and ns[0] in (0, 1):
                summaries[p] = ('const', ns[0])
                R1.ok(sample={'helper': p, 'return_states': len(res), 'summary': 'exactly %d reply on every path' % ns[0]})
            else:
                rb, st, n, k = [x for x in res if x[2] != 1][0] if res else (None, None, None, None)
                R1.violation(('helper-summary', p, 'replies%s' % ns), 'helper %s sends %s text replies depending on the path (expected exactly one on every path)' % (p, ns),
                             where=hb.loc(None), witness={'block_path': ex.witness(rb, ex.out_entry.get((rb, st), st))[-40:] if rb is not None else []})
                summaries[p] = ('const', 1)
        for p, hb in summaries.items():
            if isinstance(hb, tuple):
                continue
            R1.fn(p)
            ex, res, nrep, _ = reply_profile(F, hb, {})
            R1.paths += ex.n_states
            bad = [(rb, st, n, k) for (rb, st, n, k) in res if not ((k == 'Ok' and n == 1) or (k == 'Err' and n == 0))]
            if bad or not res:
                rb, st, n, k = bad[0] if bad else (None, None, None, None)
                R1.violation(('helper-summary', p, str(k), 'replies%s' % n), 'helper %s does not satisfy the summary Ok => exactly one reply, Err => none (a path returning %s sends %s replies)' % (p, k, n),
                             where=hb.loc(None), witness={'block_path': ex.witness(rb, ex.out_entry.get((rb, st), st))[-40:] if rb is not None else []})
            else:
                R1.ok(sample={'helper': p, 'return_states': len(res), 'summary': 'Ok => 1 reply, Err => 0 replies'})
        R1.fn(h.path)
        ex, res, nrep, cfg = reply_profile(F, h, summaries)
        R1.paths += ex.n_states
        R1.sites += nrep
        R1.floor('text reply sites in the handler and its reply helpers', nrep + helper_reply_sites, 30)
        counts = {}
        for (rb, st, n, k) in res:
            counts[n] = counts.get(n, 0) + 1
            if n != 1:
                w = ex.witness(rb, ex.out_entry.get((rb, st), st))
                lines = [h.blocks[x].term.sp['l'] for x in w if h.blocks[x].term.sp]
                R1.violation(('reply-count', h.path, 'replies%d' % n), 'a path through the command handler sends %s text replies (expected exactly 1)' % ('no' if n == 0 else '%d or more' % n),
                             where='%s (path ends after line %s)' % (h.loc(None), lines[-2] if len(lines) > 1 else '?'), witness={'block_path': w[-60:], 'source_lines': lines[-40:]})
        if counts.get(1):
            R1.ok(n=counts[1], sample={'handler': h.path, 'return_states_with_exactly_one_reply': counts[1], 'reply_sites': nrep})
        R1.floor('return states of the handler', len(res), 1)
        cone = [h] + [F.get(p) for p in summaries] + cone_helpers(F, h)
        seen_c = set()
        cone = [c for c in cone if c is not None and not (c.path in seen_c or seen_c.add(c.path))]
        check_unwraps(F, cone, R2)
        check_close(F, h, R3)


def cone_helpers(F, h):
    """bin functions (not closures) directly called by the handler that receive request-derived text"""
    out = []
    seen = set()
    for blk in h.calls():
        tgt = F.get(blk.term.callee.path)
        if tgt is not None and tgt.crate == 'bin' and tgt.path not in seen and any(t in ('&str', 'std::string::String', '&serde_json::Map<std::string::String, serde_json::Value>') for t in tgt.arg_types()):
            seen.add(tgt.path)
            out.append(tgt)
    return out


def check_unwraps(F, cone, R2):
    n = 0
    for body in cone:
        if body is None:
            continue
        cfg = CFG(body)
        E = ExprBuilder(cfg, fold_named=True)
        R2.fn(body.path)
        for blk in body.calls():
            t = blk.term
            if t.callee.path not in UNWRAPS:
                continue
            n += 1
            R2.sites += 1
            recv = E.operand(t.args[0])
            s = show(recv)
            if 'write_message' in s or 'RwLock' in s or 'Mutex' in s or '::lock' in s or '::read(' in s or '::write(' in s:
                R2.ok(sample={'function': body.path, 'unwrap_of': s[:80], 'class': 'reply I/O or lock poisoning (allowed)'})
                continue
            outer = recv
            while isinstance(outer, tuple) and outer[0] in ('ref', 'cast'):
                outer = outer[1]
            outer_name = outer[1] if isinstance(outer, tuple) and outer[0] == 'call' else s
            if isinstance(outer, tuple) and outer[0] == 'call' and re.search(r'::(err|ok|as_ref|as_mut|map|and_then|cloned|copied)$', outer[1]) and outer[2]:
                inner0 = outer[2][0]
                while isinstance(inner0, tuple) and inner0[0] in ('ref', 'cast'):
                    inner0 = inner0[1]
                if isinstance(inner0, tuple) and inner0[0] == 'call':
                    outer_name = outer_name + ' ' + inner0[1]
            if not PARSE_LIKE.search(outer_name):
                R2.ok(sample={'function': body.path, 'unwrap_of': s[:80], 'class': 'not a parse-like operation on request text (outside this rule)'})
                continue
            # guarded by is_some/is_ok/discriminant test of the same expression?
            guarded = False
            inner = recv
            while isinstance(inner, tuple) and inner[0] in ('ref',):
                inner = inner[1]
            if isinstance(inner, tuple) and inner[0] == 'call' and re.search(r'::(err|ok|as_ref|as_mut)$', inner[1]) and inner[2]:
                inner = inner[2][0]
                while isinstance(inner, tuple) and inner[0] == 'ref':
                    inner = inner[1]
            s_in = show(inner)
            first_arg = None
            if isinstance(inner, tuple) and inner[0] == 'call' and inner[2]:
                first_arg = show(inner[2][0])
            for (c, truth, D) in guards.known(cfg, E, blk.i):
                cs = show(c)
                if s_in and s_in != s and s_in in cs and cs.startswith('discr('):
                    guarded = True
                # `if x.is_string() { x.as_str().unwrap() }`: a type predicate on the same receiver
                if first_arg and truth is True and isinstance(c, tuple) and c[0] == 'call' and re.search(r'::is_\w+$', c[1]) and c[2] and show(c[2][0]) == first_arg:
                    guarded = True
                if (s in cs or strip_amp(s) in cs) and (('is_some' in cs or 'is_ok' in cs) and truth is True or ('is_none' in cs or 'is_err' in cs) and truth is False or cs.startswith('discr(')):
                    guarded = True
                # length guard for split(..).collect()[i] style is handled by Index, not here
            if guarded:
                R2.ok(sample={'function': body.path, 'unwrap_of': s[:80], 'class': 'guarded by a dominating is_some/is_ok/match'})
            else:
                R2.violation(('unguarded-unwrap', body.path, norm_key(s)), 'in %s the result of a parse-like operation on request text is unwrapped without a guard: %s.unwrap() — a malformed command panics the connection thread instead of being answered with err:' % (body.path, s[:120]),
                             where=body.loc(t.sp))
    R2.floor('unwrap/expect sites in the handler cone', n, 30)


def strip_amp(s):
    return s.lstrip('&')


def norm_key(s):
    return re.sub(r'[^A-Za-z0-9_:.]+', '_', s)[:80]


def check_close(F, h, R3):
    """the arm that calls Option::take on the file context and drains the pipeline with try_recv in a loop - in the handler
    itself or in a helper function the handler calls behind the take"""
    cfg_h = CFG(h)
    R3.fn(h.path)
    take = [b.i for b in h.calls() if b.term.callee.path == 'std::option::Option::<T>::take' and 'FileContext' in (b.term.args[0].ty or '')]
    R3.floor('file_context.take() sites', len(take), 1)
    drains = []
    if any(b.term.callee.path.endswith('Receiver::<T>::try_recv') for b in h.calls()):
        drains.append((h, None))
    for blk in h.calls():
        tgt = F.get(blk.term.callee.path)
        if tgt is not None and tgt.crate == 'bin' and tgt.kind != 'closure' and tgt.path != h.path and \
                any(x.term.callee.path.endswith('Receiver::<T>::try_recv') for x in tgt.calls()):
            drains.append((tgt, blk.i))
    R3.floor('functions draining the pipeline with try_recv (handler or helper called by it)', len(drains), 1)
    if not take or not drains:
        return
    for (d, callblk) in drains:
        cfg = CFG(d)
        E = ExprBuilder(cfg, fold_named=True)
        R3.fn(d.path)
        tryrecv = [b.i for b in d.calls() if b.term.callee.path.endswith('Receiver::<T>::try_recv')]
        joins = [b.i for b in d.calls() if b.term.callee.path.endswith('JoinHandle::<T>::join')]
        R3.floor('thread join sites in ' + d.path, len(joins), 3)
        for tr in tryrecv:
            # take dominates the drain (or the call of the draining helper)
            at = tr if callblk is None else callblk
            if any(cfg_h.dominates(tk, at) for tk in take):
                R3.ok(sample={'take_before_drain': True, 'drain_in': d.path})
            else:
                R3.violation(('close-take-after-drain', h.path), 'close drains the pipeline before taking the file context out of the session (a later open could see a half-closed context)',
                             where=h.loc(h.blocks[at].term.sp))
            loops = cfg.loops()
            mine = [(hd, body) for hd, body in loops.items() if tr in body]
            if not mine:
                R3.violation(('close-no-loop', d.path), 'try_recv in close is not inside a loop: threads blocked in a bounded send are not drained', where=d.loc(d.blocks[tr].term.sp))
                continue
            hd, lbody = min(mine, key=lambda x: len(x[1]))
            exits = [(b, s_) for b in lbody for s_ in cfg.succ[b] if s_ not in lbody and d.blocks[s_].term.k != 'unreachable']
            ok_all = True
            for (b, s_) in exits:
                good = False
                blk = d.blocks[b]
                if blk.term.k == 'switch':
                    c = show(E.switch_cond(blk))
                    if '@Err.0' in c.replace(' ', '') and 'try_recv' in c:
                        for v, t in blk.term.d['vals']:
                            if t == s_ and v == 1:
                                good = True
                        if blk.term.d['otherwise'] == s_ and [v for v, _ in blk.term.d['vals']] == [0]:
                            good = True
                if not good and blk.term.k == 'switch':
                    # `while !disconnected { .. Err(Disconnected) => disconnected = true }`: the loop is left on a flag that only the
                    # Disconnected arm sets
                    dop = Operand(blk.term.d['d'])
                    base = dop.place.l if dop.place is not None and dop.place.is_local and not dop.place.p else None
                    neg = False
                    for _ in range(4):
                        sdb = cfg.single_def(base) if base is not None else None
                        if sdb is not None and sdb[1] != 'call' and sdb[2].rv['k'] == 'un' and sdb[2].rv['op'] == 'Not' and Operand(sdb[2].rv['a']).place is not None and not Operand(sdb[2].rv['a']).place.p:
                            neg = not neg
                            base = Operand(sdb[2].rv['a']).place.l
                        elif sdb is not None and sdb[1] != 'call' and sdb[2].rv['k'] == 'use' and Operand(sdb[2].rv['o']).place is not None and not Operand(sdb[2].rv['o']).place.p:
                            base = Operand(sdb[2].rv['o']).place.l
                        else:
                            break
                    if base is not None and d.lty(base) == 'bool':
                        defs = cfg.defs.get(base, [])
                        # which value of the flag leaves the loop
                        leave = None
                        for v, t in blk.term.d['vals']:
                            if t == s_:
                                leave = (v != 0)
                        if leave is None and blk.term.d['otherwise'] == s_ and [v for v, _ in blk.term.d['vals']] == [0]:
                            leave = True
                        if leave is not None:
                            leave = (leave != neg)
                            setters = []
                            only_const = True
                            for (bi, si, dd) in defs:
                                if si == 'call' or dd.rv['k'] != 'use' or not Operand(dd.rv['o']).is_const:
                                    only_const = False
                                    continue
                                if bool(Operand(dd.rv['o']).value) == leave:
                                    setters.append(bi)
                            if only_const and setters and all(any(tt == ('eq', 1) and '@Err.0' in show(cc).replace(' ', '') and 'try_recv' in show(cc) for (cc, tt, DD) in guards.known(cfg, E, bi) ) for bi in setters if bi in lbody) \
                                    and all(bi in lbody for bi in setters):
                                good = True
                if not good:
                    ok_all = False
                    R3.violation(('close-loop-exit', h.path, 'edge'), 'the close drain loop can be left on an edge other than TryRecvError::Disconnected (threads may still block on a full channel while being joined)',
                                 where=d.loc(d.blocks[b].term.sp))
            if ok_all and exits:
                R3.ok(sample={'drain_loop_exits': len(exits), 'all_on': 'TryRecvError::Disconnected'})
            # a thread joined before (or inside) the drain can itself sit in a blocking send on a full channel whose only
            # consumer is this loop: join first = wait forever
            early = [jn for jn in joins if tr in cfg.reachable_from(jn)]
            for jn in early:
                R3.violation(('close-join-before-drain', h.path), 'close joins a pipeline thread at %s before the output channel has been drained until Disconnected: with full channels that thread blocks in send() while its only consumer waits in join() - nothing terminates' % d.loc(d.blocks[jn].term.sp),
                             where=d.loc(d.blocks[jn].term.sp))
            exit_tgts = [s_ for (_, s_) in exits]
            uncond = 0
            for jn in joins:
                for s_ in exit_tgts:
                    if cfg.dominates(s_, jn):
                        r = cfg.reachable_from(s_, avoid={jn})
                        if not any(e in r for e in cfg.exits):
                            uncond += 1
            if uncond >= 2:
                R3.ok(sample={'joins_after_drain_on_all_paths': uncond, 'total_join_sites': len(joins)})
            else:
                R3.violation(('close-join-missing', h.path), 'after the drain loop only %d thread join(s) happen on all paths (expected parse and lifecycle thread at least)' % uncond, where=d.loc(None))


# ---------------------------------------------------------------------------------------------
# R4: integers supplied by the client never reach a panic-capable sink unbounded

CLIENT_INT = re.compile(r'(Value::as_u64|Value::as_i64|Value::as_f64|Number::as_u64|Number::as_i64|Number::as_f64|str::<impl str>::parse|from_str_radix)$')
R4_ALLOC = re.compile(r'::(with_capacity|with_capacity_and_hasher|reserve|reserve_exact|resize|from_elem|with_capacity_in)$')


def check_client_integers(F, R4):
    """Taint rule over the remote module of the binary: a value whose (intraprocedural, backward) data provenance contains an
    integer parsed from request text / JSON must not reach
      (a) an allocation size            without min()/clamp or a dominating upper bound,
      (b) a slice index / range bound   without a dominating `idx < len` / `start <= len` test (an index produced by
                                        Iterator::position, or loaded from a collection, is not client-valued),
      (c) a checked multiplication      without a dominating upper bound (overflow panics in builds with overflow checks).
    Each of them panics in the connection thread: no reply, connection reset."""
    from prov import Prov, calls_in
    from facts import Operand
    import guards
    n = 0
    bodies = [b for b in F.order if b.crate == 'bin' and b.path.startswith('adlt_bin::remote::') and '::tests::' not in b.path]
    R4.floor('functions of the remote module', len(bodies), 20)
    # helpers of the remote module whose return value derives from a client integer are sources themselves
    # (`fn json_usize_or_default(v, key, default) -> Result<usize, ..>`): fixpoint over return-value provenance
    helper_src = set()
    changed = True
    rounds = 0
    while changed and rounds < 4:
        changed = False
        rounds += 1
        for b in bodies:
            if b.path in helper_src or b.kind == 'closure' or not re.search(r'\b(usize|u64|u32|i64|i32|u16)\b', b.ret_type()):
                continue
            pr0 = Prov(CFG(b))
            toks = pr0.origins(0)
            if any(CLIENT_INT.search(c) or c in helper_src for c in calls_in(toks)):
                helper_src.add(b.path)
                changed = True

    def is_src(c):
        return CLIENT_INT.search(c) is not None or c in helper_src
    for b in bodies:
        cfg = pr = E = None
        for blk in b.blocks:
            if blk.cleanup:
                continue
            t = blk.term
            ops = []
            kind = None
            if t.k == 'call' and R4_ALLOC.search(t.callee.path):
                ops = [a for a in t.args if (a.ty or '') in ('usize', 'u64', 'u32')]
                kind = 'alloc'
            elif t.k == 'call' and re.search(r'::(index|index_mut)$', t.callee.path) and len(t.args) > 1 and re.search(r'(Vec<|\[|VecDeque<)', t.args[0].ty or ''):
                ops = [t.args[1]]
                kind = 'index'
            elif t.k == 'assert' and t.d['ak'] == 'BoundsCheck':
                ops = [Operand(t.d['ops'][1])]
                kind = 'index'
            elif t.k == 'assert' and t.d['ak'] == 'Overflow(Mul)':
                ops = [Operand(o) for o in t.d['ops']]
                kind = 'mul'
            if not ops:
                continue
            if cfg is None:
                cfg = CFG(b)
                pr = Prov(cfg)
                E = ExprBuilder(cfg, fold_named=True)
            toks = set()
            for a in ops:
                toks |= pr.operand(a, at=blk.i)
            src = sorted(set(c.split('::')[-1] for c in calls_in(toks) if is_src(c)))
            if not src:
                continue
            exprs = [E.operand(a) for a in ops]
            txt = ' '.join(show(x) for x in exprs)
            # not client-valued: an index found by position(), or a value loaded out of a collection
            if kind == 'index':
                top = exprs[0]
                while isinstance(top, tuple) and top[0] in ('cast', 'ref'):
                    top = top[1]
                if isinstance(top, tuple) and top[0] == 'proj' and isinstance(top[1], tuple) and top[1][0] == 'call' and \
                        re.search(r'(Iterator::position|Iterator::rposition|::index|::binary_search\w*)$', top[1][1]):
                    continue
                if 'Iterator::position(' in show(top)[:40]:
                    continue
            n += 1
            R4.sites += 1
            R4.fn(b.path)
            why = None
            known = guards.known(cfg, E, blk.i)
            if kind in ('alloc', 'mul'):
                if 'cmp::min(' in txt or 'Ord::min(' in txt or any(re.search(r'(cmp::min|Ord::min|::clamp|saturating_mul|checked_mul)$', c) for c in calls_in(toks)):
                    why = 'clamped with min()/clamp'
                for (c, truth, D) in known:
                    if truth is True and isinstance(c, tuple) and c[0] == 'bin':
                        for ex_ in exprs:
                            se = show(ex_)
                            if (c[1] in ('Lt', 'Le') and show(c[2]) == se) or (c[1] in ('Gt', 'Ge') and show(c[3]) == se):
                                why = 'upper bound ' + show(c)[:80]
            elif kind == 'index' and phi_index_ok(cfg, E, ops[0], blk.i):
                why = 'every definition of the index local is loaded from a collection / found by position() or bounded where it is defined'
            else:
                idx = exprs[0]
                parts = [idx]
                if isinstance(idx, tuple) and idx[0] == 'agg':
                    parts = list(idx[2])
                need = [p_ for p_ in parts if fold_const(p_) is None]
                okp = 0
                for p_ in need:
                    sp = show(p_)
                    rb = range_bounded(p_)
                    if rb:
                        okp += 1
                        why = 'produced by iterating a range that ends at ' + rb[:60]
                        continue
                    for (c, truth, D) in known:
                        if truth is True and isinstance(c, tuple) and c[0] == 'bin':
                            if (c[1] in ('Lt', 'Le') and show(c[2]) == sp) or (c[1] in ('Gt', 'Ge') and show(c[3]) == sp):
                                other = c[3] if show(c[2]) == sp else c[2]
                                so = show(other)
                                if 'len(' in so or 'PtrMetadata' in so or '_len' in so or 'len' in so:
                                    okp += 1
                                    why = 'bounded: ' + show(c)[:80]
                                    break
                if need and okp < len(need):
                    why = None
                if not need:
                    why = 'constant bounds'
            if why:
                R4.ok(sample={'function': b.path, 'at': b.loc(t.sp), 'sink': kind, 'value': txt[:70], 'client_source': src, 'discharged_by': why})
            else:
                what = {'alloc': 'sizes an allocation', 'index': 'is used as slice index / range bound', 'mul': 'is multiplied (checked)'}[kind]
                R4.violation(('client-integer-' + kind, b.closure_of or b.path, re.sub(r'_\d+', '_', txt)[:40]),
                             'an integer taken from the request (%s) %s at %s (%s) without a dominating bound: a crafted command panics the connection thread (no reply, connection reset)' %
                             (', '.join(src), what, b.loc(t.sp), txt[:80]), where=b.loc(t.sp))
    R4.floor('client-valued sinks (allocation / index / multiplication) in the remote module', n, 2)


def range_bounded(e):
    """a value produced by iterating `a..b` (`for i in a..b`) is always < b: returns show(b) when b is a length, else None"""
    top = e
    while isinstance(top, tuple) and top[0] in ('cast', 'ref'):
        top = top[1]
    if not (isinstance(top, tuple) and top[0] == 'proj' and isinstance(top[1], tuple) and top[1][0] == 'call' and top[1][1].endswith('Iterator::next') and top[1][2]):
        return None
    if tuple(top[2:4]) != ('@Some', '.0'):
        return None
    x = top[1][2][0]
    for _ in range(8):
        if isinstance(x, tuple) and x[0] == 'ref':
            x = x[1]
        elif isinstance(x, tuple) and x[0] == 'proj' and len(x) == 2:
            x = x[1]
        elif isinstance(x, tuple) and x[0] == 'call' and x[1].endswith('IntoIterator::into_iter') and x[2]:
            x = x[2][0]
    if isinstance(x, tuple) and x[0] == 'agg' and x[1].endswith('Range::Range') and len(x[2]) == 2:
        so = show(x[2][1])
        if 'len(' in so or 'PtrMetadata' in so or 'len' in so:
            return so
    return None


def fold_const(e):
    if isinstance(e, tuple) and e[0] == 'const':
        return e[1]
    if isinstance(e, tuple) and e[0] == 'cast':
        return fold_const(e[1])
    return None


def _bounded_here(cfg, E, e, at):
    import guards
    sp = show(e)
    for (c, truth, D) in guards.known(cfg, E, at):
        if truth is True and isinstance(c, tuple) and c[0] == 'bin':
            if (c[1] in ('Lt', 'Le') and show(c[2]) == sp) or (c[1] in ('Gt', 'Ge') and show(c[3]) == sp):
                other = show(c[3] if show(c[2]) == sp else c[2])
                if 'len' in other or 'PtrMetadata' in other:
                    return True
    return False


def phi_index_ok(cfg, E, op, at, depth=0):
    """index operand that is a multi-definition local (`let idx = if filtered { table[i] } else { i }`): each definition must be
    not client-valued (loaded from a collection, position()) or bounded by a dominating `x < len` where it is defined"""
    from facts import Operand
    if op.place is None or not op.place.is_local or depth > 3:
        return False
    l = op.place.l
    sd = cfg.single_def(l)
    if sd is not None and sd[1] != 'call' and sd[2].rv['k'] == 'use' and Operand(sd[2].rv['o']).place is not None and Operand(sd[2].rv['o']).place.is_local:
        l = Operand(sd[2].rv['o']).place.l
    ds = cfg.defs.get(l, [])
    if len(ds) < 2:
        return False
    for (bi, si, d) in ds:
        if si == 'call':
            if re.search(r'(::index|Iterator::position)$', d.callee.path):
                continue
            return False
        if d.rv['k'] != 'use':
            return False
        o = Operand(d.rv['o'])
        if o.is_const:
            continue
        e = E.operand(o)
        top = e
        while isinstance(top, tuple) and top[0] in ('cast', 'ref'):
            top = top[1]
        if isinstance(top, tuple) and top[0] == 'proj' and isinstance(top[1], tuple) and top[1][0] == 'call' and re.search(r'(::index|Iterator::position)$', top[1][1]):
            continue
        if _bounded_here(cfg, E, e, bi) or range_bounded(e):
            continue
        return False
    return True


# ---------------------------------------------------------------------------------------------
# R5: streams are removed by a fresh position only

def check_stream_removal(F, R5):
    """"a stream id is usable exactly between its creation and stop/close": an element leaves the stream list of the session
    either through `retain` (by a predicate on the element) or through `remove(pos)` with `pos` obtained from `position()`
    on that list in the same step.  Indices collected earlier (e.g. during a loop over the list) go stale with the first
    removal: the wrong stream disappears, or `Vec::remove` panics in the connection thread."""
    n = 0
    bodies = [b for b in F.order if b.crate == 'bin' and b.path.startswith('adlt_bin::remote::') and '::tests::' not in b.path]
    for b in bodies:
        cfg = E = None
        for blk in b.calls():
            t = blk.term
            p = t.callee.path
            if not re.search(r'(Vec::<T, A>::remove|Vec::<T, A>::swap_remove|VecDeque::<T, A>::remove)$', p) or not t.args:
                continue
            if 'StreamContext' not in (t.args[0].ty or ''):
                continue
            if cfg is None:
                cfg = CFG(b)
                E = ExprBuilder(cfg, fold_named=True)
            n += 1
            R5.sites += 1
            R5.fn(b.path)
            idx = E.operand(t.args[1])
            top = idx
            while isinstance(top, tuple) and top[0] in ('cast', 'ref'):
                top = top[1]
            fresh = isinstance(top, tuple) and top[0] == 'proj' and isinstance(top[1], tuple) and top[1][0] == 'call' and top[1][1].endswith('Iterator::position')
            in_loop = any(blk.i in lb for lb in cfg.loops().values())
            # a loop is fine when the position is recomputed inside it (the handler's command loop); stale = index that was not
            # produced by position() at all
            if fresh:
                R5.ok(sample={'function': b.path, 'at': b.loc(t.sp), 'index': 'position(..) on the stream list', 'inside_loop': in_loop})
            else:
                R5.violation(('stream-removed-by-stored-index', b.closure_of or b.path), '%s removes a stream at %s by the index %s, which is not a position just looked up on the list: after the first removal of a pass '
                             'such an index denotes another stream (a live stream vanishes) or lies beyond the end (panic in the connection thread)' % (b.path, b.loc(t.sp), show(idx)[:60]), where=b.loc(t.sp))
    R5.floor('index removals from the stream list', n, 1)


# ---------------------------------------------------------------------------------------------
# R6: eager defaults are total

EAGER = re.compile(r'(Option::<T>::(unwrap_or|map_or|ok_or|and|or|xor|insert|get_or_insert)|Result::<T, E>::(unwrap_or|map_or|and|or)|bool::then_some)$')


def check_eager_defaults(F, R6):
    """"every command gets exactly one reply": a panic in the connection thread sends none.  `x.unwrap_or(default)` evaluates
    `default` on every call, also when x is Some - a slicing / subtraction that is only valid in the None case
    (`split_once("!/").unwrap_or((&p[..p.len() - 1], ""))`) panics for inputs that never needed the default.  Over all bodies
    of the remote module: the default argument of the eager combinators must not be computed by str/slice indexing with a
    non-constant range, an unsigned subtraction, or a division (those belong into unwrap_or_else / map_or_else closures)."""
    n = 0
    bodies = [b for b in F.order if b.crate == 'bin' and b.path.startswith('adlt_bin::remote::') and '::tests::' not in b.path]
    for b in bodies:
        cfg = E = None
        for blk in b.calls():
            t = blk.term
            if not EAGER.search(t.callee.path) or len(t.args) < 2:
                continue
            cfg = cfg or CFG(b)
            E = E or ExprBuilder(cfg, fold_named=True)
            n += 1
            R6.sites += 1
            R6.fn(b.path)
            d = E.operand(t.args[1])
            bad = None
            for x in walk(d):
                if not (isinstance(x, tuple) and x):
                    continue
                if x[0] == 'call' and re.search(r'(Index::index|IndexMut::index_mut|::split_at|::split_at_mut|Option::unwrap|Option::expect|Result::unwrap|Result::expect)$', x[1]):
                    rng = x[2][1] if len(x[2]) > 1 else None
                    if rng is None or fold_const(rng) is None and not (isinstance(rng, tuple) and rng[0] == 'str'):
                        bad = show(x)[:70]
                if x[0] == 'bin' and x[1] in ('Sub', 'Div', 'Rem') and fold_const(x[3]) != 0:
                    if not (x[1] in ('Div', 'Rem') and (fold_const(x[3]) or 0) > 0):
                        bad = show(x)[:70]
            if bad:
                R6.violation(('eager-default-can-panic', b.closure_of or b.path, t.callee.path.split('::')[-1]), '%s passes %s as the eagerly evaluated default of %s at %s: it is computed on every call, also when the default is not needed - '
                             'an input for which it is not defined panics the connection thread (no reply, connection reset); use the lazy *_or_else form' % (b.path, bad, t.callee.path.split('::')[-1], b.loc(t.sp)), where=b.loc(t.sp))
            else:
                R6.ok(sample={'function': b.path, 'combinator': t.callee.path.split('::')[-1], 'default': show(d)[:60], 'total': True})
    R6.floor('eager default combinators in the remote module', n, 5)


# ---------------------------------------------------------------------------------------------
# R7: str slicing at character boundaries

BOUNDARY_SRC = re.compile(r'(str::<impl str>::(len|find|rfind|char_indices|match_indices|rmatch_indices|floor_char_boundary|ceil_char_boundary|is_char_boundary)|String::len|Iterator::position)$')


def check_loop_errors(F, R10):
    """An Err out of process_file_context makes the connection loop break: the socket is dropped without closing handshake and
    every later command stays unanswered.  That is right when the peer is gone (a websocket write failed: propagated by `?`)
    or the extraction of the opened archive failed.  Any other condition reported that way - "no files found", a full queue -
    turns an ordinary situation into a dead connection after the command was acknowledged."""
    b = F.get('adlt_bin::remote::process_file_context')
    if b is None:
        R10.violation(('anchor-lost', 'process_file_context'), 'process_file_context not found')
        return
    R10.fn(b.path)
    cfg = CFG(b)
    E = ExprBuilder(cfg, fold_named=True)
    n = 0
    for blk in b.blocks:
        if blk.cleanup:
            continue
        for s_ in blk.stmts:
            if s_.k == 'assign' and s_.place.is_local and s_.place.l == 0 and not s_.place.p and s_.rv['k'] == 'agg' and s_.rv.get('variant') == 'Err':
                n += 1
                R10.sites += 1
                ok = False
                for (c, truth, D) in guards.known(cfg, E, blk.i):
                    sc = show(c)
                    if sc.startswith('discr(') and '::poll(' in sc and 'pending_extract' in sc and isinstance(truth, tuple) and truth[0] == 'eq':
                        # the arm must be the error arm of the poll result (variant named Err / Error / Failed)
                        for ap, a in F.adts.items():
                            if ap.endswith('ProgressPoll') and a.get('enum'):
                                vs = a['variants']
                                for i_, v_ in enumerate(vs):
                                    dv = v_.get('d') if v_.get('d') is not None else i_
                                    if dv == truth[1] and re.match(r'^(Err|Error|Failed|Failure)$', v_['n']):
                                        ok = True
                if ok:
                    R10.ok(sample={'err_return_at': b.loc(s_.sp), 'under': 'error arm of the extraction poll'})
                else:
                    R10.violation(('connection-ended-for-a-non-error', b.path), 'process_file_context constructs an Err at %s outside the failed-extraction arm: the connection loop breaks on it, the socket is dropped and later commands get no reply' % b.loc(s_.sp), where=b.loc(s_.sp))
    R10.floor('locally constructed Err returns of process_file_context', n, 1)


def check_window_subtractions(F, R8):
    """The window of a stream is client state: stream_change_window may set it to anything at any time, also below what has been
    collected or sent already.  `window.end - collected` therefore needs a guard on the spot (`collected < end`); computed
    once and counted down, or computed after the window changed, it underflows - a panic in the connection thread after the
    command was acknowledged, so that every later command stays unanswered."""
    import c03
    lib = [b for b in F.order if b.crate in ('lib', 'bin')]

    def window_bound(cfg, o, depth=0):
        """the operand is a window bound itself: a (copy of a) place that goes through the `msgs_to_send` field"""
        if o.place is None:
            return False
        pl = cfg.origin_of_operand(o)
        if pl is None:
            return False
        if any(e['k'] == 'f' and e.get('n') == 'msgs_to_send' for e in pl.p):
            return True
        if not pl.p and depth < 5:
            sd = cfg.single_def(pl.l)
            if sd is not None and sd[1] != 'call' and sd[2].rv['k'] in ('use', 'cast'):
                return window_bound(cfg, Operand(sd[2].rv['o']), depth + 1)
        return False

    def select(b, cfg, blk):
        return any(window_bound(cfg, Operand(o)) for o in blk.term.d['ops'])
    anchor = re.compile(r'^(adlt::utils::remote_utils::|<adlt::utils::remote_utils::|adlt_bin::remote::)')
    c03.check_b3(lib, R8, anchor=anchor, ledger={}, floor_n=0,
                 what='window arithmetic of the remote module', select=select,
                 hint='a window changed below what was collected / sent already panics the connection thread with overflow after the command was acknowledged')
    # the same subtraction spelled with a saturating / checked method is discharged by construction
    for b in lib:
        if not anchor.match(b.path):
            continue
        cfg = None
        for blk in b.calls():
            t = blk.term
            if re.search(r'::(saturating_sub|checked_sub)$', t.callee.path) and len(t.args) == 2:
                cfg = cfg or CFG(b)
                if any(window_bound(cfg, a) for a in t.args):
                    R8.sites += 1
                    R8.fn(b.path)
                    R8.ok(sample={'function': b.path, 'at': b.loc(t.sp), 'subtraction': t.callee.path.split('::')[-1], 'discharged_by': 'saturating / checked by construction'})
    R8.floor('subtractions on a window bound in the remote module', R8.sites, 1)


def check_str_slicing(F, R7):
    """`&text[a..b]` on a str panics when a or b is not a character boundary.  Commands are arbitrary UTF-8, so a byte offset is
    only safe if it was obtained from the text: the position of an ASCII delimiter (find/rfind/char_indices), its len(), or 0.
    A fixed number (`&params[..256]` to shorten a log line) or an offset computed elsewhere hits the middle of a multi-byte
    character for some inputs and kills the connection thread before any reply.  Every str index-by-range in the remote
    module: each bound is the constant 0 or has one of those calls in its data provenance."""
    from prov import Prov, calls_in
    n = 0
    for b in F.order:
        if b.crate != 'bin' or not b.path.startswith('adlt_bin::remote::') or '::tests::' in b.path:
            continue
        cfg = pr = E = None
        for blk in b.calls():
            t = blk.term
            if not (t.callee.path.endswith('Index::index') and len(t.args) > 1 and (t.args[0].ty or '') in ('&str', '&std::string::String', '&mut str') and 'Range' in (t.args[1].ty or '')):
                continue
            cfg = cfg or CFG(b)
            pr = pr or Prov(cfg)
            E = E or ExprBuilder(cfg, fold_named=True)
            n += 1
            R7.sites += 1
            R7.fn(b.path)
            r = E.operand(t.args[1])
            toks = pr.operand(t.args[1], at=blk.i)
            calls = calls_in(toks)
            bounds = list(r[2]) if isinstance(r, tuple) and r[0] == 'agg' else [r]
            consts = [fold_const(x) for x in bounds]
            def from_text(e_, depth=0):
                # 0 | len(text) | len(text) - k | find(..)@Some.0 [+ k] | char_indices item .0
                while isinstance(e_, tuple) and e_[0] == 'cast':
                    e_ = e_[1]
                if fold_const(e_) == 0:
                    return True
                if isinstance(e_, tuple) and e_[0] == 'call' and re.search(r'(str::<impl str>::len|String::len)$', e_[1]):
                    return True
                if isinstance(e_, tuple) and e_[0] == 'bin' and e_[1] in ('Add', 'Sub') and fold_const(e_[3]) is not None and depth < 2:
                    return from_text(e_[2], depth + 1)
                if isinstance(e_, tuple) and e_[0] == 'proj' and isinstance(e_[1], tuple) and e_[1][0] == 'call' and BOUNDARY_SRC.search(e_[1][1]):
                    return True
                if isinstance(e_, tuple) and e_[0] == 'proj' and 'char_indices' in show(e_)[:120] and e_[-1] == '.0':
                    return True
                return False
            if all(from_text(x) for x in bounds):
                R7.ok(sample={'function': b.path, 'slice': show(r)[:80], 'offsets_from': sorted(set(c.split('::')[-1] for c in calls if BOUNDARY_SRC.search(c))) or 'constant 0'})
            else:
                R7.violation(('str-sliced-at-foreign-offset', b.closure_of or b.path), '%s slices a text at %s with %s: an offset that does not come from the text itself (find / char_indices / len) can fall inside a multi-byte character - '
                             'the slice panics and the command gets no reply' % (b.path, b.loc(t.sp), show(r)[:70]), where=b.loc(t.sp))
    R7.ok(sample={'str_slicing_sites': n}) if n == 0 else None
