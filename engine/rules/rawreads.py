"""Single-byte reads of an argument's raw value (`payload_raw[i]`) in the renderer and in the helpers it hands the argument
or its raw slice to.  Shared by C03 B7 (which branches rely on the iterator for the length) and C18 D6 (byte order)."""
import re
from cfg import CFG
from expr import ExprBuilder, show
from facts import Operand
import guards


def raw_pred_for(H, raw_params):
    names = [H.name_of(i) or 'arg%d' % i for i in raw_params]

    def pred(sx, names=names):
        return 'payload_raw' in sx or any(re.search(r'(^|[^A-Za-z0-9_])%s($|[^A-Za-z0-9_])' % re.escape(nm), sx) for nm in names)
    return pred


def helper_calls(F, body, E, in_raw):
    """calls in `body` of crate functions that receive the argument (&DltArg) or its raw slice: [(call block, helper body, predicate
    telling whether an expression of the helper denotes the raw value)]"""
    out = []
    for cb in body.calls():
        t = cb.term
        H = F.get(t.callee.resolved) if t.callee.resolved else F.get(t.callee.path)
        if H is None or H.kind == 'closure' or H.crate != 'lib' or H.path == body.path:
            continue
        raw_params = []
        arg_params = []
        for i, a in enumerate(t.args):
            ty = a.ty or ''
            if ty in ('&[u8]', '&std::vec::Vec<u8>') and in_raw(show(E.operand(a))):
                raw_params.append(i + 1)
            elif re.match(r"&(mut )?adlt::dlt::DltArg<", ty):
                arg_params.append(i + 1)
        if raw_params or arg_params:
            out.append((cb, H, raw_pred_for(H, raw_params) if raw_params else (lambda sx: 'payload_raw' in sx)))
    return out


def byte_reads(body, E, in_raw):
    """blocks of `body` whose terminator is the bounds check of a single-element read of the raw value"""
    for blk in body.blocks:
        if blk.cleanup or blk.term.k != 'assert' or blk.term.d['ak'] != 'BoundsCheck':
            continue
        if in_raw(show(E.operand(Operand(blk.term.d['ops'][0])))):
            yield blk


def has_own_len_guard(cfg, E, at, in_raw, region=None):
    for (c, truth, D) in guards.known(cfg, E, at):
        if region is not None and D not in region:
            continue
        sc = show(c)
        if in_raw(sc) and re.search(r'(len\(|PtrMetadata\(|is_empty\()', sc):
            return True
    return False


def unguarded_reads(F, body, cfg, E, in_raw, region=None, depth=0):
    """single-byte reads of the raw value (in `region` of body, and in helpers called from it) that are not behind a length test
    of their own: [(body, block)]"""
    out = []
    for blk in byte_reads(body, E, in_raw):
        if region is not None and blk.i not in region:
            continue
        if not has_own_len_guard(cfg, E, blk.i, in_raw, region):
            out.append((body, blk))
    if depth < 2:
        for (cb, H, pred) in helper_calls(F, body, E, in_raw):
            if region is not None and cb.i not in region:
                continue
            if has_own_len_guard(cfg, E, cb.i, in_raw, region):
                continue
            hcfg = CFG(H)
            hE = ExprBuilder(hcfg, fold_named=True)
            out += unguarded_reads(F, H, hcfg, hE, pred, None, depth + 1)
    return out
