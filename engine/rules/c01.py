"""C01 - DLT framing: complete, faithful recovery of messages between garbage (structural clauses).

Decided: H1 header-layout table agreement of the sibling encoders/decoders and the slice expressions
of the two parse functions; K1/K2 in the message iterator: between two parse attempts either a
message is delivered (consume(n) with bytes_processed += n, index += 1 exactly once, index passed
pre-increment, framing latched) or exactly one byte is skipped (consume(1), bytes_processed += 1,
bytes_skipped += 1) or nothing is consumed; the latch is only set on the Ok edge.
Not decided: the resynchronisation heuristic, exact recovery for all inputs."""
import re
from cfg import CFG
from expr import ExprBuilder, show, walk
from facts import Operand
import pairing, hdrtab
from paths import Explorer

LEVEL = 'proof'
EXPLANATION = ('Table extraction (constant folding over guarded regions) from the five header functions and the two parsers; path counting of consume/counter events between parse attempts in DltMessageIterator::next.')
ASSUMPTIONS = [
    'decides structural clauses only: the marker-based resynchronisation heuristic and exact recovery of all messages for all inputs are NOT decided',
    'BufRead::consume/fill_buf of the reader are the subject of C04',
]
MANIFEST = {'text': 'proof of: reader and writer agree on size, flag bit and order of every optional header part and both parsers slice payload/additional header/consumed bytes with their framing constant; '
                    'the iterator counts exactly what it consumes and skips, numbers only delivered messages, and latches the framing only on success. Added: before any framing is latched every position is tried with the storage parser before the serial parser sees it. Added: the reader tables are computed through constant lookup tables as well (the driver records integer array constants). Added: a parser answers NotEnoughData only under a guard that says the buffer is shorter than the message (N < framing + minimal header, or N < framing + stdh.len), decided on linear forms over the buffer length. Added: DltChar4::from_buf - the constructor of every ECU id / APID / CTID read - stores the four bytes verbatim.'}

IT = 'adlt::utils::dltmessageiterator::DltMessageIterator'


def run(F, chk):
    H1 = chk.rule('H1', 'header layout: size/bit/order of ECU, SEID, TMSP, EXT agree between has_x, std_ext_header_size, to_write, timestamp_dms, ecu and both parsers')
    K1 = chk.rule('K1', 'iterator: every consume(n) is paired with bytes_processed += n on the same segment; nothing is counted without consume')
    K2 = chk.rule('K2', 'iterator: a skip is consume(1) + bytes_skipped += 1; a delivered message increments index once, gets the pre-increment index and latches its framing only on Ok')
    hdrtab.check(F, H1)
    nexts = [b for b in F.order if b.path.startswith('<' + IT) and b.impl_trait == 'std::iter::Iterator' and b.path.endswith('::next')]
    K1.floor('DltMessageIterator::next', len(nexts), 1)
    K3 = chk.rule('K3', 'iterator: a position reaches the serial parser only when serial framing is latched or the storage parser has just been tried at that same position')
    for b in nexts:
        check_iterator(b, K1, K2, K3, F)
    K3.floor('serial parse attempts reached (states)', K3.sites, 1)
    K4 = chk.rule('K4', 'id bytes: DltChar4::from_buf (the constructor every reader uses for ECU id, APID, CTID) stores buf[0..4] verbatim and in order')
    hdrtab.check_id_bytes_verbatim(F, K4)


def check_iterator(b, K1, K2, K3=None, F=None):
    cfg = CFG(b)
    E = ExprBuilder(cfg, fold_named=True)
    K1.fn(b.path)
    K2.fn(b.path)
    parse_blocks = {}
    for blk in b.calls():
        p = blk.term.callee.path
        if re.search(r'::parse_dlt_with_(storage|serial)_header$', p):
            parse_blocks[blk.i] = 'storage' if 'storage' in p else 'serial'
            a0 = show(E.operand(blk.term.args[0]))
            K2.sites += 1
            if a0 == '(*self).index':
                K2.ok(sample={'parser_call': p.split('::')[-1], 'index_argument': 'self.index (pre-increment)'})
            else:
                K2.violation(('index-argument', b.path, parse_blocks[blk.i]), 'the %s parser is called with index %s instead of self.index' % (parse_blocks[blk.i], a0), where=b.loc(blk.term.sp))
    K1.floor('parse attempts in the iterator', len(parse_blocks), 2)

    def field_inc(s, fld, E=E):
        if s.k != 'assign':
            return None
        t = show(E.target(s.place))
        if t != '(*self).' + fld:
            return None
        e = E.rvalue(s.rv)
        if isinstance(e, tuple) and e[0] == 'bin' and e[1] == 'Add' and show(e[2]) == '(*self).' + fld:
            return e[3]
        return ('other',)

    def stmt_event(s, blk, E=E, top=True):
        out = []
        finc = lambda s_, f_: field_inc(s_, f_, E)
        v = finc(s, 'bytes_processed')
        if v is not None:
            out.append('proc_1' if v == ('const', 1) else 'proc_n' if v != ('other',) else 'proc_bad')
            if v not in (('const', 1), ('other',)):
                out.append('procarg:' + show(v))
        v = finc(s, 'bytes_skipped')
        if v is not None:
            out.append('skip_1' if v == ('const', 1) else 'skip_bad')
        v = finc(s, 'index')
        if v is not None:
            out.append('index_1' if v == ('const', 1) else 'index_bad')
        if s.k == 'assign':
            t = show(E.target(s.place))
            if t in ('(*self).detected_storage_header', '(*self).detected_serial_header'):
                val = E.rvalue(s.rv)
                out.append('latch_' + ('storage' if 'storage' in t else 'serial') if val == ('const', 1) else 'latch_bad')
            if top and s.place.is_local and s.place.l == 0 and s.rv['k'] == 'agg':
                out.append('ret_some' if s.rv.get('variant') == 'Some' else 'ret_none')
        return out

    def term_event(t, blk, E=E, top=True):
        if t.k == 'call' and t.callee.path.endswith('BufRead::consume'):
            a = E.operand(t.args[1])
            if a == ('const', 1):
                return ['cons_1']
            return ['cons_n', 'consarg:' + show(a)]
        if top and t.k == 'call' and blk.i in helper_calls:
            return list(helper_calls[blk.i])
        return None

    # private methods of the iterator called with `self` (skip_one_byte(), consume_msg(n), ..): their effect on the counters
    # is summarised (the same events on every path through the method, else the call counts as an irregular update) and
    # replayed at the call site; size arguments are substituted by the caller's argument text
    helper_calls = {}
    if F is not None:
        for blk in b.calls():
            t = blk.term
            H = F.get(t.callee.resolved) if t.callee.resolved else F.get(t.callee.path)
            if H is None or H.kind == 'closure' or H.path == b.path or not (H.impl_self or H.path).startswith(IT) or not t.args or 'DltMessageIterator' not in (t.args[0].ty or ''):
                continue
            hcfg = CFG(H)
            hE = ExprBuilder(hcfg, fold_named=True)
            hx = pairing.explore_counts(hcfg, lambda s_, b_: [e for e in stmt_event(s_, b_, hE, False) if ':' not in e], lambda t_, b_: [e for e in (term_event(t_, b_, hE, False) or []) if ':' not in e])
            finals = set()
            for rb in hcfg.exits:
                for st in hx.out_states.get(rb, ()):
                    finals.add(frozenset(f for f in st[1] if f[0] == 'n'))
            if len(finals) != 1:
                helper_calls[blk.i] = ['proc_bad']
                continue
            evs = []
            for (_n, name, k) in finals.pop():
                evs += [name] * k
            # argument texts: parameter names -> caller's argument expressions
            pmap = {}
            for i, a in enumerate(t.args):
                pmap[H.name_of(i + 1) or 'arg%d' % (i + 1)] = show(E.operand(a))
            for hb in H.blocks:
                if hb.cleanup:
                    continue
                for s_ in hb.stmts:
                    for e in stmt_event(s_, hb, hE, False):
                        if e.startswith('procarg:'):
                            evs.append('procarg:' + pmap.get(e[8:], e[8:]))
                for e in term_event(hb.term, hb, hE, False) or []:
                    if e.startswith('consarg:'):
                        evs.append('consarg:' + pmap.get(e[8:], e[8:]))
            helper_calls[blk.i] = evs

    def reset_at(blk):
        if blk.i in parse_blocks:
            return ALL
        return None
    names = set()
    ALL = ['proc_1', 'proc_n', 'proc_bad', 'skip_1', 'skip_bad', 'index_1', 'index_bad', 'cons_1', 'cons_n', 'latch_storage', 'latch_serial', 'latch_bad', 'ret_some', 'ret_none']

    # segment facts also carry which parser started the segment and the consume/processed argument texts
    def block_effect_extra(blk, facts):
        if blk.i in parse_blocks:
            facts = frozenset([f for f in facts if f[0] not in ('seg', 'txt')] + [('seg', parse_blocks[blk.i])])
        return facts
    def stmt_event2(s, blk):
        return [e for e in (stmt_event(s, blk) or []) if ':' not in e]
    def term_event2(t, blk):
        return [e for e in (term_event(t, blk) or []) if ':' not in e]
    # argument agreement is checked separately (flow-insensitive, per segment kind): collect texts
    cons_args = set()
    proc_args = set()
    for blk in b.blocks:
        if blk.cleanup:
            continue
        for s in blk.stmts:
            for e in stmt_event(s, blk) or []:
                if e.startswith('procarg:'):
                    proc_args.add((blk.i, e[8:]))
        for e in term_event(blk.term, blk) or []:
            if e.startswith('consarg:'):
                cons_args.add((blk.i, e[8:]))
            if e.startswith('procarg:'):
                proc_args.add((blk.i, e[8:]))

    def be(blk, facts):
        names_reset = reset_at(blk)
        if names_reset:
            facts = pairing.reset(facts, names_reset)
        facts = block_effect_extra(blk, facts)
        for s in blk.stmts:
            for nm in stmt_event2(s, blk):
                facts = pairing.bump(facts, nm)
        for nm in term_event2(blk.term, blk):
            facts = pairing.bump(facts, nm)
        return facts
    # the two latch fields decide which parser is tried: their tested values are kept as facts (and contradicting edges are
    # pruned) so that "which parser comes next" is judged on feasible paths only
    LATCH = {'(*self).detected_storage_header': 'dsh', '(*self).detected_serial_header': 'dser'}

    def be_latch(blk, facts):
        facts = be(blk, facts)
        for s in blk.stmts:
            if s.k == 'assign':
                t = show(E.target(s.place))
                if t in LATCH:
                    v = E.rvalue(s.rv)
                    facts = frozenset(f for f in facts if not (f[0] == 'fld' and f[1] == LATCH[t]))
                    if isinstance(v, tuple) and v[0] == 'const' and v[1] in (0, 1):
                        facts = frozenset(facts | {('fld', LATCH[t], bool(v[1]))})
        return facts

    def ee_latch(blk, tgt, facts):
        if blk.term.k != 'switch':
            return facts
        c = E0.switch_cond(blk)
        neg = False
        while isinstance(c, tuple) and c[0] == 'un' and c[1] == 'Not':
            c, neg = c[2], not neg
        nm = LATCH.get(show(c))
        if nm is None:
            return facts
        val = None
        for v, t_ in blk.term.d['vals']:
            if t_ == tgt:
                val = bool(v)
        if val is None and blk.term.d['otherwise'] == tgt and [v for v, _ in blk.term.d['vals']] == [0]:
            val = True
        if val is None:
            return facts
        if neg:
            val = not val
        for f in facts:
            if f[0] == 'fld' and f[1] == nm:
                return facts if f[2] == val else None
        return frozenset(facts | {('fld', nm, val)})
    E0 = ExprBuilder(cfg)
    ex = Explorer(cfg, block_effect=be_latch, edge_effect=ee_latch, var_roots=set())
    ex.run()
    K1.paths += ex.n_states
    # checkpoints: entry of each parse block (end of previous segment) and every return
    checkpoints = [(bi, 'next parse attempt') for bi in parse_blocks] + [(rb, 'return') for rb in cfg.exits]
    seen_kinds = set()
    for (bi, what) in checkpoints:
        states = ex.states.get(bi, set()) if what != 'return' else ex.out_states.get(bi, set())
        for st in states:
            f = st[1]
            seg = [x[1] for x in f if x[0] == 'seg']
            if not seg:
                continue
            c = lambda n: pairing.count(f, n)
            bad = c('proc_bad') or c('skip_bad') or c('index_bad') or c('latch_bad')
            msg_ok = (c('cons_n') == 1 and c('proc_n') == 1 and c('index_1') == 1 and c('cons_1') == 0 and c('proc_1') == 0 and c('skip_1') == 0 and c('ret_some') == 1 and
                      c('latch_' + seg[0]) == 1 and c('latch_' + ('serial' if seg[0] == 'storage' else 'storage')) == 0)
            skip_ok = (c('cons_1') == 1 and c('proc_1') == 1 and c('skip_1') == 1 and c('cons_n') == 0 and c('proc_n') == 0 and c('index_1') == 0 and c('ret_some') == 0 and
                       c('latch_storage') == 0 and c('latch_serial') == 0)
            none_ok = all(c(n) == 0 for n in ALL if n != 'ret_none')
            kind = 'message' if msg_ok else 'skip' if skip_ok else 'nothing' if none_ok else None
            if K3 is not None and what == 'next parse attempt' and parse_blocks.get(bi) == 'serial':
                # a position is handed to the serial parser only if serial framing is latched, or the storage parser has just
                # been tried at this very position (nothing consumed since)
                K3.sites += 1
                if ('fld', 'dser', True) in f or (seg[0] == 'storage' and none_ok):
                    K3.ok(sample={'serial_attempt_after': seg[0] + ' parse', 'segment': kind, 'serial_latched': ('fld', 'dser', True) in f})
                else:
                    K3.violation(('position-not-tried-with-storage-parser', b.path, seg[0], kind or 'other'), 'before any framing is detected the iterator can hand a position to the serial parser right after a %s parse attempt followed by {%s}: '
                                 'the storage parser was never tried at that position, so a storage message starting there is skipped over' % (seg[0], ','.join('%s=%d' % (n, c(n)) for n in ALL if c(n)) or 'nothing'),
                                 where=b.loc(None), witness={'block_path': ex.witness(bi, st)[-40:]})
            if kind and not bad:
                seen_kinds.add((seg[0], kind))
                (K1 if kind != 'message' else K2).ok(sample={'segment_after': seg[0] + ' parse', 'ends_at': what, 'kind': kind,
                                                              'consume': 'n' if c('cons_n') else 1 if c('cons_1') else 0, 'processed': 'n' if c('proc_n') else c('proc_1'), 'skipped': c('skip_1'), 'index_inc': c('index_1')})
            else:
                desc = ','.join('%s=%d' % (n, c(n)) for n in ALL if c(n))
                rule = K2 if (c('index_1') or c('ret_some') or c('latch_storage') or c('latch_serial') or c('skip_1') != c('cons_1')) else K1
                rule.violation(('segment', b.path, seg[0], desc), 'between a %s parse attempt and the %s the iterator can do {%s}: not one of {deliver a message, skip one byte, nothing}' % (seg[0], what, desc or 'nothing'),
                               where=b.loc(None), witness={'block_path': ex.witness(bi, ex.out_entry.get((bi, st), st) if what == 'return' else st)[-40:]})
    for need in (('storage', 'message'), ('storage', 'skip'), ('serial', 'message'), ('serial', 'skip')):
        if need not in seen_kinds:
            K1.violation(('segment-kind-missing', b.path, need[0], need[1]), 'no path of kind "%s" after a %s parse attempt (anchor lost)' % (need[1], need[0]))
    # K1 argument agreement: the set of consume(n) argument expressions equals the set of bytes_processed increments
    ca = sorted(set(t for _, t in cons_args))
    pa = sorted(set(t for _, t in proc_args))
    K1.sites += len(cons_args) + len(proc_args)
    ok_args = len(cons_args) == len(proc_args) and ca == pa and all('parse_dlt_with_' in t and ('@Ok.0.0' in t.replace(' ', '') or '.0' in t) for t in ca)
    if ok_args:
        K1.ok(sample={'consume_arguments': [t[:60] + ' ... ' + t[-14:] for t in ca], 'processed_increments': 'identical expressions'})
    else:
        K1.violation(('consume-processed-mismatch', b.path), 'consume(..) arguments %s and bytes_processed increments %s differ (each message must be counted with exactly the size the parser reported)' % ([t[:50] + '..' + t[-14:] for t in ca], [t[:50] + '..' + t[-14:] for t in pa]), where=b.loc(None))
