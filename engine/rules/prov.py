"""P-taint (backward): data provenance of a local inside one function.

origins(local [, at_block]) = set of tokens
   ('call', callee path) ('calldest', callee path, dest type) ('param', name) ('const',)
   ('closure', path) ('fld', owner ADT, field name)
reached by following definitions of the local backwards through assignments, aggregates,
references, casts and call results (a call result derives from the callee and from all its
arguments).  Data flow only: conditions that merely control whether a statement runs do not
contribute.  Flow-sensitive in one respect: a definition in block D is only considered for a use in
block U if U is reachable from D in the CFG (or D == U), so a store that can only happen *after* a
read does not contribute to that read.  Definitions into a projection of a local (field stores) are
considered only for reads whose projection path is compatible (one a prefix of the other)."""
from facts import Operand, Place


def _fpath(place):
    return tuple(e['i'] for e in place.p if e['k'] == 'f')


def _compatible(a, b):
    n = min(len(a), len(b))
    return a[:n] == b[:n]


class Prov:
    def __init__(self, cfg):
        self.cfg = cfg
        self.body = cfg.body
        self._defs_all = None
        self._memo = {}
        self._reach = {}

    def reach(self, b):
        if b not in self._reach:
            self._reach[b] = self.cfg.reachable_from(b)
        return self._reach[b]

    def defs_all(self):
        """local -> list of (kind, Stmt|Term, block index, field path of the defined place)"""
        if self._defs_all is None:
            d = {}
            for b in self.body.blocks:
                if b.cleanup:
                    continue
                for s in b.stmts:
                    if s.k == 'assign':
                        d.setdefault(s.place.l, []).append(('stmt', s, b.i, _fpath(s.place)))
                if b.term.k == 'call':
                    d.setdefault(b.term.dest.l, []).append(('call', b.term, b.i, _fpath(b.term.dest)))
            self._defs_all = d
        return self._defs_all

    def origins(self, l, seen=None, at=None, fpath=()):
        key = (l, at, fpath)
        if key in self._memo:
            return self._memo[key]
        seen = seen if seen is not None else set()
        if (l, at) in seen:
            return set()
        seen.add((l, at))
        body = self.body
        out = set()
        if 1 <= l <= body.arg_count:
            out.add(('param', body.name_of(l) or 'arg%d' % l))
        for kind, d, bi, dpath in self.defs_all().get(l, []):
            if at is not None and bi != at and at not in self.reach(bi):
                continue
            if not _compatible(dpath, fpath):
                continue
            if kind == 'stmt':
                rv = d.rv
                rp = d.rv_place()
                if rp is not None:
                    out |= self.origins(rp.l, seen, bi, _fpath(rp))
                    out |= self.fields(rp)
                for o in d.rv_operands():
                    out |= self._operand_at(o, seen, bi)
                if rv['k'] == 'agg' and rv.get('ak') == 'closure':
                    out.add(('closure', rv['closure']))
            else:
                c = d.callee
                out.add(('call', c.path if c else '<indirect>'))
                out.add(('calldest', c.path if c else '<indirect>', d.dest.t))
                for a in d.args:
                    out |= self._operand_at(a, seen, bi)
        seen.discard((l, at))
        if not seen:
            self._memo[key] = out
        return out

    def fields(self, place):
        """('fld', owner, name) tokens for adlt struct fields read through this place"""
        out = set()
        for e in place.p:
            if e['k'] == 'f' and e.get('o', '').startswith('adlt'):
                out.add(('fld', e['o'], e['n']))
        return out

    def _operand_at(self, o, seen, at):
        if o.is_const:
            return {('const',)}
        if o.place is None:
            return set()
        return self.origins(o.place.l, seen, at, _fpath(o.place)) | self.fields(o.place)

    def operand(self, o, seen=None, at=None):
        """provenance of an operand; `at` = block index of the use (None: flow-insensitive)"""
        return self._operand_at(o, seen if seen is not None else set(), at)


def calls_in(tokens):
    return sorted(t[1] for t in tokens if t[0] == 'call')


def params_in(tokens):
    return sorted(t[1] for t in tokens if t[0] == 'param')
