"""P-taint (backward): data provenance of a local inside one function.

origins(local) = set of tokens ('call', callee path) / ('param', name) / ('const',) reached by following
*all* definitions of the local backwards through assignments, aggregates, references, casts and
call results (a call result derives from the callee and from all its arguments).  Data flow only:
conditions that merely control whether a statement runs do not contribute."""
from facts import Operand, Place


class Prov:
    def __init__(self, cfg):
        self.cfg = cfg
        self.body = cfg.body
        self._defs_all = None
        self._memo = {}

    def defs_all(self):
        """local -> list of ('stmt', Stmt) / ('call', Term) for assignments to the local or any projection of it"""
        if self._defs_all is None:
            d = {}
            for b in self.body.blocks:
                if b.cleanup:
                    continue
                for s in b.stmts:
                    if s.k == 'assign':
                        d.setdefault(s.place.l, []).append(('stmt', s))
                if b.term.k == 'call':
                    d.setdefault(b.term.dest.l, []).append(('call', b.term))
            self._defs_all = d
        return self._defs_all

    def origins(self, l, seen=None):
        if l in self._memo:
            return self._memo[l]
        seen = seen if seen is not None else set()
        if l in seen:
            return set()
        seen.add(l)
        body = self.body
        out = set()
        if 1 <= l <= body.arg_count:
            out.add(('param', body.name_of(l) or 'arg%d' % l))
        for kind, d in self.defs_all().get(l, []):
            if kind == 'stmt':
                rv = d.rv
                ops = d.rv_operands()
                rp = d.rv_place()
                if rp is not None:
                    out |= self.origins(rp.l, seen)
                    for e in rp.p:
                        if e['k'] == 'idx':
                            pass
                for o in ops:
                    out |= self.operand(o, seen)
                if rv['k'] == 'agg' and rv.get('ak') == 'closure':
                    out.add(('closure', rv['closure']))
            else:
                c = d.callee
                out.add(('call', c.path if c else '<indirect>'))
                out.add(('calldest', c.path if c else '<indirect>', d.dest.t))
                for a in d.args:
                    out |= self.operand(a, seen)
        seen.discard(l)
        if len(seen) == 0:
            self._memo[l] = out
        return out

    def operand(self, o, seen=None):
        if o.is_const:
            return {('const',)}
        if o.place is None:
            return set()
        return self.origins(o.place.l, seen if seen is not None else set())


def calls_in(tokens):
    return sorted(t[1] for t in tokens if t[0] == 'call')


def params_in(tokens):
    return sorted(t[1] for t in tokens if t[0] == 'param')
