"""C03 - no input content can crash ingestion and analysis (four crash idioms; NOT general panic-freedom).

Decided (deviance rules + ledger, level other):
  B1 every `slice.get(a..b).unwrap()` on bytes of a message in the library is dominated by a length
     guard that makes the b bytes exist, or (first argument of a message) by the false edge of
     is_verbose() on that message (the non-verbose argument iterator yields exactly 4 bytes first);
  B2 explicit panic!/assert!/unreachable! sites in the library are exactly the reviewed ledger;
  B3 every unsigned subtraction in the lifecycle and sort time code is discharged by a dominating
     guard (with simple implications), a clamp-before-subtract, a self-bounded form (a - a/k), or a
     reviewed ledger entry;
  B4 every allocation whose size derives from integers decoded from message bytes (wider than 16
     bits) is dominated by an upper-bound comparison.
Not decided: general panic-freedom of ingestion (~1200 panic-capable MIR sites need value ranges)."""
import re
from cfg import CFG
from expr import ExprBuilder, show, walk
from facts import Operand, Place
from prov import Prov, calls_in
import guards

LEVEL = 'other'
EXPLANATION = ('Four idiom rules over the library MIR: guard dominance for fixed-size byte reads, a ledger of explicit panics, guard/clamp discharge of unsigned subtractions in time code, '
               'bound dominance for message-sized allocations. The evidence lists the size of the undecided remainder.')
ASSUMPTIONS = [
    'NOT a proof of panic-freedom: only the four named crash idioms are decided; all other panic-capable sites (index, overflow, unwrap elsewhere) are counted in the evidence as undecided',
    'the non-verbose argument iterator yields exactly 4 bytes for the first argument (checked structurally under C18 D2 for the slice, relied upon here)',
]
MANIFEST = {'text': 'decides four recurring crash idioms exactly (which construct, which guard) and keeps a ledger of explicit panics; reports the count of panic-capable sites no rule speaks about so that green is not read as "cannot crash".'
                    ' Added: every integer division has a non-zero divisor (constant, guard, or field invariant over all writers); cursor/remaining-bytes parsers keep both in lockstep and read only behind a fresh `remaining >= size` test. Added: for every combination of type bits the renderer branch that indexes the raw value without its own length test is covered by the class the argument iterator validated the length for (exhaustive over the type bits of the two if-chains). Added: enum-indexed name tables cover the largest discriminant; the iterator\'s progress between two parse attempts is a parsed message or exactly one byte (termination of reading).',
            'technique': 'static analysis: dominating-guard (deviance) rules, explicit-panic ledger, backward provenance for allocation sizes Added: the library changes the lifecycle table only through update / insert / empty (+ refresh), so every key the listers unwrap has a value.'}

UNWRAP = ('std::option::Option::<T>::unwrap', 'std::option::Option::<T>::expect')
GET = re.compile(r'core::slice::<impl \[T\]>::get$')
PANICS = re.compile(r'^(core::panicking::|std::rt::begin_panic|std::rt::panic_fmt|core::panicking::assert_failed)')
LEDGER = {
    # (function, macro): reason
    ('adlt::dlt::DltChar4::from_buf', 'assert_eq!'): 'fixed-width: callers pass constant 4-byte ranges / [u8;4]',
    ('adlt::lifecycle::Lifecycle::merge', 'assert_ne!'): 'internal consistency: a merged (count 0) lifecycle is removed from its ECU list before any further merge',
    ('adlt::lifecycle::parse_lifecycles_buffered_from_stream', 'assert!'): 'internal consistency of buffered_lcs (prev buffered => newer buffered); unconfirmed candidate, no failing stream found',
    ('adlt::lifecycle::get_sorted_lifecycles_as_vec', 'assert_eq!'): 'map key equals the id stored in the value (only this stage inserts)',
    ('<adlt::plugins::export::ExportPlugin as adlt::plugins::plugin::Plugin>::process_msg', 'panic!'): 'reachable exactly when a message is delivered before its lifecycle is published (C06)',
    ('adlt::utils::lowmarkbufreader::LowMarkBufReader::<R>::new', 'assert!'): 'configuration: constructor arguments only (checked for production call sites under C04 M1)',
}
B3_ANCHOR = re.compile(r'^(adlt::lifecycle::|<adlt::lifecycle::|adlt::utils::buffer_sort_messages|adlt::dlt::control_msgs::|adlt::dlt::DltMessage::process_msg_arg_iter)')
B3_LEDGER = {
    ('adlt::lifecycle::Lifecycle::resume_time', 'Add((*self).start_time, (*self).min_timestamp_us)', '_tmp'): 'subtrahend is 0 or start_time - resume_lc.start_time (taken only if resume_lc.start_time < start_time), hence <= start_time <= start_time + min_timestamp_us',
    ('adlt::lifecycle::parse_lifecycles_buffered_from_stream', '(*lc).max_timestamp_us', '(*lc).min_timestamp_us'): 'struct invariant min_timestamp_us <= max_timestamp_us of live lifecycles (new sets both equal, update only lowers min / raises max)',
    ('adlt::utils::buffer_sort_messages::{closure#1}', '(*(*arg1).windows_size_secs)', '1'): 'configuration: window size parameter (callers pass >= 1)',
    ('adlt::utils::buffer_sort_messages::{closure#1}::{closure#2}', '(*(*arg1).windows_size_secs)', '1'): 'configuration: window size parameter (callers pass >= 1)',
}
DECODE = re.compile(r'(from_be_bytes|from_le_bytes|from_ne_bytes|arg_as_uint|arg_as_int|parse_payload_int|str::<impl str>::parse|from_str_radix)$')
ALLOC = re.compile(r'::(with_capacity|with_capacity_and_hasher|reserve|reserve_exact|resize|from_elem|with_capacity_in)$')


def run(F, chk):
    B1 = chk.rule('B1', 'every slice.get(a..b).unwrap() on message bytes is dominated by a length guard or by the non-verbose first-argument idiom')
    B2 = chk.rule('B2', 'explicit panic!/assert!/unreachable! sites in the library are exactly the reviewed ledger')
    B3 = chk.rule('B3', 'unsigned subtractions in lifecycle/sort time code are discharged by guard, clamp, self-bounded form or ledger')
    B4 = chk.rule('B4', 'allocations sized by integers decoded from message bytes (> 16 bit) are dominated by an upper bound')
    lib = [b for b in F.order if b.crate == 'lib']
    check_b1(lib, B1)
    check_b2(lib, B2)
    check_b3(lib, B3)
    check_b4(F, lib, B4)
    B5 = chk.rule('B5', 'every integer division/remainder has a divisor that is a non-zero constant, locally guarded non-zero, or a field all of whose writers store a guarded non-zero value')
    check_b5(F, lib, B5)
    B6 = chk.rule('B6', 'cursor/remaining parsers: cursor advances and remaining-bytes decrements stay in lockstep, and every cursor-relative read is dominated by a fresh `remaining >= size` test')
    check_b6(lib, B6)
    B7 = chk.rule('B7', 'argument type dispatch: for every combination of type bits the branch the renderer takes is covered by the class the argument iterator validated the length for')
    check_dispatch_agreement(F, B7)
    B8 = chk.rule('B8', 'fixed tables indexed by an enum value (`TABLE[kind as usize]`) have more entries than the largest discriminant of that enum')
    check_enum_indexed_tables(F, lib, B8)
    B10 = chk.rule('B10', 'lifecycle table: the library changes the evmap only through update / insert / empty (+ refresh): every key keeps exactly one value or disappears - the listers unwrap get_one() of every key')
    check_table_write_api(F, lib, B10)
    B9 = chk.rule('B9', 'termination of reading: between two parse attempts DltMessageIterator::next consumes exactly a parsed message or exactly one byte (never a computed amount that can be zero)')
    import c01
    from report import RuleResult
    nexts = [x for x in F.order if x.path.startswith('<' + c01.IT) and x.impl_trait == 'std::iter::Iterator' and x.path.endswith('::next')]
    B9.floor('DltMessageIterator::next', len(nexts), 1)
    for x in nexts:
        c01.check_iterator(x, B9, RuleResult('K2', 'not part of C03'), None, F)
    # census of what no rule speaks about
    census = {}
    for b in lib:
        for blk in b.blocks:
            if blk.cleanup:
                continue
            t = blk.term
            if t.k == 'assert':
                census[t.d['ak']] = census.get(t.d['ak'], 0) + 1
            elif t.k == 'call':
                p = t.callee.path
                if p.endswith('::unwrap') or p.endswith('::expect'):
                    census['unwrap/expect'] = census.get('unwrap/expect', 0) + 1
                elif p == 'std::ops::Index::index' or p == 'std::ops::IndexMut::index_mut':
                    census['Index::index'] = census.get('Index::index', 0) + 1
    chk.extra['panic_capable_sites_in_library'] = census
    chk.extra['undecided_remainder_note'] = 'sites listed in panic_capable_sites_in_library that are not B1/B3 instances are NOT decided by this check'


def check_b1(lib, B1):
    n = 0
    for b in lib:
        sites = []
        for blk in b.calls():
            t = blk.term
            if t.callee.path in UNWRAP:
                sites.append(blk)
        if not sites:
            continue
        cfg = None
        for blk in sites:
            cfg = cfg or CFG(b)
            E = ExprBuilder(cfg, fold_named=True)
            recv = E.operand(blk.term.args[0])
            if not (isinstance(recv, tuple) and recv[0] == 'call' and GET.search(recv[1])):
                continue
            base = strip(recv[2][0])
            rng = recv[2][1] if len(recv[2]) > 1 else None
            hi = None
            if isinstance(rng, tuple) and rng[0] == 'agg' and rng[1].endswith('Range::Range'):
                hi = fold(rng[2][1])
            if hi is None:
                continue
            n += 1
            B1.sites += 1
            B1.fn(b.path)
            ok = None
            for (c, truth, D) in guards.known(cfg, E, blk.i):
                if isinstance(c, tuple) and c[0] == 'bin' and truth is True:
                    op, x, y = c[1], c[2], c[3]
                    if is_len_of(x, base) and fold(y) is not None:
                        k = fold(y)
                        if (op == 'Ge' and k >= hi) or (op == 'Gt' and k >= hi - 1) or (op == 'Eq' and k >= hi):
                            ok = 'length guard %s' % show(c)[:70]
                    if is_len_of(y, base) and fold(x) is not None:
                        k = fold(x)
                        if (op == 'Le' and k >= hi) or (op == 'Lt' and k >= hi - 1) or (op == 'Eq' and k >= hi):
                            ok = 'length guard %s' % show(c)[:70]
                if isinstance(c, tuple) and c[0] == 'call' and c[1].endswith('DltMessage::is_verbose') and truth is False and hi <= 4 and first_arg_of(base):
                    ok = 'non-verbose message: first argument has exactly 4 bytes'
            if ok:
                B1.ok(sample={'function': b.path, 'read': show(recv)[:90], 'guard': ok})
            else:
                B1.violation(('unguarded-fixed-read', b.closure_of or b.path, 'get0..%d' % hi),
                             '%s unwraps %s without a guard that makes %d bytes exist (a short first argument, e.g. a verbose control response with a u8 argument, panics here)' % (b.path, show(recv)[:110], hi),
                             where=b.loc(blk.term.sp))
    B1.floor('slice.get(a..b).unwrap() sites in the library', n, 10)


def strip(e):
    while isinstance(e, tuple) and e[0] in ('ref', 'cast'):
        e = e[1]
    if isinstance(e, tuple) and e[0] == 'proj' and all(p == '*' for p in e[2:]):
        return strip(e[1])
    return e


def is_len_of(x, base):
    import comparators
    if not (isinstance(x, tuple) and x[0] == 'call' and x[1].endswith('::len') and x[2]):
        return False
    a = strip(x[2][0])
    return a == base or comparators.norm_place(a) == comparators.norm_place(base)


def first_arg_of(base):
    """base = (first Iterator::next of a DltMessage arg iterator)@Some.0 .payload_raw"""
    s = show(base)
    return 'payload_raw' in s and 'Iterator::next(' in s


def fold(e):
    if not isinstance(e, tuple):
        return None
    if e[0] == 'const':
        return e[1]
    if e[0] == 'cast':
        return fold(e[1])
    if e[0] == 'bin':
        a, b = fold(e[2]), fold(e[3])
        if a is None or b is None:
            return None
        return {'Add': a + b, 'Mul': a * b, 'Sub': a - b, 'Shl': (a << b) if 0 <= b < 64 else None}.get(e[1].replace('WithOverflow', ''))
    return None


def check_b2(lib, B2):
    seen = {}
    for b in lib:
        for blk in b.blocks:
            if blk.cleanup or blk.term.k != 'call':
                continue
            p = blk.term.callee.path
            if not PANICS.match(p):
                continue
            m = blk.term.sp.get('m') if blk.term.sp else None
            mac = (m or ['?'])[-1]
            if mac in ('unwrap', 'expect') or 'format' in mac:
                continue
            key = (b.closure_of or b.path, mac)     # a closure body counts as part of its function (for-loop vs .map(|..| ..))
            if key not in LEDGER:
                # a private helper that is called from exactly one (ledgered) function counts as part of that function
                owner = b.closure_of or b.path
                callers = set((x.closure_of or x.path) for x in lib for cb in x.calls() if cb.term.callee.path == owner)
                if len(callers) == 1 and (list(callers)[0], mac) in LEDGER:
                    key = (list(callers)[0], mac)
            seen.setdefault(key, []).append(b.loc(blk.term.sp))
    B2.sites += sum(len(v) for v in seen.values())
    for key, locs in sorted(seen.items()):
        B2.fn(key[0])
        if key in LEDGER:
            B2.ok(sample={'function': key[0], 'macro': key[1], 'at': locs, 'reviewed_reason': LEDGER[key]})
        else:
            B2.violation(('unreviewed-explicit-panic', key[0], key[1]), 'explicit %s at %s in library code %s is not in the reviewed ledger: someone wrote "cannot happen" about input-processing code' % (key[1], locs, key[0]), where=locs[0])
    B2.floor('explicit panic sites found (ledger entries still present)', len([k for k in seen if k in LEDGER]), 5)


def implies_ge(cond, truth, a, b):
    """does the known condition imply a >= b (unsigned)"""
    # !x.is_empty()  =>  x.len() >= 1
    if isinstance(cond, tuple) and cond[0] == 'call' and cond[1].endswith('::is_empty') and truth is False and cond[2]:
        if isinstance(a, tuple) and a[0] == 'call' and a[1].endswith('::len') and a[2] and strip(a[2][0]) == strip(cond[2][0]):
            kb = fold(b)
            if kb is not None and kb <= 1:
                return True
    if not (isinstance(cond, tuple) and cond[0] == 'bin') or truth is not True:
        return False
    op, x, y = cond[1], cond[2], cond[3]
    if op in ('Le', 'Lt'):
        op, x, y = {'Le': 'Ge', 'Lt': 'Gt'}[op], y, x
    if op not in ('Ge', 'Gt'):
        return False
    if x != a:
        return False
    if y == b:
        return True
    # a >= y and y = b + something (unsigned)  => a >= b
    if isinstance(y, tuple) and y[0] == 'bin' and y[1] == 'Add' and (y[2] == b or y[3] == b):
        return True
    # constants: a > k  => a >= k+1 >= b
    kb, ky = fold(b), fold(y)
    if kb is not None and ky is not None and ((op == 'Gt' and ky + 1 >= kb) or (op == 'Ge' and ky >= kb)):
        return True
    return False


def clamp_before(cfg, E, body, blk, a, b):
    """exists a dominating switch on (b > a) whose true region stores b = a and rejoins before blk"""
    for D in cfg.dominators(blk.i):
        db = body.blocks[D]
        if db.term.k != 'switch':
            continue
        c = E.switch_cond(db)
        c2, t2 = guards.normalise(c, True)
        if not (isinstance(c2, tuple) and c2[0] == 'bin'):
            continue
        op, x, y = c2[1], c2[2], c2[3]
        gt = (op == 'Gt' and x == b and y == a) or (op == 'Lt' and x == a and y == b)
        if not gt:
            continue
        true_t = db.term.d['otherwise'] if [v for v, _ in db.term.d['vals']] == [0] else None
        if true_t is None:
            continue
        region = [x_ for x_ in range(cfg.n) if x_ in cfg.reach and cfg.dominates(true_t, x_)]
        stored = False
        for r in region:
            for s in body.blocks[r].stmts:
                if s.k == 'assign' and E.target(s.place) == b and E.rvalue(s.rv) == a:
                    stored = True
        if stored:
            return 'clamped: if %s { %s = %s }' % (show(c2)[:50], show(b), show(a))
    return None


def ssa_root(cfg, o, depth=0):
    """value identity of an operand: follow single-definition copies / moves / borrows (named or not - pattern bindings of a
    temporary are such copies) back to the local that was actually computed.  Returns a local index or None."""
    if o.place is None or depth > 10:
        return None
    pl = o.place
    if pl.p and not all(e['k'] == 'deref' for e in pl.p):
        return None
    sd = cfg.single_def(pl.l)
    if pl.l <= cfg.body.arg_count or sd is None or sd[1] == 'call':
        return pl.l
    rv = sd[2].rv
    if rv['k'] == 'use':
        nxt = Operand(rv['o'])
        if nxt.place is not None:
            r = ssa_root(cfg, nxt, depth + 1)
            return r if r is not None else pl.l
    if rv['k'] in ('ref', 'rawptr'):
        r = ssa_root(cfg, Operand({'k': 'copy', 'p': rv['p']}), depth + 1)
        return r if r is not None else pl.l
    return pl.l


def mir_known_le(cfg, bi):
    """[(lo operand, hi operand)] comparisons lo <= hi that hold on entry to block bi, read off the MIR of the dominating
    switches (so operands keep their identity even when two locals share a source name)"""
    out = []
    body = cfg.body
    for (D, S, v, allvals) in guards.dominating_edges(cfg, bi):
        t = body.blocks[D].term
        o = Operand(t.d['d'])
        if o.place is None or not o.place.is_local:
            continue
        sd = cfg.single_def(o.place.l)
        if sd is None or sd[1] == 'call' or sd[2].rv['k'] != 'bin':
            continue
        rv = sd[2].rv
        if v is None:
            truth = True if allvals == [0] else None
        else:
            truth = (v != 0)
        if truth is None:
            continue
        A, B = Operand(rv['a']), Operand(rv['b'])
        op = rv['op']
        if not truth:
            op = {'Gt': 'Le', 'Ge': 'Lt', 'Lt': 'Ge', 'Le': 'Gt'}.get(op)
        if op in ('Le', 'Lt'):
            out.append((A, B))
        elif op in ('Ge', 'Gt'):
            out.append((B, A))
    return out


def phi_bounded_ssa(cfg, body, blk):
    """a - b where b is a multi-definition local: every definition is 0, a itself, or a value v with a dominating v <= a,
    decided on value identities (ssa_root) instead of names"""
    a_op, b_op = Operand(blk.term.d['ops'][0]), Operand(blk.term.d['ops'][1])
    ra = ssa_root(cfg, a_op)
    if ra is None or b_op.place is None or not b_op.place.is_local:
        return None
    bl = b_op.place.l
    sd = cfg.single_def(bl)
    if sd is not None and sd[1] != 'call' and sd[2].rv['k'] == 'use' and Operand(sd[2].rv['o']).place is not None and Operand(sd[2].rv['o']).place.is_local:
        bl = Operand(sd[2].rv['o']).place.l     # temp copy of the named local
    defs = cfg.defs.get(bl, [])
    if len(defs) < 2:
        return None
    for (bi, si, d) in defs:
        if si == 'call' or d.rv['k'] != 'use':
            return None
        o = Operand(d.rv['o'])
        if o.is_const:
            if o.value == 0:
                continue
            return None
        r = ssa_root(cfg, o)
        if r is None:
            return None
        if r == ra:
            continue
        if not any(ssa_root(cfg, lo) == r and ssa_root(cfg, hi) == ra for (lo, hi) in mir_known_le(cfg, bi)):
            return None
    return 'every definition of the subtrahend is 0, the minuend itself, or a value with a dominating `value <= minuend` test (value identities)'


def phi_bounded(cfg, E, body, a, b, blk=None):
    """b is a multi-definition local whose every definition is 0 or a value y stored under a <(=) guard y <= a
    (for an unnamed temp: every definition is a constant c and a dominating guard of the subtraction implies a >= c)"""
    if not (isinstance(b, tuple) and b[0] == 'place' and len(b) == 2):
        return None
    m = re.match(r'_(\d+)$', str(b[1]))
    if m and blk is not None:
        l = int(m.group(1))
        defs = cfg.defs.get(l, [])
        consts = []
        for (bi, si, d) in defs:
            if si == 'call':
                return None
            v = fold(E.rvalue(d.rv))
            if v is None:
                return None
            consts.append(v)
        if not consts:
            return None
        mx = max(consts)
        for (c, truth, D) in guards.known(cfg, E, blk.i):
            c2, t2 = guards.normalise(c, truth) if truth in (True, False) else (c, truth)
            if implies_ge(c2, t2, a, ('const', mx)):
                return 'subtrahend is one of the constants %s and %s is guarded to be >= %d' % (sorted(set(consts)), show(a)[:40], mx)
        return None
    ls = body.locals_named(b[1])
    if len(ls) != 1:
        return None
    defs = cfg.defs.get(ls[0], [])
    if not defs:
        return None
    for (bi, si, d) in defs:
        if si == 'call':
            return None
        e = E.rvalue(d.rv)
        if e == ('const', 0) or e == a:
            continue        # b = 0 or b = a itself: a - b cannot underflow
        ok = False
        for (c, truth, D) in guards.known(cfg, E, bi):
            c2, t2 = guards.normalise(c, truth) if truth in (True, False) else (c, truth)
            if implies_ge(c2, t2, a, e):
                ok = True
        if not ok:
            return None
    return 'every definition of %s is 0 or a value guarded to be <= %s' % (b[1], show(a)[:40])


def _is_copy_of(cfg, o, x, bi):
    """operand is local x, or a temp copied from x in the same block bi"""
    if o.place is None or not o.place.is_local:
        return False
    if o.place.l == x:
        return True
    sd = cfg.single_def(o.place.l)
    if sd is None or sd[1] == 'call' or sd[0] != bi or sd[2].rv['k'] != 'use':
        return False
    src = Operand(sd[2].rv['o'])
    return src.place is not None and src.place.is_local and src.place.l == x


def counter_tested_nonzero(cfg, E, body, blk):
    """`x - 1` where x is a plain local counter: discharged when on every path to the subtraction the most recent test of x
    since its last write was `x != 0` (false edge of `x == 0`, true edge of `x != 0` / `x > 0`).  Path exploration with one
    fact that assignments to x kill."""
    from paths import Explorer
    a = Operand(blk.term.d['ops'][0])
    k = fold(E.operand(Operand(blk.term.d['ops'][1])))
    if k != 1 or a.place is None or not a.place.is_local:
        return None
    x = a.place.l
    if body.name_of(x) is None:
        sd = cfg.single_def(x)
        if sd is None or sd[1] == 'call' or sd[2].rv['k'] != 'use':
            return None
        o = Operand(sd[2].rv['o'])
        if o.place is None or not o.place.is_local:
            return None
        x = o.place.l
    writes = set()
    for b2 in body.blocks:
        if b2.cleanup:
            continue
        if any(s.k == 'assign' and s.place.is_local and s.place.l == x for s in b2.stmts):
            writes.add(b2.i)
        if b2.term.k == 'call' and b2.term.dest is not None and b2.term.dest.is_local and b2.term.dest.l == x:
            writes.add(b2.i)
    tests = {}
    for b2 in body.blocks:
        if b2.cleanup or b2.term.k != 'switch':
            continue
        o = Operand(b2.term.d['d'])
        if o.place is None or not o.place.is_local:
            continue
        sd = cfg.single_def(o.place.l)
        if sd is None or sd[1] == 'call' or sd[0] != b2.i or sd[2].rv['k'] != 'bin':
            continue
        rv = sd[2].rv
        oa, ob = Operand(rv['a']), Operand(rv['b'])
        if _is_copy_of(cfg, oa, x, b2.i) and ob.is_const and ob.value == 0 and rv['op'] in ('Eq', 'Ne', 'Gt'):
            tests[b2.i] = rv['op']
    if not tests:
        return None

    def block_effect(b2, facts):
        if b2.i in writes:
            return frozenset(f for f in facts if f != ('nz',))
        return facts

    def edge_effect(b2, tgt, facts):
        op = tests.get(b2.i)
        if op is None:
            return facts
        zero_edge = [t for v, t in b2.term.d['vals'] if v == 0]
        is_false_edge = tgt in zero_edge
        nz = is_false_edge if op == 'Eq' else (not is_false_edge)
        if nz:
            return frozenset(facts | {('nz',)})
        return frozenset(f for f in facts if f != ('nz',))
    ex = Explorer(cfg, block_effect=block_effect, edge_effect=edge_effect, var_roots=set())
    ex.run()
    sts = ex.states.get(blk.i, ())
    if sts and all(('nz',) in st[1] for st in sts):
        return 'counter `%s` was tested non-zero on every path since its last write (%d path states)' % (body.name_of(x) or '_%d' % x, len(sts))
    return None


TABLE_WRITE_OK = re.compile(r'^evmap::WriteHandle::<K, V, M, S>::(update|insert|empty|refresh|flush|publish|reserve|fit_all|pending|is_empty|len|contains_key|get|get_one|read|map_into|enter|clone|set_meta|meta|is_destroyed|deref)$')


def check_table_write_api(F, lib, B10):
    """"computing lifecycles and listing them": every lister (`get_sorted_lifecycles_as_vec`, the start of a further
    detection run on the same table, the remote lifecycle info) does `get_one().unwrap()` for every key of the map.  That is
    sound while every key has a value: `update` replaces the bag by one value, `insert` adds one, `empty` removes the key.
    `clear(k)` keeps the key with an empty bag, `remove_value` / `retain` can empty a bag - the next listing panics."""
    n = 0
    unw = 0
    for b in lib:
        for blk in b.calls():
            p = blk.term.callee.path
            if p.startswith('evmap::WriteHandle::<') and blk.term.args and 'Lifecycle' in (blk.term.args[0].ty or ''):
                n += 1
                B10.sites += 1
                B10.fn(b.path)
                if TABLE_WRITE_OK.match(p):
                    B10.ok(sample={'function': b.path, 'table_call': p.split('::')[-1], 'at': b.loc(blk.term.sp)})
                else:
                    B10.violation(('table-key-may-lose-its-value', b.closure_of or b.path, p.split('::')[-1]), '%s calls %s on the lifecycle table at %s: unlike update / insert / empty it can leave a key without a value, and every lister unwraps get_one() of every key (panic on listing)' %
                                  (b.path, p.split('::')[-1], b.loc(blk.term.sp)), where=b.loc(blk.term.sp))
    B10.floor('write-handle calls on the lifecycle table in the library', n, 4)


def check_b3(lib, B3, anchor=None, ledger=None, floor_n=20, what='lifecycle/sort/control-message/argument-rendering code', select=None,
             hint='a crafted value (timestamp beyond the reception time, zero length, ...) panics with overflow'):
    n = 0
    anchor = anchor or B3_ANCHOR
    B3_LEDGER = globals()['B3_LEDGER'] if ledger is None else ledger
    for b in lib:
        if not anchor.match(b.path):
            continue
        sites = [blk for blk in b.blocks if not blk.cleanup and blk.term.k == 'assert' and blk.term.d['ak'] == 'Overflow(Sub)']
        if not sites:
            continue
        cfg = CFG(b)
        E = ExprBuilder(cfg)
        for blk in sites:
            a, bb = [E.operand(Operand(o)) for o in blk.term.d['ops']]
            if select is not None and not select(b, cfg, blk):
                continue
            n += 1
            B3.sites += 1
            B3.fn(b.path)
            why = None
            for (c, truth, D) in guards.known(cfg, E, blk.i):
                c2, t2 = (guards.normalise(c, truth) if truth in (True, False) else (c, truth))
                if implies_ge(c2, t2, a, bb):
                    why = 'guard ' + show(c2)[:80]
            if why is None and (fold(bb) is not None and fold(bb) <= 1):
                # `if let Some((last, rest)) = v.split_last_mut()` / `while let Some(x) = v.last()`: the Some edge witnesses len >= 1
                EFn = ExprBuilder(cfg, fold_named=True)
                sa = show(EFn.operand(Operand(blk.term.d['ops'][0])))
                mlen = re.match(r'^(?:Vec|slice|VecDeque)::len\((.*)\)$', sa)
                base = re.sub(r'^(&|mut |\(|\*)+', '', mlen.group(1)) if mlen else ''
                while base.endswith(')') and base.count('(') < base.count(')'):
                    base = base[:-1]
                if mlen and len(base) >= 3:
                    for (c, truth, D) in guards.known(cfg, EFn, blk.i):
                        sc = show(c)
                        if sc.startswith('discr(') and re.match(r'^discr\((?:slice|Vec|VecDeque)::(split_last|split_last_mut|split_first|split_first_mut|last|last_mut|first|first_mut|back|front|back_mut|front_mut)\(', sc) \
                                and base in sc and (truth == ('eq', 1) or (isinstance(truth, tuple) and truth[0] == 'ne' and 0 in truth[1])):
                            why = 'non-empty witness: Some edge of %s' % sc[:60]
            if why is None and isinstance(bb, tuple) and bb[0] == 'bin' and bb[1] == 'Div' and bb[2] == a and (fold(bb[3]) or 0) >= 1:
                why = 'self-bounded: a - a/k'
            if why is None:
                why = clamp_before(cfg, E, b, blk, a, bb)
            if why is None:
                why = phi_bounded(cfg, E, b, a, bb, blk)
            if why is None:
                why = phi_bounded_ssa(cfg, b, blk)
            if why is None:
                why = counter_tested_nonzero(cfg, E, b, blk)
            if why is None:
                why = callee_capped(lib, cfg, b, blk)
            if why is None:
                why = caller_guarded(lib, b, a, bb)
            if why is None and isinstance(a, tuple) and isinstance(bb, tuple) and a[0] in ('place', 'proj') and bb[0] in ('place', 'proj') and \
                    a[-1] == '.max_timestamp_us' and bb[-1] == '.min_timestamp_us' and a[:-1] == bb[:-1]:
                # the same struct invariant wherever the two fields of one lifecycle are subtracted
                why = 'ledger: ' + globals()['B3_LEDGER'][('adlt::lifecycle::parse_lifecycles_buffered_from_stream', '(*lc).max_timestamp_us', '(*lc).min_timestamp_us')]
            key = (b.path, re.sub(r'_\d+', '_tmp', show(a)[:60]), re.sub(r'_\d+', '_tmp', show(bb)[:60]))
            if why is None and key in B3_LEDGER:
                why = 'ledger: ' + B3_LEDGER[key]
            if why:
                B3.ok(sample={'function': b.path, 'at': b.loc(blk.term.sp), 'subtraction': '%s - %s' % (show(a)[:50], show(bb)[:50]), 'discharged_by': why})
            else:
                B3.violation(('unguarded-subtraction', b.path, re.sub(r'_\d+', '_tmp', show(a)[:50]), re.sub(r'_\d+', '_tmp', show(bb)[:50])),
                             'unsigned subtraction %s - %s at %s has no dominating guard, clamp or ledger entry: %s' % (show(a)[:60], show(bb)[:60], b.loc(blk.term.sp), hint),
                             where=b.loc(blk.term.sp))
    B3.floor('unsigned subtractions in ' + what, n, floor_n)


def caller_guarded(lib, b, a, bb):
    """`fn helper(x, y, ..) { .. x - y .. }` on two parameters of a private function: discharged if at every call site in the
    library the dominating guards imply arg(x) >= arg(y)"""
    if b.kind == 'closure' or not (isinstance(a, tuple) and a[0] == 'place' and len(a) == 2 and isinstance(bb, tuple) and bb[0] == 'place' and len(bb) == 2):
        return None
    names = {(b.name_of(i) or 'arg%d' % i): i for i in range(1, b.arg_count + 1)}
    if a[1] not in names or bb[1] not in names:
        return None
    # the parameters must not be reassigned inside the helper
    hcfg = CFG(b)
    if hcfg.defs.get(names[a[1]]) or hcfg.defs.get(names[bb[1]]):
        return None
    sites = 0
    for x in lib:
        xcfg = xE = None
        for xb in x.calls():
            if (xb.term.callee.resolved or xb.term.callee.path) != b.path:
                continue
            xcfg = xcfg or CFG(x)
            xE = xE or ExprBuilder(xcfg)
            if len(xb.term.args) < max(names[a[1]], names[bb[1]]):
                return None
            a2 = xE.operand(xb.term.args[names[a[1]] - 1])
            b2 = xE.operand(xb.term.args[names[bb[1]] - 1])
            ok = False
            for (c, truth, D) in guards.known(xcfg, xE, xb.i):
                c2, t2 = (guards.normalise(c, truth) if truth in (True, False) else (c, truth))
                if implies_ge(c2, t2, a2, b2):
                    ok = True
            if not ok:
                return None
            sites += 1
    if sites:
        return 'both operands are parameters; at each of the %d call site(s) a dominating guard implies minuend >= subtrahend' % sites
    return None


def callee_capped(lib, cfg, b, blk):
    """`m.reception_time_us - key_for(&m)`: the subtrahend is the result of a closure / private function of the crate called with
    the message whose reception time is the minuend, and every value that callee returns is that message's reception time or
    guarded `<= reception time` inside the callee"""
    import c10
    E2 = ExprBuilder(cfg, fold_named=True)
    a = E2.operand(Operand(blk.term.d['ops'][0]))
    o = Operand(blk.term.d['ops'][1])
    if o.place is None or not o.place.is_local or o.place.p:
        return None
    l = o.place.l
    for _ in range(3):
        sd = cfg.single_def(l)
        if sd is not None and sd[1] != 'call' and sd[2].rv['k'] == 'use' and Operand(sd[2].rv['o']).place is not None and Operand(sd[2].rv['o']).place.is_local and not Operand(sd[2].rv['o']).place.p:
            l = Operand(sd[2].rv['o']).place.l
    sd = cfg.single_def(l)
    if sd is None or sd[1] != 'call' or not sd[2].callee.resolved:
        return None
    H = next((x for x in lib if x.path == sd[2].callee.resolved), None)
    if H is None or not (isinstance(a, tuple) and a[0] in ('place', 'proj') and a[-1] == '.reception_time_us'):
        return None
    msg = a[:-1]
    passed = False
    for arg in sd[2].args:
        for x in walk(E2.operand(arg)):
            if isinstance(x, tuple) and x and x[0] == 'ref':
                y = x[1]
                while isinstance(y, tuple) and y[0] == 'proj' and len(y) == 2:
                    y = y[1]
                if y == msg:
                    passed = True
    if not passed:
        return None
    hcfg = CFG(H)
    if c10.phi_capped_local(hcfg, ExprBuilder(hcfg, fold_named=True), H, 0):
        return 'the subtrahend is computed by %s from the same message and capped at its reception time there' % H.path.split('::')[-1]
    return None


def message_sized_fields(lib):
    """{(owner ADT, field)}: integer fields (wider than 16 bit) of adlt structs that are stored from values decoded out of
    message bytes - by a field store or as a constructor operand - anywhere in the library.  One level of field taint, so
    that an allocation sized by `self.file_size` in another function than the one that decoded it is still seen."""
    out = {}
    for b in lib:
        hits = []
        for blk in b.blocks:
            if blk.cleanup:
                continue
            for s in blk.stmts:
                if s.k != 'assign':
                    continue
                fl = [e for e in s.place.p if e['k'] == 'f']
                if fl and fl[-1].get('o', '').startswith('adlt') and s.place.p[-1] is fl[-1] and re.search(r'^(u32|u64|usize|i32|i64|isize)$', s.place.t or ''):
                    hits.append((blk, s, fl[-1]['o'], fl[-1]['n'], s.rv_operands()))
                elif s.rv['k'] == 'agg' and s.rv.get('ak') == 'adt' and (s.rv.get('adt') or '').startswith('adlt') and s.rv.get('fields'):
                    for nm, o in zip(s.rv['fields'], s.rv['ops']):
                        oo = Operand(o)
                        if re.search(r'^(u32|u64|usize|i32|i64|isize)$', oo.ty or ''):
                            hits.append((blk, s, s.rv['adt'], nm, [oo]))
        if not hits:
            continue
        pr = Prov(CFG(b))
        for (blk, s, owner, nm, ops) in hits:
            toks = set()
            for o in ops:
                toks |= pr.operand(o, at=blk.i)
            dec = [c for c in calls_in(toks) if DECODE.search(c)]
            wide = any(tk[0] == 'calldest' and DECODE.search(tk[1]) and (re.search(r'\b(u32|u64|i32|i64|usize|isize|u128|i128)\b', tk[2]) or not re.search(r'\b(u8|i8|u16|i16)\b', tk[2])) for tk in toks)
            if dec and wide:
                out.setdefault((owner, nm), b.loc(s.sp))
    return out


def check_b4(F, lib, B4):
    n = 0
    tainted = message_sized_fields(lib)
    B4.notes.append('message-sized fields: %s' % sorted('%s.%s' % (o.split('::')[-1], f) for (o, f) in tainted))
    # allocations sized by a parameter of a crate function (`FileTransfer::new_started(.., prealloc_size)`): the size is judged
    # at every call site of that function, with the argument passed for the parameter
    work = []
    for b in lib:
        for blk in b.calls():
            if ALLOC.search(blk.term.callee.path):
                work.append((b, blk, [a for a in blk.term.args if (a.ty or '') in ('usize', 'u64', 'u32')], blk.term))
    seen_param_sites = set()
    ctx = {}
    while work:
        (b, blk, size_args, t) = work.pop(0)
        if True:
            if b.path not in ctx:
                cfg_ = CFG(b)
                ctx[b.path] = (cfg_, Prov(cfg_), ExprBuilder(cfg_, fold_named=True))
            cfg, pr, E = ctx[b.path]
            if not size_args:
                continue
            toks = set()
            for a in size_args:
                toks |= pr.operand(a, at=blk.i)
            dec = [c for c in calls_in(toks) if DECODE.search(c)]
            fld = [tk for tk in toks if tk[0] == 'fld' and (tk[1], tk[2]) in tainted]
            if not dec and not fld:
                if b.kind != 'closure':
                    # bounded right here (clamped inside the helper)?  then the callers only decide whether the site is message-sized
                    size_txt_h = ' '.join(show(E.operand(a)) for a in size_args)
                    bounded_here = 'cmp::min(' in size_txt_h or 'Ord::min(' in size_txt_h or any(re.search(r'(cmp::min|Ord::min|::clamp)$', c) for c in calls_in(toks))
                    if bounded_here:
                        msg_sized = False
                        for tk in toks:
                            if tk[0] != 'param':
                                continue
                            pi = [i for i in range(1, b.arg_count + 1) if (b.name_of(i) or 'arg%d' % i) == tk[1]]
                            for x in lib:
                                for xb in x.calls():
                                    if pi and (xb.term.callee.resolved or xb.term.callee.path) == b.path and len(xb.term.args) >= pi[0]:
                                        if x.path not in ctx:
                                            cfg_ = CFG(x)
                                            ctx[x.path] = (cfg_, Prov(cfg_), ExprBuilder(cfg_, fold_named=True))
                                        xt = ctx[x.path][1].operand(xb.term.args[pi[0] - 1], at=xb.i)
                                        if any(DECODE.search(c) for c in calls_in(xt)) or any(tk2[0] == 'fld' and (tk2[1], tk2[2]) in tainted for tk2 in xt):
                                            msg_sized = True
                        if msg_sized and (b.path, blk.i) not in seen_param_sites:
                            seen_param_sites.add((b.path, blk.i))
                            n += 1
                            B4.sites += 1
                            B4.fn(b.path)
                            B4.ok(sample={'function': b.path, 'alloc_at': b.loc(blk.term.sp), 'size': size_txt_h[:80], 'bound': 'clamped with min() inside the helper; callers pass message-sized values'})
                        continue
                    for tk in toks:
                        if tk[0] == 'param':
                            pi = [i for i in range(1, b.arg_count + 1) if (b.name_of(i) or 'arg%d' % i) == tk[1]]
                            if not pi or not re.search(r'^(usize|u64|u32)$', b.lty(pi[0])):
                                continue
                            for x in lib:
                                for xb in x.calls():
                                    if (xb.term.callee.resolved or xb.term.callee.path) == b.path and len(xb.term.args) >= pi[0] and (x.path, xb.i, pi[0]) not in seen_param_sites:
                                        seen_param_sites.add((x.path, xb.i, pi[0]))
                                        work.append((x, xb, [xb.term.args[pi[0] - 1]], t))
                continue
            # widths of the decode results inside the provenance slice of the size
            wide = bool(fld)
            dec = dec + ['field %s.%s (stored from message bytes at %s)' % (tk[1].split('::')[-1], tk[2], tainted[(tk[1], tk[2])]) for tk in fld]
            for tk in toks:
                if tk[0] == 'calldest' and DECODE.search(tk[1]):
                    ty = tk[2]
                    if re.search(r'\b(u32|u64|i32|i64|usize|isize|u128|i128)\b', ty) or not re.search(r'\b(u8|i8|u16|i16)\b', ty):
                        wide = True
            if not wide:
                continue
            n += 1
            B4.sites += 1
            B4.fn(b.path)
            bound = None
            size_txt = ' '.join(show(E.operand(a)) for a in size_args)
            if 'cmp::min(' in size_txt or 'Ord::min(' in size_txt or any(re.search(r'(cmp::min|Ord::min|::clamp)$', c) for c in calls_in(toks)):
                bound = 'size expression is clamped with min()'
            for (c, truth, D) in guards.known(cfg, E, blk.i):
                if truth is True and isinstance(c, tuple) and c[0] == 'bin' and c[1] in ('Lt', 'Le') and fold(c[3]) is not None and fold(c[3]) > 0 and fold(c[2]) is None:
                    bound = 'upper bound ' + show(c)[:80]
                if truth is True and isinstance(c, tuple) and c[0] == 'bin' and c[1] in ('Gt', 'Ge') and fold(c[2]) is not None and fold(c[2]) > 0 and fold(c[3]) is None:
                    bound = 'upper bound ' + show(c)[:80]
            if bound:
                B4.ok(sample={'function': b.path, 'alloc_at': b.loc(t.sp), 'size': size_txt[:80], 'bound': bound})
            else:
                B4.violation(('unbounded-message-sized-allocation', b.closure_of or b.path, t.callee.path.split('::')[-1]),
                             '%s at %s allocates %s which derives from integers decoded from message bytes (%s) without a dominating upper bound: one crafted message requests an arbitrary amount of memory / overflows the capacity' %
                             (t.callee.path, b.loc(t.sp), size_txt[:100], ', '.join(sorted(set(d.split('::')[-1] for d in dec)))), where=b.loc(t.sp))
    B4.floor('message-sized allocation sites', n, 1)


# ---------------------------------------------------------------------------------------------
# B5: divisors

def _strip_casts(e):
    while isinstance(e, tuple) and e[0] == 'cast':
        e = e[1]
    return e


def _nonzero_known(known, val):
    """does one of the known conditions imply `val` != 0 ?  (val compared modulo casts)"""
    sv = show(_strip_casts(val))
    from c11 import const_eval
    for (c, truth, D) in known:
        if not (isinstance(c, tuple) and c[0] == 'bin' and truth is True):
            continue
        a, bb = show(_strip_casts(c[2])), show(_strip_casts(c[3]))
        ka, kb = const_eval(c[2]), const_eval(c[3])
        if c[1] == 'Ne' and ((a == sv and kb == 0) or (bb == sv and ka == 0)):
            return show(c)
        if c[1] == 'Gt' and a == sv and kb is not None and kb >= 0:
            return show(c)
        if c[1] == 'Ge' and a == sv and kb is not None and kb >= 1:
            return show(c)
        if c[1] == 'Lt' and bb == sv and ka is not None and ka >= 0:
            return show(c)
        if c[1] == 'Le' and bb == sv and ka is not None and ka >= 1:
            return show(c)
    return None


def _field_behind(cfg, op, depth=0):
    """(owner ADT, field name, field index) if the operand is (a cast/copy of) a field of an adlt struct"""
    if op.place is None or depth > 6:
        return None
    fl = [e for e in op.place.p if e['k'] == 'f' and e.get('o', '').startswith('adlt')]
    if fl:
        return (fl[-1]['o'], fl[-1]['n'], fl[-1]['i'])
    if not op.place.is_local:
        return None
    sd = cfg.single_def(op.place.l)
    if sd is None or sd[1] == 'call':
        return None
    rv = sd[2].rv
    if rv['k'] in ('use', 'cast'):
        return _field_behind(cfg, Operand(rv['o']), depth + 1)
    return None


def check_b5(F, lib, B5):
    """Integer division/remainder panics on a zero divisor in every build profile.  Every `/` and `%` of the library
    (MIR Assert DivisionByZero/RemainderByZero) must have a divisor that is a non-zero constant, or is locally guarded
    non-zero, or is a struct field whose every writer (constructor aggregate or field store, anywhere in the library)
    is dominated by a guard that the stored value is non-zero."""
    from c11 import const_eval
    n = 0
    writers_cache = {}
    for b in lib:
        sites = [blk for blk in b.blocks if not blk.cleanup and blk.term.k == 'assert' and blk.term.d['ak'] in ('DivisionByZero', 'RemainderByZero')]
        if not sites:
            continue
        cfg = CFG(b)
        E = ExprBuilder(cfg, fold_named=True)
        for blk in sites:
            n += 1
            B5.sites += 1
            B5.fn(b.path)
            c = E.operand(Operand(blk.term.d['cond']))
            if not (isinstance(c, tuple) and c[0] == 'bin' and c[1] == 'Eq'):
                B5.violation(('divisor-shape', b.path), 'cannot identify the divisor of the division at %s (%s)' % (b.loc(blk.term.sp), show(c)[:80]), where=b.loc(blk.term.sp))
                continue
            div = c[2]
            v = const_eval(div)
            if v is not None and v != 0:
                B5.ok(sample={'at': b.loc(blk.term.sp), 'divisor': v, 'how': 'non-zero constant'})
                continue
            g = _nonzero_known(guards.known(cfg, E, blk.i), div)
            if g:
                B5.ok(sample={'at': b.loc(blk.term.sp), 'divisor': show(div)[:60], 'how': 'dominating guard ' + g[:80]})
                continue
            # field invariant
            sd = cfg.single_def(Operand(blk.term.d['cond']).place.l) if Operand(blk.term.d['cond']).place is not None else None
            fld = None
            if sd is not None and sd[1] != 'call' and sd[2].rv['k'] == 'bin':
                fld = _field_behind(cfg, Operand(sd[2].rv['a']))
            if fld is None:
                B5.violation(('divisor-unguarded', b.path, show(_strip_casts(div))[-40:]), 'division at %s: the divisor %s is neither a non-zero constant nor guarded non-zero' % (b.loc(blk.term.sp), show(div)[:100]),
                             where=b.loc(blk.term.sp))
                continue
            owner, name, idx = fld
            if (owner, name) not in writers_cache:
                writers_cache[(owner, name)] = field_writers(lib, owner, name, idx)
            ws = writers_cache[(owner, name)]
            bad = [w for w in ws if not w[2]]
            if ws and not bad:
                B5.ok(sample={'at': b.loc(blk.term.sp), 'divisor': '%s.%s' % (owner.split('::')[-1], name), 'how': 'field invariant: all %d writers store a value guarded non-zero' % len(ws),
                              'writers': [w[0] for w in ws][:4]})
            elif not ws:
                B5.violation(('divisor-field-no-writer', owner, name), 'division at %s by field %s.%s for which no writer was found' % (b.loc(blk.term.sp), owner, name), where=b.loc(blk.term.sp))
            else:
                B5.violation(('divisor-field-may-be-zero', owner, name, b.path),
                             'division at %s by %s.%s: the value stored into that field at %s (%s) is not guarded non-zero there, and the division has no guard of its own: a zero panics (division by zero)' %
                             (b.loc(blk.term.sp), owner.split('::')[-1], name, bad[0][0], bad[0][1][:60]), where=b.loc(blk.term.sp))
    B5.floor('integer divisions/remainders in the library', n, 25)


def field_writers(lib, owner, name, idx):
    """[(loc, value text, guard text or None)] for every aggregate constructing `owner` and every store into owner.name"""
    out = []
    for b in lib:
        hits = []
        for blk in b.blocks:
            if blk.cleanup:
                continue
            for s in blk.stmts:
                if s.k != 'assign':
                    continue
                rv = s.rv
                if rv['k'] == 'agg' and rv.get('ak') == 'adt' and rv.get('adt') == owner and len(rv['ops']) > idx:
                    hits.append((blk, s, Operand(rv['ops'][idx])))
                else:
                    fl = [e for e in s.place.p if e['k'] == 'f']
                    if fl and fl[-1].get('o') == owner and fl[-1]['n'] == name and s.place.p[-1] is fl[-1] and rv['k'] in ('use', 'cast'):
                        hits.append((blk, s, Operand(rv['o'])))
        if not hits:
            continue
        cfg = CFG(b)
        E = ExprBuilder(cfg, fold_named=True)
        from c11 import const_eval
        for (blk, s, op) in hits:
            val = E.operand(op)
            v = const_eval(val)
            if v is not None and v != 0:
                out.append((b.loc(s.sp), show(val), 'constant %d' % v))
                continue
            out.append((b.loc(s.sp), show(val), _nonzero_known(guards.known(cfg, E, blk.i), val)))
    return out


# ---------------------------------------------------------------------------------------------
# B6: cursor / remaining-bytes lockstep

INT_WIDTH = {'u8': 1, 'i8': 1, 'u16': 2, 'i16': 2, 'u32': 4, 'i32': 4, 'u64': 8, 'i64': 8}


def _lin(e, cname):
    """decompose an index expression as  cursor*k + const + other : returns (k in {0,1}, const, other text or None) or None"""
    if isinstance(e, tuple) and e[0] == 'cast':
        return _lin(e[1], cname)
    v = fold(e)
    if v is not None:
        return (0, v, None)
    if e == ('place', cname):
        return (1, 0, None)
    if isinstance(e, tuple) and e[0] == 'bin' and e[1] == 'Add':
        a, b = _lin(e[2], cname), _lin(e[3], cname)
        if a is None or b is None:
            return None
        if a[2] is not None and b[2] is not None:
            return None
        return (a[0] + b[0], a[1] + b[1], a[2] if a[2] is not None else b[2])
    return (0, 0, show(e))


def find_cursor_pairs(body, cfg, E):
    """(cursor local name, remaining local name, slice text, K): named locals with  cursor = K ; cursor = cursor + _   and
    remaining = len(slice) - K ; remaining = remaining - _   (nothing else stored into them)"""
    cands_c, cands_r = {}, {}
    for l, ds in cfg.defs.items():
        nm = body.name_of(l)
        if nm is None or len(ds) < 2 or len(body.locals_named(nm)) != 1:
            continue
        init = []
        steps = []
        bad = False
        for (bi, si, d) in ds:
            if si == 'call':
                bad = True
                break
            e = E.rvalue(d.rv)
            if isinstance(e, tuple) and e[0] == 'bin' and e[1] in ('Add', 'Sub') and e[2] == ('place', nm):
                steps.append((e[1], e[3], bi))
            else:
                init.append(e)
        if bad or len(init) != 1 or not steps:
            continue
        i0 = init[0]
        if all(op == 'Add' for op, _, _ in steps) and fold(i0) is not None:
            cands_c[nm] = fold(i0)
        if all(op == 'Sub' for op, _, _ in steps):
            if isinstance(i0, tuple) and i0[0] == 'bin' and i0[1] == 'Sub' and is_len_call(i0[2]) and fold(i0[3]) is not None:
                cands_r[nm] = (show(strip(i0[2][2][0])) if i0[2][0] == 'call' else show(i0[2]), fold(i0[3]))
            elif is_len_call(i0):
                cands_r[nm] = (show(strip(i0[2][0])) if i0[0] == 'call' else show(i0), 0)
    out = []
    for c, k in cands_c.items():
        for r, (sl, k2) in cands_r.items():
            if k == k2:
                out.append((c, r, sl, k))
    return out


def is_len_call(e):
    return isinstance(e, tuple) and ((e[0] == 'call' and e[1].endswith('::len') and e[2]) or (e[0] == 'un' and e[1] == 'PtrMetadata'))


def check_b6(lib, B6):
    """Parsers that walk a byte slice with a cursor and a remaining-bytes counter (`offset` / `avail`):
      (a) lockstep: on every path the advances of the cursor and the decrements of the counter cancel (same amounts) whenever
          the counter is tested or the cursor is used to read - so  cursor + remaining == len(slice)  holds there;
      (b) every read of the slice at cursor+a .. cursor+a+L is dominated by a test  remaining >= a+L  with no store to either
          variable between test and read.
    Together: no crafted length field can make the read leave the slice."""
    from paths import Explorer
    import pairing
    n_fn = 0
    n_reads = 0
    for b in lib:
        if not B3_ANCHOR.match(b.path) or b.kind == 'closure':
            continue
        cfg = CFG(b)
        E = ExprBuilder(cfg)
        pairs = find_cursor_pairs(b, cfg, E)
        if not pairs:
            continue
        for (c, r, sl, k) in pairs:
            n_fn += 1
            B6.fn(b.path)
            cl, rl = b.locals_named(c)[0], b.locals_named(r)[0]
            # ---- (a) lockstep
            steps = {}     # block -> list of ('c'|'r', amount text)
            for (bi, si, d) in cfg.defs[cl]:
                e = E.rvalue(d.rv)
                if isinstance(e, tuple) and e[0] == 'bin' and e[1] == 'Add' and e[2] == ('place', c):
                    steps.setdefault(bi, []).append(('c', show(e[3])))
            for (bi, si, d) in cfg.defs[rl]:
                e = E.rvalue(d.rv)
                if isinstance(e, tuple) and e[0] == 'bin' and e[1] == 'Sub' and e[2] == ('place', r):
                    steps.setdefault(bi, []).append(('r', show(e[3])))
            observers = {}
            reads = []
            for blk in b.blocks:
                if blk.cleanup:
                    continue
                t = blk.term
                if t.k == 'switch':
                    sc = E.switch_cond(blk)
                    if any(x == ('place', r) for x in walk(sc)):
                        observers[blk.i] = 'test of `%s`' % r
                if t.k == 'call':
                    p = t.callee.path
                    a0 = show(strip(E.operand(t.args[0]))) if t.args else ''
                    rng = None
                    if (GET.search(p) or re.search(r'::(index|index_mut)$', p)) and len(t.args) > 1 and sl in a0:
                        e = E.operand(t.args[1])
                        if isinstance(e, tuple) and e[0] == 'agg' and e[1].endswith('Range::Range'):
                            rng = (e[2][0], e[2][1], None)
                    elif p.endswith('::parse_payload_int') and len(t.args) >= 3 and sl in show(strip(E.operand(t.args[1]))):
                        m = re.search(r'Option<(\w+)>', t.dest.t or '')
                        w = INT_WIDTH.get(m.group(1)) if m else None
                        rng = (E.operand(t.args[2]), None, w)
                    if rng is not None:
                        lo = _lin(rng[0], c)
                        if lo is not None and lo[0] == 1:
                            observers[blk.i] = 'read at `%s`' % show(rng[0])
                            reads.append((blk, rng, lo))

            def imb_get(facts, key):
                for f in facts:
                    if f[0] == 'imb' and f[1] == key:
                        return f[2]
                return 0

            def imb_set(facts, key, nval):
                rest = [f for f in facts if not (f[0] == 'imb' and f[1] == key)]
                if nval > 0:
                    rest.append(('imb', key, min(nval, 3)))
                return frozenset(rest)

            def block_effect(blk, facts):
                for (w, amt) in steps.get(blk.i, []):
                    other = ('r' if w == 'c' else 'c', amt)
                    if imb_get(facts, other) > 0:
                        facts = imb_set(facts, other, imb_get(facts, other) - 1)
                    else:
                        facts = imb_set(facts, (w, amt), imb_get(facts, (w, amt)) + 1)
                return facts
            ex = Explorer(cfg, block_effect=block_effect, var_roots=set())
            ex.run()
            B6.paths += ex.n_states
            bad = None
            for bi, what in observers.items():
                for st in ex.states.get(bi, ()):
                    imb = [(f[1], f[2]) for f in st[1] if f[0] == 'imb']
                    if imb:
                        bad = (bi, what, imb, st)
                        break
                if bad:
                    break
            B6.sites += len(observers)
            if bad is None:
                B6.ok(sample={'function': b.path, 'cursor': c, 'remaining': r, 'slice': sl, 'initial': '%s = %d, %s = len - %d' % (c, k, r, k), 'observation_sites_balanced': len(observers)})
            else:
                bi, what, imb, st = bad
                B6.violation(('lockstep', b.path, c, r), 'in %s the cursor `%s` and the remaining-bytes counter `%s` are out of step at the %s (%s): unbalanced updates %s on a path - `%s + %s == len` no longer holds, the bound checks on `%s` '
                             'do not protect the reads at `%s`' % (b.path, c, r, what, b.loc(b.blocks[bi].term.sp), imb, c, r, r, c), where=b.loc(b.blocks[bi].term.sp), witness={'block_path': ex.witness(bi, st)[-40:]})
            # ---- (b) guarded reads
            for (blk, rng, lo) in reads:
                n_reads += 1
                a = lo[1]
                if rng[2] is not None:
                    need_const, need_expr = a + rng[2], None
                else:
                    hi = _lin(rng[1], c)
                    if hi is None or hi[0] != 1:
                        B6.violation(('read-shape', b.path, show(rng[1])[:30]), 'cannot relate the upper bound %s of the read at %s to the cursor' % (show(rng[1]), b.loc(blk.term.sp)), where=b.loc(blk.term.sp))
                        continue
                    need_const, need_expr = hi[1], hi[2]
                    if lo[2] is not None:
                        need_const, need_expr = None, None
                ok = None
                for (cnd, truth, D) in guards.known(cfg, E, blk.i):
                    if not (isinstance(cnd, tuple) and cnd[0] == 'bin' and truth is True):
                        continue
                    op, x, y = cnd[1], cnd[2], cnd[3]
                    if op in ('Le', 'Lt'):
                        op, x, y = {'Le': 'Ge', 'Lt': 'Gt'}[op], y, x
                    if op not in ('Ge', 'Gt') or x != ('place', r):
                        continue
                    kk = fold(y)
                    covers = False
                    if need_expr is None and need_const is not None and kk is not None and (kk + (1 if op == 'Gt' else 0)) >= need_const:
                        covers = True
                    if need_expr is not None and need_const == 0 and kk is None and show(_strip_casts(y)) == need_expr:
                        covers = True
                    if not covers:
                        continue
                    tgt = [S for (Dd, S, v, allv) in guards.dominating_edges(cfg, blk.i) if Dd == D]
                    stale = False
                    if tgt:
                        fwd = cfg.reachable_from(tgt[0], avoid={D})
                        for x_ in fwd:
                            if x_ != blk.i and blk.i not in cfg.reachable_from(x_, avoid={D}):
                                continue
                            if x_ in steps and x_ != blk.i:
                                stale = True
                    if not stale:
                        ok = show(cnd)
                        break
                if ok:
                    B6.ok(sample={'read_at': b.loc(blk.term.sp), 'range': '%s + %d .. + %s' % (c, a, need_expr if need_expr else need_const), 'guard': ok})
                else:
                    B6.violation(('read-unguarded', b.path, re.sub(r'_\d+', '_', show(rng[0]))[:30]),
                                 'the read of `%s` at %s (%s + %d, %s bytes) is not dominated by a fresh test `%s >= %s`: a crafted length/count field makes it leave the slice' %
                                 (sl, b.loc(blk.term.sp), c, a, need_expr if need_expr else need_const, r, need_expr if need_expr else need_const), where=b.loc(blk.term.sp))
    B6.floor('cursor/remaining parsers', n_fn, 1)
    B6.floor('cursor-relative reads', n_reads, 4)


# ---------------------------------------------------------------------------------------------
# B7: the renderer and the argument iterator classify a type-info word the same way

def _mask_fold(e):
    if not isinstance(e, tuple):
        return None
    if e[0] == 'const' and isinstance(e[1], int):
        return e[1]
    if e[0] == 'cast':
        return _mask_fold(e[1])
    if e[0] == 'bin' and e[1] == 'BitOr':
        a, b = _mask_fold(e[2]), _mask_fold(e[3])
        return None if a is None or b is None else a | b
    return None


def type_dispatch_chain(body):
    """the if / else-if chain over `type_info & MASK != 0` tests: [(mask, test block, true target, false target)] in
    evaluation order (each test lies in the false region of the previous one)"""
    cfg = CFG(body)
    E = ExprBuilder(cfg, fold_named=True)
    tests = {}
    for blk in body.blocks:
        if blk.cleanup or blk.term.k != 'switch' or [v for v, _ in blk.term.d['vals']] != [0]:
            continue
        c = E.switch_cond(blk)
        if isinstance(c, tuple) and c[0] == 'bin' and c[1] in ('Ne', 'Gt') and c[3] == ('const', 0) and isinstance(c[2], tuple) and c[2][0] == 'bin' and c[2][1] == 'BitAnd' \
                and show(c[2][2]).endswith('type_info'):
            m = _mask_fold(c[2][3])
            if m is not None:
                tests[blk.i] = (m, blk.i, blk.term.d['otherwise'], blk.term.d['vals'][0][1])
    best = []
    for root in tests:
        chain = [tests[root]]
        cur = root
        seen = {root}
        while True:
            f = tests[cur][3]
            cands = [x for x in tests if x not in seen and cfg.dominates(f, x)]
            nxt = [x for x in cands if all(cfg.dominates(x, y) for y in cands)]
            if len(nxt) != 1:
                break
            cur = nxt[0]
            seen.add(cur)
            chain.append(tests[cur])
        if len(chain) > len(best):
            best = chain
    return cfg, best


def check_dispatch_agreement(F, B7):
    """The renderer indexes `payload_raw[0]` for BOOL, matches on the length for integers and floats ... because the iterator has
    validated the length *for that class* (BOOL: exactly one byte, SINT/UINT: at least one, FLOA: at least two, STRG/RAWD:
    any).  A type-info word may carry several type bits (corrupt input, a flipped bit); both sides pick the first branch
    that matches in their own if-chain.  The length the renderer relies on was only established if, for every combination
    of type bits that the iterator lets through, the renderer's branch is covered by the iterator's class.  Decided
    exhaustively over all combinations of the bits that occur in the two chains (finite)."""
    it = [b for b in F.order if (b.impl_self or '').startswith('adlt::dlt::DltMessageArgIterator') and b.impl_trait == 'std::iter::Iterator' and b.path.endswith('::next')]
    rd = F.get('adlt::dlt::DltMessage::process_msg_arg_iter')
    if not it or rd is None:
        B7.violation(('anchor-lost', 'iterator/renderer'), 'DltMessageArgIterator::next or DltMessage::process_msg_arg_iter not found')
        return
    B7.fn(it[0].path)
    B7.fn(rd.path)
    icfg, ichain = type_dispatch_chain(it[0])
    rcfg, rchain = type_dispatch_chain(rd)
    B7.floor('type tests in the dispatch chain of the argument iterator', len(ichain), 3)
    B7.floor('type tests in the dispatch chain of the renderer', len(rchain), 4)
    if len(ichain) < 3 or len(rchain) < 4:
        return

    def produces_item(body, cfg, start):
        for x in cfg.reachable_from(start):
            for s in body.blocks[x].stmts:
                if s.k == 'assign' and s.rv['k'] == 'agg' and s.rv.get('variant') == 'Some':
                    return True
                if s.k == 'assign' and s.rv['k'] == 'agg' and (s.rv.get('adt') or '').endswith('DltArg'):
                    return True
        return False
    iclasses = [(m, produces_item(it[0], icfg, t)) for (m, _b, t, _f) in ichain]
    ielse = produces_item(it[0], icfg, ichain[-1][3])
    rmasks = [m for (m, _b, _t, _f) in rchain]
    # only renderer branches that index the raw value without a length test of their own depend on the iterator's class
    rE = ExprBuilder(rcfg, fold_named=True)
    needs = {}
    for (m, _b, t, _f) in rchain:
        region = set(x for x in range(rcfg.n) if x in rcfg.reach and rcfg.dominates(t, x))
        import rawreads
        need = bool(rawreads.unguarded_reads(F, rd, rcfg, rE, lambda sx: 'payload_raw' in sx, region))
        needs[m] = need
    B7.floor('renderer branches that index the raw value relying on the iterator (BOOL)', sum(1 for v in needs.values() if v), 1)
    bits = sorted(set(1 << i for m in [x[0] for x in iclasses] + rmasks for i in range(32) if m & (1 << i)))
    B7.sites += 1 << len(bits)
    bad = []
    for k in range(1, 1 << len(bits)):
        p = sum(bit for j, bit in enumerate(bits) if k & (1 << j))
        icls = next(((m, prod) for (m, prod) in iclasses if p & m), (0, ielse))
        if not icls[1]:
            continue        # the iterator yields nothing for this word
        r = next((m for m in rmasks if p & m), None)
        if r is None or not needs.get(r):
            continue
        if r & ~icls[0]:
            bad.append((p, icls[0], r))
    if bad:
        p, im, rm = bad[0]
        B7.violation(('dispatch-order', rd.path), 'a type-info word with bits 0x%x is classified by the argument iterator through its `& 0x%x` branch (whose length rule it then applied) but rendered by the `& 0x%x` branch of the renderer, '
                     'which relies on the length rule of its own class (e.g. payload_raw[0] for BOOL): %d such combination(s) - an argument of the wrong length reaches code that indexes it (panic)' % (p, im, rm, len(bad)), where=rd.loc(None))
    else:
        B7.ok(sample={'iterator_order': ['0x%x' % m for (m, _p) in iclasses], 'renderer_order': ['0x%x' % m for m in rmasks], 'combinations_checked': (1 << len(bits)) - 1,
                      'renderer_branches_relying_on_the_iterator': ['0x%x' % m for m, v in needs.items() if v],
                      'each': 'renderer branch covered by the iterator class'})


# ---------------------------------------------------------------------------------------------
# B8: enum-indexed name tables cover the enum

def check_enum_indexed_tables(F, lib, B8):
    """`NW_TYPE_STRS[nt as usize]`: the bounds check of a fixed-size array (constant length N) whose index is the discriminant of an
    enum of the crate cast to an integer.  The enum's values come from message bytes (`from(mtin)`), so every variant is
    reachable: the largest discriminant must be < N.  Adding a variant without extending the table compiles and panics at the
    first such message."""
    n = 0
    for b in lib:
        cfg = E = None
        for blk in b.blocks:
            if blk.cleanup or blk.term.k != 'assert' or blk.term.d['ak'] != 'BoundsCheck':
                continue
            ln, ix = Operand(blk.term.d['ops'][0]), Operand(blk.term.d['ops'][1])
            if not ln.is_const or not isinstance(ln.value, int):
                continue
            cfg = cfg or CFG(b)
            # the index: a cast of discriminant(place of enum type)
            if ix.place is None or not ix.place.is_local:
                continue
            sd = cfg.single_def(ix.place.l)
            enum_ty = None
            hops = 0
            while sd is not None and sd[1] != 'call' and hops < 4:
                rv = sd[2].rv
                if rv['k'] == 'discr':
                    enum_ty = rv['p'].get('t')
                    break
                if rv['k'] in ('cast', 'use') and Operand(rv['o']).place is not None and Operand(rv['o']).place.is_local and not Operand(rv['o']).place.p:
                    sd = cfg.single_def(Operand(rv['o']).place.l)
                    hops += 1
                    continue
                break
            if not enum_ty:
                continue
            adt = F.adts.get(enum_ty.split('<')[0])
            if adt is None or not adt.get('enum'):
                continue
            ds = [v.get('d') for v in adt['variants']]
            if any(d is None for d in ds):
                continue
            n += 1
            B8.sites += 1
            B8.fn(b.path)
            mx = max(ds) if ds else -1
            if mx < ln.value:
                B8.ok(sample={'function': b.path, 'at': b.loc(blk.term.sp), 'table_entries': ln.value, 'enum': enum_ty, 'largest_discriminant': mx})
            else:
                B8.violation(('enum-table-too-short', b.path, enum_ty.split('::')[-1]), '%s indexes a table of %d entries with a value of %s at %s, whose largest discriminant is %d (%s): a message carrying that kind panics with index out of bounds' %
                             (b.path, ln.value, enum_ty, b.loc(blk.term.sp), mx, [v['n'] for v in adt['variants'] if v.get('d') == mx][0]), where=b.loc(blk.term.sp))
    B8.floor('enum-indexed fixed tables in the library', n, 3)
