"""C19 - plugins keep the stream intact; anonymisation keeps its structure (structural clauses).

Decided: E1 per-plugin may-write sets on the message; E2 who-may-write DltMessage.index / .lifecycle;
E3 process_msg of decoders/anonymiser returns constant true, file-transfer returns false only behind
its keep_flda flag; E4 trait signature borrows the message, and the plugin stage forwards every
message except on the false edge of process_msg (linearity of plugins_process_msgs).
Not decided: pseudonym injectivity/capacity, equality of lifecycles on anonymised traces."""
import re
import own, lin, effects, guards
from cfg import CFG
from expr import ExprBuilder, show, walk
from facts import Operand

LEVEL = 'proof'
EXPLANATION = ('Interprocedural may-write analysis of every `impl Plugin` on DltMessage fields (over-approximation), who-may-write tables, '
               'return-value analysis of process_msg, and path-sensitive linearity of the plugin stage.')
ASSUMPTIONS = [
    'decides structural clauses only: pseudonym injectivity/capacity and lifecycle equality on anonymised traces are NOT decided',
    'a `&mut` borrow of a message field counts as a write (over-approximation); external callees receiving &mut DltMessage count as writing everything',
]
MANIFEST = {'text': 'proof (over-approximating effect analysis + all normal paths) of: each plugin writes at most its allowed DltMessage fields (never index, reception time, lifecycle; '
                    'ecu/payload only in the anonymiser; timestamp only in rewrite), only iterators write index and only lifecycle code writes lifecycle, decoders return true, '
                    'file-transfer returns false only behind !keep_flda, and the plugin stage neither drops (except on false), duplicates nor reorders. Added: the pseudonym tables are keyed by the id bytes themselves (no printed / parsed / normalised key). Added: the file-transfer plugin decides the package type on decoded arguments, never on raw payload bytes. Added: of the extended header the anonymiser rewrites only APID and CTID.'}

PLUGIN_TRAIT = 'adlt::plugins::plugin::Plugin'
ALLOWED = {
    'NonVerbosePlugin': {'payload_text', 'extended_header'},
    'SomeipPlugin': {'payload_text'},
    'CanPlugin': {'payload_text'},
    'MuniicPlugin': {'payload_text'},
    'RewritePlugin': {'payload_text', 'timestamp_dms'},
    'FileTransferPlugin': set(),
    'ExportPlugin': set(),
    'AnonymizePlugin': {'ecu', 'extended_header', 'payload'},
}
DEFAULT_ALLOWED = {'payload_text'}
MUST_RETURN_TRUE = ('NonVerbosePlugin', 'SomeipPlugin', 'CanPlugin', 'MuniicPlugin', 'RewritePlugin', 'AnonymizePlugin')
MAY_DROP = ('FileTransferPlugin', 'ExportPlugin')


def plugin_name(body):
    m = re.match(r'<(.+) as adlt::plugins::plugin::Plugin>::process_msg', body.path)
    return m.group(1).split('::')[-1] if m else None


def run(F, chk):
    E1 = chk.rule('E1', 'per-plugin may-write set on DltMessage is within its allowed fields')
    E2 = chk.rule('E2', 'only message sources write DltMessage.index; only lifecycle code writes DltMessage.lifecycle')
    E3 = chk.rule('E3', 'decoders and the anonymiser return constant true; file-transfer returns false only behind !keep_flda')
    E4 = chk.rule('E4', 'Plugin::process_msg only borrows the message; the plugin stage forwards every message except on the false edge of process_msg')
    L2 = chk.rule('L2', 'plugin stage: no clone of a message')
    L7 = chk.rule('L7', 'plugin stage: no lossy container operation / unclassified consumer')

    impls = [b for b in F.order if b.impl_trait == PLUGIN_TRAIT and b.path.endswith('::process_msg')]
    E1.floor('impl Plugin ... process_msg bodies', len(impls), 8)
    eff = effects.get(F)
    for b in impls:
        name = plugin_name(b)
        allowed = ALLOWED.get(name, DEFAULT_ALLOWED)
        effects.check_may_write(F, E1, b.path, allowed, what='plugin %s' % name)
        # E4 signature
        E4.fn(b.path)
        at = b.arg_types()
        if len(at) == 2 and at[1] == '&mut adlt::dlt::DltMessage' and b.ret_type() == 'bool':
            E4.ok(sample={'impl': b.path, 'signature': '(&mut self, &mut DltMessage) -> bool'})
        else:
            E4.violation(('signature', b.path), 'Plugin::process_msg of %s has signature %s -> %s (must only borrow the message)' % (name, at, b.ret_type()), where=b.loc(None))
        check_returns(b, name, E3)
    E3.floor('plugins with constant-true obligation', sum(1 for b in impls if plugin_name(b) in MUST_RETURN_TRUE), 6)

    # E2 who-may-write
    for fld, ok_pred, what in (
        ('index', lambda b: (b.impl_trait == 'std::iter::Iterator' and b.path.endswith('::next') and b.crate == 'lib') or
                            (b.closure_of and '::next' in b.closure_of and b.crate == 'lib'), 'message sources (impl Iterator ... next) in the library'),
        ('lifecycle', lambda b: b.path.startswith('adlt::lifecycle::') or (b.impl_self or '').startswith('adlt::lifecycle::'), 'functions of adlt::lifecycle'),
    ):
        writers = [p for p, d in eff.direct.items() if any(k == fld or k == '*' for k in d)]
        E2.sites += len(writers)
        n_ok = 0
        for p in writers:
            b = F.get(p)
            E2.fn(p)
            if ok_pred(b):
                n_ok += 1
                E2.ok(sample={'field': fld, 'writer': p, 'allowed_because': what})
            else:
                d = eff.direct[p]
                k = fld if fld in d else '*'
                E2.violation(('who-may-write', fld, p), 'DltMessage.%s is written in %s; only %s may do that' % (fld, p, what), where=d[k][0][0])
        E2.floor('writers of DltMessage.%s' % fld, n_ok, 3 if fld == 'index' else 2)

    # E5: pseudonyms are numbered per ECU: every pseudonym written into a message must be data-dependent on the message's ecu
    E5 = chk.rule('E5', 'anonymiser: every APID/CTID pseudonym stored into a message derives (data provenance) from a lookup keyed by the message ECU')
    check_pseudonym_keys(F, E5)
    E8 = chk.rule('E8', 'anonymiser: the number in a new pseudonym is exactly (size of the table it is recorded in) + 1, so no two ids of a table share a pseudonym')
    check_pseudonym_numbers(F, E8)
    E11 = chk.rule('E11', 'anonymiser: of the extended header only APID and CTID are rewritten - the type byte (verbose bit, message type, request / response, log level) and the argument count stay as recorded (lifecycle detection and control-message handling of the anonymised trace read them)')
    check_anonymiser_header_fields(F, E11)
    E10 = chk.rule('E10', 'file-transfer plugin: whether a message is a FLST / FLDA / FLFI package is decided on its decoded arguments (first and last argument from the argument iterator), never on raw payload bytes at computed offsets')
    check_type_test_on_args(F, E10)
    E9 = chk.rule('E9', 'anonymiser: the pseudonym tables are keyed by the original id bytes themselves (no string round trip / normalisation of the key: distinct ids stay distinct)')
    check_table_keys_verbatim(F, E9)
    E6 = chk.rule('E6', 'plugins (rewrite excepted) store a whole extended header into a message only when it has none')
    check_ext_header_only_added(F, E6)
    E7 = chk.rule('E7', 'the file-transfer plugin returns false only for messages whose apid/ctid equal the configured ones (or none is configured)')
    check_removal_only_configured_context(F, E7)

    # plugin stage linearity
    stages = [b for b in F.order if b.crate == 'lib' and b.kind != 'closure' and
              any(t.startswith('std::sync::mpsc::Receiver<adlt::dlt::DltMessage>') for t in b.arg_types()) and
              any('dyn adlt::plugins::plugin::Plugin' in t for t in b.arg_types())]
    E4.floor('plugin stage functions (anchor: Receiver<DltMessage> + Vec<Box<dyn Plugin>> params)', len(stages), 1)
    for b in stages:
        spec = own.OwnSpec(
            allow_drop=[(lambda p, ty: ty == 'adlt::dlt::DltMessage', 'plugin_false', 'a plugin returned false for this message')],
            excuse_edges=[(r'adlt::plugins::plugin::Plugin::process_msg$', 0, 'plugin_false')],
            per_msg_facts=['plugin_false'])
        lin.run_linearity(b, spec, E4, L2, L7, min_recv=1, min_send=1, F=F)
        effects.check_may_write(F, E1, b.path, set().union(*ALLOWED.values()) | DEFAULT_ALLOWED, what='the plugin stage')


def check_anonymiser_header_fields(F, E11):
    """"an anonymised trace has the same structure": which messages are control requests (their timestamps are the logger's and
    are ignored by lifecycle detection), which are responses, verbose or not, how many arguments they carry - all of that
    sits in verb_mstp_mtin and noar.  The anonymiser replaces ids and text; a store into any other field of the extended
    header changes how the anonymised trace is interpreted."""
    import json
    n = 0
    w = 0
    for b in F.order:
        if b.crate != 'lib' or 'plugins::anonymize::' not in b.path or '::tests::' in b.path:
            continue
        E11.fn(b.path)
        for blk in b.blocks:
            if blk.cleanup:
                continue
            for s_ in blk.stmts:
                if s_.k != 'assign':
                    continue
                fl = [e for e in s_.place.p if e['k'] == 'f' and e.get('o') == 'adlt::dlt::DltExtendedHeader']
                if not fl:
                    continue
                w += 1
                E11.sites += 1
                if fl[-1]['n'] in ('apid', 'ctid'):
                    E11.ok(sample={'writes': 'extended_header.' + fl[-1]['n'], 'at': b.loc(s_.sp)})
                else:
                    n += 1
                    E11.violation(('anonymiser-rewrites-header-structure', b.path, fl[-1]['n']), '%s stores into extended_header.%s at %s: message type / request-response role / verbosity / argument count of the anonymised message differ from the original, so lifecycle detection and control-message handling treat it differently' %
                                  (b.path, fl[-1]['n'], b.loc(s_.sp)), where=b.loc(s_.sp))
    E11.floor('stores into the extended header by the anonymiser', w, 2)


def check_type_test_on_args(F, E10):
    """"only file-transfer data packages may be removed": the plugin drops what `is_type(msg, "FLDA")` accepts.  The protocol
    marks a package by its first and its last *argument* being the 4-character tag.  Looking for the tag at the tail of the raw
    payload instead accepts any message whose last argument merely ends with those bytes - an ordinary log line is then taken
    for a data package and removed."""
    import json
    n = 0
    found = False
    for b in F.order:
        if b.crate != 'lib' or not re.search(r'plugins::file_transfer::FileTransferPlugin::is_type$', b.path):
            continue
        found = True
        E10.fn(b.path)
        it = [blk for blk in b.calls() if blk.term.callee.path.endswith('DltMessage::into_iter') or blk.term.callee.path.endswith('IntoIterator::into_iter') or 'DltMessageArgIterator' in (blk.term.dest.t or '')]
        E10.floor('argument iterators in is_type', len(it), 1)
        last = [blk for blk in b.calls() if re.search(r'Iterator::(last|next_back|nth|next)$', blk.term.callee.path)]
        E10.floor('argument accesses (next / last) in is_type', len(last), 2)
        for x in [b] + list(F.closures_of(b.path)):
            for blk in x.blocks:
                if blk.cleanup:
                    continue
                hit = [s_ for s_ in blk.stmts if s_.k == 'assign' and re.search(r'"n": "payload", "o": "adlt::dlt::DltMessage"', json.dumps(s_.d))]
                if blk.term.k == 'call' and any(re.search(r'"n": "payload", "o": "adlt::dlt::DltMessage"', json.dumps(a.d)) for a in blk.term.args):
                    hit.append(blk.term)
                for h in hit:
                    n += 1
                    E10.sites += 1
                    E10.violation(('type-test-on-raw-payload', x.path), '%s reads the raw payload of the message at %s: the package type is a property of the first and last decoded argument, a tag found at a byte offset of the payload can belong to the inside of another argument' %
                                  (x.path, x.loc(h.sp)), where=x.loc(h.sp))
        if n == 0:
            E10.ok(sample={'type_test': b.path, 'decided_on': 'first and last argument of the argument iterator'})
    if not found:
        E10.violation(('anchor-lost', 'FileTransferPlugin::is_type'), 'FileTransferPlugin::is_type not found')


def check_returns(body, name, E3):
    cfg = CFG(body)
    E = ExprBuilder(cfg)
    E3.fn(body.path)
    defs = []
    for b in body.blocks:
        if b.cleanup:
            continue
        for s in b.stmts:
            if s.k == 'assign' and s.place.is_local and s.place.l == 0:
                defs.append((b, E.rvalue(s.rv), s.sp))
        if b.term.k == 'call' and b.term.dest.is_local and b.term.dest.l == 0:
            defs.append((b, ('call', b.term.callee.path, ()), b.term.sp))
    E3.sites += len(defs)
    if name in MUST_RETURN_TRUE:
        bad = [(b, e, sp) for (b, e, sp) in defs if e != ('const', 1)]
        if not bad and defs:
            E3.ok(sample={'plugin': name, 'return_definitions': len(defs), 'all': 'const true'})
        for (b, e, sp) in bad:
            E3.violation(('returns-non-true', body.path, show(e)[:40]), 'process_msg of %s can return %s: a decoding plugin must never remove a message' % (name, show(e)), where=body.loc(sp))
        if not defs:
            E3.violation(('anchor-lost', 'returns', body.path), 'no return definition found in ' + body.path)
    elif name == 'FileTransferPlugin':
        n_false = 0
        for (b, e, sp) in defs:
            if e == ('const', 1):
                continue
            n_false += 1
            ok = False
            if e == ('const', 0):
                for (ce, truth, D) in guards.known(cfg, E, b.i):
                    if truth is False and isinstance(ce, tuple) and ce[0] == 'place' and ce[-1] == '.keep_flda' and ce[1] == 'self':
                        ok = True
            if ok:
                E3.ok(sample={'plugin': name, 'return': 'false', 'guard': 'self.keep_flda == false'})
            else:
                E3.violation(('returns-false-unguarded', body.path, show(e)[:40]), 'file-transfer process_msg returns %s without a dominating !self.keep_flda test' % show(e), where=body.loc(sp))
        E3.floor('guarded `return false` sites in ' + body.path, n_false, 1)
    elif name not in MAY_DROP:
        bad = [(b, e, sp) for (b, e, sp) in defs if e != ('const', 1)]
        for (b, e, sp) in bad:
            E3.violation(('returns-non-true', body.path, show(e)[:40]), 'process_msg of plugin %s (not in the may-drop table) can return %s' % (name, show(e)), where=body.loc(sp))
        if not bad:
            E3.ok(sample={'plugin': name, 'all': 'const true'})


def check_pseudonym_keys(F, E5):
    from prov import Prov
    n = 0
    for b in F.order:
        if not ((b.impl_self or '').startswith('adlt::plugins::anonymize::AnonymizePlugin') or b.path.startswith('adlt::plugins::anonymize::')):
            continue
        sites = []
        for blk in b.blocks:
            if blk.cleanup:
                continue
            for s in blk.stmts:
                if s.k == 'assign':
                    fl = [e for e in s.place.p if e['k'] == 'f']
                    if fl and fl[-1]['n'] in ('apid', 'ctid') and fl[-1].get('o') == 'adlt::dlt::DltExtendedHeader':
                        sites.append((blk, s))
        if not sites:
            continue
        cfg = CFG(b)
        pr = Prov(cfg)
        for (blk, s) in sites:
            n += 1
            E5.sites += 1
            E5.fn(b.path)
            toks = set()
            for o in s.rv_operands():
                toks |= pr.operand(o, at=blk.i)
            ecu = any(t[0] == 'fld' and t[1] == 'adlt::dlt::DltMessage' and t[2] == 'ecu' for t in toks)
            table = any(t[0] == 'fld' and t[2] in ('apid_maps', 'ecu_map') for t in toks)
            if ecu and table:
                E5.ok(sample={'function': b.path, 'store': s.place.show(b), 'at': b.loc(s.sp), 'derives_from': 'per-ECU table lookup keyed by msg.ecu'})
            else:
                E5.violation(('pseudonym-not-keyed-by-ecu', b.path, [e for e in s.place.p if e['k'] == 'f'][-1]['n']),
                             'the pseudonym stored into %s at %s does not derive from a lookup keyed by the message ECU (msg.ecu in provenance: %s, per-ECU table: %s): pseudonyms are numbered per ECU, so equal ids of different ECUs or a stale cache give wrong/duplicate pseudonyms' %
                             (s.place.show(b), b.loc(s.sp), ecu, table), where=b.loc(s.sp))
    E5.floor('pseudonym stores (apid/ctid) in the anonymiser', n, 2)


# ---------------------------------------------------------------------------------------------
# E6: a decoder only adds a missing extended header

def check_ext_header_only_added(F, E6):
    """A plugin may give a message without extended header one (the non-verbose decoder takes it from the FIBEX), but must not
    replace an extended header the message already carries - that would change APID/CTID/type/level/noar of the stream.
    Every store of the whole `extended_header` field of a message inside a plugin (rewrite excepted: it is configured to
    change messages) is dominated by the true edge of `msg.extended_header.is_none()`."""
    n = 0
    for b in F.order:
        if b.crate != 'lib' or not re.search(r'adlt::plugins::', b.path) or '::tests' in b.path or 'plugins::rewrite' in b.path:
            continue
        cfg = None
        for blk in b.blocks:
            if blk.cleanup:
                continue
            for s in blk.stmts:
                if s.k == 'assign' and effects.field_path(s.place) == 'extended_header':
                    cfg = cfg or CFG(b)
                    E = ExprBuilder(cfg, fold_named=True)
                    n += 1
                    E6.sites += 1
                    E6.fn(b.path)
                    ok = False
                    for (c, truth, D) in guards.known(cfg, E, blk.i):
                        sc = show(c)
                        if 'extended_header' in sc and ((sc.startswith('Option::is_none(') and truth is True) or (sc.startswith('Option::is_some(') and truth is False) or
                                                        (sc.startswith('discr(') and truth in (False, ('eq', 0)))):
                            ok = True
                    if ok:
                        E6.ok(sample={'plugin_function': b.path, 'store_at': b.loc(s.sp), 'only_when': 'msg.extended_header.is_none()'})
                    else:
                        E6.violation(('ext-header-replaced', b.closure_of or b.path), '%s stores a whole extended header into the message at %s without a dominating `extended_header.is_none()`: an existing extended header '
                                     '(APID, CTID, message type, level, noar) can be replaced' % (b.path, b.loc(s.sp)), where=b.loc(s.sp))
    E6.floor('stores of a whole extended header in plugins', n, 1)


# ---------------------------------------------------------------------------------------------
# E7: the file-transfer plugin removes only messages of its configured context

def check_removal_only_configured_context(F, E7):
    """FileTransferPlugin::process_msg may return `false` (the message is taken out of the stream) only for a message of the
    configured context: on every path to a `false` return and for each of apid / ctid, either nothing is configured
    (`self.<id>` is None) or the message id was compared with the configured one and found equal.  Path exploration with
    one fact per id, set on the None edge of `self.<id>` and on the equal edge of the comparison."""
    from paths import Explorer
    bs = [x for x in F.order if x.crate == 'lib' and 'FileTransferPlugin' in x.path and x.path.endswith('::process_msg')]
    E7.floor('FileTransferPlugin::process_msg', len(bs), 1)
    for b in bs:
        cfg = CFG(b)
        E = ExprBuilder(cfg, fold_named=True)
        E7.fn(b.path)
        false_rets = [bi for (bi, si, d) in cfg.defs.get(0, []) if not (si != 'call' and d.rv['k'] == 'use' and Operand(d.rv['o']).is_const and Operand(d.rv['o']).value == 1)]
        E7.floor('returns of process_msg that can be `false`', len(false_rets), 1)

        def id_of(sc):
            for x in ('apid', 'ctid'):
                if ('(*self).%s' % x) in sc:
                    return x
            return None

        def edge_effect(blk, tgt, facts):
            if blk.term.k != 'switch':
                return facts
            c = E.switch_cond(blk)
            sc = show(c)
            x = id_of(sc)
            if x is None:
                return facts
            vals = blk.term.d['vals']
            v_edge = [v for v, t in vals if t == tgt]
            oth = blk.term.d['otherwise'] == tgt
            # None edge of discr(self.<id>)
            if sc == 'discr((*self).%s)' % x:
                is_none = (0 in v_edge) or (oth and all(v != 0 for v, _ in vals) and len(vals) == 1 and vals[0][0] == 1)
                if is_none:
                    return frozenset(facts | {('ok', x)})
                return facts
            # comparison with the message id
            if ('DltMessage::%s(' % x) in sc and ('PartialEq::ne(' in sc or 'PartialEq::eq(' in sc):
                truth = None
                if v_edge:
                    truth = (v_edge[0] != 0)
                elif oth and all(v == 0 for v, _ in vals):
                    truth = True
                if truth is not None:
                    equal = (not truth) if 'PartialEq::ne(' in sc else truth
                    if equal:
                        return frozenset(facts | {('ok', x)})
            return facts
        ex = Explorer(cfg, edge_effect=edge_effect, var_roots=set())
        ex.run()
        E7.paths += ex.n_states
        for rb in false_rets:
            E7.sites += 1
            bad = [st for st in ex.states.get(rb, ()) if not (('ok', 'apid') in st[1] and ('ok', 'ctid') in st[1])]
            if bad:
                miss = [x for x in ('apid', 'ctid') if ('ok', x) not in bad[0][1]]
                E7.violation(('removes-foreign-message', b.path, '+'.join(miss)), '%s can return false (remove the message from the stream) at %s on a path where the message %s was not found equal to the configured one '
                             '(and one is configured): data packages of other applications/contexts are swallowed' % (b.path, b.loc(b.blocks[rb].term.sp), '/'.join(miss)), where=b.loc(b.blocks[rb].term.sp),
                             witness={'block_path': ex.witness(rb, bad[0])[-40:]})
            else:
                E7.ok(sample={'false_return_at': b.loc(b.blocks[rb].term.sp), 'only_for': 'messages whose apid and ctid equal the configured ones (or none configured)'})


# ---------------------------------------------------------------------------------------------
# E8: pseudonyms are numbered by table size

def check_pseudonym_numbers(F, E8):
    """"(ECU, APID, CTID) are replaced ... consistently": two different ids of one table must never get the same pseudonym.  The
    anonymiser gets that by construction: a new id receives the number `table.len() + 1` and is then inserted, so the numbers
    handed out are 1, 2, 3, .. without repetition.  Any other number (a counter that skips candidates, a hash, len() alone)
    loses the argument - e.g. skipping numbers "already in use" while looking the candidate up among the *original* ids hands
    the same number out twice.  Every integer formatted into an id (Argument::new_display of a usize that reaches
    DltChar4::from_str) in the anonymiser and its helpers must be the single-definition value `HashMap::len(table) + 1`."""
    n = 0
    for b in F.order:
        if not ((b.impl_self or '').startswith('adlt::plugins::anonymize::') or b.path.startswith('adlt::plugins::anonymize::')) or '::tests' in b.path:
            continue
        cfg = E = None
        makes_id = any(blk.term.callee.path.endswith('FromStr::from_str') and 'DltChar4' in (blk.term.dest.t or '') for blk in b.calls())
        if not makes_id:
            continue
        for blk in b.calls():
            t = blk.term
            if not (t.callee.path.endswith('Argument::<\'_>::new_display') and t.args and (t.args[0].ty or '') in ('&usize', '&u32', '&u64', '&u16')):
                continue
            cfg = cfg or CFG(b)
            E = E or ExprBuilder(cfg, fold_named=True)
            e = E.operand(t.args[0])
            while isinstance(e, tuple) and (e[0] == 'ref' or (e[0] == 'proj' and len(e) == 2)):
                e = e[1]
            se = show(e)
            if 'reception_time' in se or 'timestamp' in se:
                continue      # the payload note, not an id
            n += 1
            E8.sites += 1
            E8.fn(b.path)
            def is_len_plus_1(e_):
                return isinstance(e_, tuple) and e_[0] == 'bin' and e_[1] == 'Add' and e_[3] == ('const', 1) and isinstance(e_[2], tuple) and e_[2][0] == 'call' and re.search(r'HashMap::<K, V, S(, A)?>::len$', e_[2][1]) is not None
            by_callers = False
            if isinstance(e, tuple) and e[0] == 'place' and len(e) == 2 and b.kind != 'closure':
                # helper `fn new_id(prefix, nr: usize)`: the number is a parameter - every caller in the module must pass table.len() + 1
                pi = [i for i in range(1, b.arg_count + 1) if (b.name_of(i) or 'arg%d' % i) == e[1]]
                callers = []
                for x in F.order:
                    if x.path.startswith('adlt::plugins::anonymize::') or (x.impl_self or '').startswith('adlt::plugins::anonymize::'):
                        xcfg = xE = None
                        for xb in x.calls():
                            if (xb.term.callee.resolved or xb.term.callee.path) == b.path:
                                xcfg = xcfg or CFG(x)
                                xE = xE or ExprBuilder(xcfg, fold_named=True)
                                callers.append(xE.operand(xb.term.args[pi[0] - 1]) if pi and len(xb.term.args) >= pi[0] else None)
                by_callers = bool(pi) and bool(callers) and all(is_len_plus_1(c_) for c_ in callers)
            if is_len_plus_1(e) or by_callers:
                E8.ok(sample={'function': b.path, 'pseudonym_number': se[:90], 'at': b.loc(t.sp)})
            else:
                E8.violation(('pseudonym-number-not-table-size', b.path), '%s formats %s into a new pseudonym at %s: not the single value `table.len() + 1` - without that the numbers handed out are no longer guaranteed distinct, two different ids can receive the same pseudonym' %
                             (b.path, se[:70], b.loc(t.sp)), where=b.loc(t.sp))
    E8.floor('numbers formatted into pseudonyms', n, 1)


# ---------------------------------------------------------------------------------------------
# E9: table keys are the ids themselves

KEY_NORMALISE = re.compile(r'(ToString::to_string|fmt::format|Display::fmt|FromStr::from_str|DltChar4::from_str|str::<impl str>::\w+|String::\w+|to_ascii_\w+|from_utf8\w*|Iterator::(map|filter|take_while|collect))$')


def check_table_keys_verbatim(F, E9):
    """Consistency needs the mapping id -> pseudonym to be injective on the ids that occur.  The tables are HashMaps keyed by DltChar4;
    a key that is *derived* from the id (printed and parsed back, trimmed at the first zero byte, case folded) identifies ids
    that differ only in what the derivation drops - e.g. Display turns every non-printable byte into one placeholder.  Every key
    operand of get / get_mut / contains_key / insert / entry / remove on the anonymiser's tables has no string conversion or
    id constructor in its data provenance."""
    from prov import Prov, calls_in
    n = 0
    for b in F.order:
        if not ((b.impl_self or '').startswith('adlt::plugins::anonymize::') or b.path.startswith('adlt::plugins::anonymize::')) or '::tests' in b.path:
            continue
        cfg = pr = None
        for blk in b.calls():
            t = blk.term
            m = re.search(r'HashMap::<K, V, S(, A)?>::(get|get_mut|contains_key|insert|entry|remove)$', t.callee.path)
            if not m or len(t.args) < 2 or 'DltChar4' not in (t.args[0].ty or ''):
                continue
            cfg = cfg or CFG(b)
            pr = pr or Prov(cfg)
            n += 1
            E9.sites += 1
            E9.fn(b.path)
            toks = pr.operand(t.args[1], at=blk.i)
            bad = sorted(set(c for c in calls_in(toks) if KEY_NORMALISE.search(c)))
            # a crate helper that computes the key: its result must be the id itself
            for c in calls_in(toks):
                H = F.get(c)
                if H is not None and H.crate == 'lib' and H.kind != 'closure' and 'DltChar4' in H.ret_type() and H.path.startswith('adlt::plugins::anonymize::'):
                    hp = Prov(CFG(H))
                    bad += sorted(set(c2 for c2 in calls_in(hp.origins(0)) if KEY_NORMALISE.search(c2)))
            if bad:
                E9.violation(('table-key-derived', b.path, m.group(2)), '%s keys a pseudonym table (%s at %s) with a value derived from the id through %s: ids that differ only in what that derivation normalises share one pseudonym' %
                             (b.path, m.group(2), b.loc(t.sp), ', '.join(x.split('::')[-1] for x in bad[:3])), where=b.loc(t.sp))
            else:
                E9.ok(sample={'function': b.path, 'access': m.group(2), 'key': 'id bytes as they are in the message'})
    E9.floor('keyed accesses of the pseudonym tables', n, 6)
