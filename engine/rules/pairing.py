"""Path-counting helper: counts rule-defined events along every normal path (capped), using the
P-path explorer.  Facts ('n', name, k) hold the count k (1..cap) of event `name` on the path;
('last', name) style ordering facts can be derived by the caller through `on_event`."""
from cfg import CFG
from paths import Explorer


def bump(facts, name, cap=2):
    cur = 0
    for f in facts:
        if f[0] == 'n' and f[1] == name:
            cur = f[2]
            break
    new = min(cap, cur + 1)
    if new == cur:
        return facts
    return frozenset([f for f in facts if not (f[0] == 'n' and f[1] == name)] + [('n', name, new)])


def count(facts, name):
    for f in facts:
        if f[0] == 'n' and f[1] == name:
            return f[2]
    return 0


def reset(facts, names):
    return frozenset(f for f in facts if not (f[0] == 'n' and f[1] in names))


def explore_counts(cfg, stmt_event=None, term_event=None, edge_event=None, cap=2, var_roots=(), reset_at=None):
    """stmt_event(stmt, block) -> list of event names; term_event(term, block) -> list of names
    (applied when leaving the block through its terminator); edge_event(block, tgt, facts) -> facts or None.
    reset_at(block) -> list of names to reset when entering the block."""
    def block_effect(b, facts):
        if reset_at is not None:
            names = reset_at(b)
            if names:
                facts = reset(facts, names)
        if stmt_event is not None:
            for s in b.stmts:
                for nm in stmt_event(s, b) or ():
                    facts = bump(facts, nm, cap)
        if term_event is not None:
            for nm in term_event(b.term, b) or ():
                facts = bump(facts, nm, cap)
        return facts
    ex = Explorer(cfg, block_effect=block_effect, edge_effect=edge_event, var_roots=set(var_roots))
    ex.run()
    return ex
