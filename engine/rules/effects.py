"""P-eff: may-write sets on DltMessage fields.

W(body) = fields of adlt::dlt::DltMessage that the body may write: direct stores through a place
that passes a DltMessage field projection, `&mut` borrows of such a place (conservatively a write),
plus W(callee) for every callee that receives a `&mut DltMessage` (resolved local callee; the dyn
call Plugin::process_msg is joined over all impls; an unknown/external callee gives '*'), plus
W(closure) for every closure constructed in the body.  Flow- and message-identity-insensitive
(an over-approximation: sound for 'may write nothing but ...')."""
import re
from facts import Place, Operand

MSG = 'adlt::dlt::DltMessage'
MSG_MUT_REF = '&mut adlt::dlt::DltMessage'
# external callees that take &mut DltMessage without being able to change it in a way that matters
EXTERNAL_OK = ()


def field_path(place):
    """dotted DltMessage field path written by a store to `place`, or None"""
    ps = place.p
    for i, e in enumerate(ps):
        if e['k'] == 'f' and e.get('o', '').startswith(MSG) and e['o'] == MSG:
            names = [e['n']]
            for e2 in ps[i + 1:]:
                if e2['k'] == 'f':
                    if e2.get('o', '').startswith('std::option::Option') or e2['n'].isdigit() and e2.get('o', '').startswith('std::'):
                        continue
                    names.append(e2['n'])
            return '.'.join(names)
    return None


class Effects:
    def __init__(self, F):
        self.F = F
        self.direct = {}     # body path -> {field: [loc...]}
        self.calls = {}      # body path -> list of (callee target or special, loc)
        self.W = {}
        self._plugin_impls = None
        self._scan()
        self._fixpoint()

    def plugin_impls(self):
        if self._plugin_impls is None:
            out = []
            for b in self.F.order:
                if b.impl_trait == 'adlt::plugins::plugin::Plugin' and b.path.endswith('::process_msg'):
                    out.append(b.path)
            self._plugin_impls = out
        return self._plugin_impls

    def _scan(self):
        F = self.F
        for body in F.order:
            direct = {}
            calls = []

            def add(fld, sp, how):
                direct.setdefault(fld, []).append((body.loc(sp), how))
            for b in body.blocks:
                if b.cleanup:
                    continue
                for s in b.stmts:
                    if s.k in ('assign', 'setdiscr'):
                        fp = field_path(s.place)
                        if fp is not None:
                            add(fp, s.sp, 'store')
                        elif s.place.p and s.place.t == MSG and any(e['k'] == 'deref' for e in s.place.p):
                            # *msg = <whole message>
                            add('*', s.sp, 'store-whole')
                    if s.k == 'assign' and s.rv['k'] in ('ref', 'rawptr') and s.rv.get('mut'):
                        fp = field_path(Place(s.rv['p']))
                        if fp is not None:
                            add(fp, s.sp, 'mut-borrow')
                    if s.k == 'assign' and s.rv['k'] == 'agg' and s.rv.get('ak') == 'closure':
                        calls.append((s.rv['closure'], body.loc(s.sp), 'closure'))
                t = b.term
                if t.k == 'call':
                    fp = field_path(t.dest)
                    if fp is not None:
                        add(fp, t.sp, 'call-dest')
                    c = t.callee
                    passes = any((a.ty or '') == MSG_MUT_REF for a in t.args)
                    if passes:
                        if c.path == 'adlt::plugins::plugin::Plugin::process_msg' and (c.is_dyn or not c.resolved or c.resolved == c.path):
                            calls.append(('<plugins>', body.loc(t.sp), 'dyn'))
                        elif c.resolved and F.get(c.resolved) is not None:
                            calls.append((c.resolved, body.loc(t.sp), 'call'))
                        elif F.get(c.path) is not None:
                            calls.append((c.path, body.loc(t.sp), 'call'))
                        elif c.path in ('std::ops::FnMut::call_mut', 'std::ops::Fn::call', 'std::ops::FnOnce::call_once'):
                            # closure call through a generic parameter: the closure is defined by the caller; unknown here
                            calls.append(('<unknown-closure>', body.loc(t.sp), 'closure-call'))
                        elif c.path in EXTERNAL_OK:
                            pass
                        else:
                            calls.append(('<external:%s>' % c.path, body.loc(t.sp), 'external'))
            self.direct[body.path] = direct
            self.calls[body.path] = calls

    def _fixpoint(self):
        W = {p: set(d.keys()) for p, d in self.direct.items()}
        changed = True
        rounds = 0
        while changed:
            changed = False
            rounds += 1
            for p, calls in self.calls.items():
                w = W[p]
                n0 = len(w)
                for (tgt, loc, kind) in calls:
                    if tgt == '<plugins>':
                        for ip in self.plugin_impls():
                            w |= W.get(ip, set())
                    elif tgt.startswith('<external') or tgt == '<unknown-closure>':
                        w.add('*:' + tgt)
                    else:
                        w |= W.get(tgt, set())
                if len(w) != n0:
                    changed = True
        self.W = W
        self.rounds = rounds

    def may_write(self, path):
        return set(self.W.get(path, set()))

    def explain(self, path, fld, depth=0, seen=None):
        """one chain of (function, location) showing why `fld` is in W(path)"""
        seen = seen or set()
        if path in seen or depth > 12:
            return []
        seen.add(path)
        d = self.direct.get(path, {})
        if fld in d:
            return [(path, d[fld][0][0], d[fld][0][1])]
        for (tgt, loc, kind) in self.calls.get(path, []):
            if tgt == '<plugins>':
                for ip in self.plugin_impls():
                    if fld in self.W.get(ip, set()):
                        return [(path, loc, 'dyn Plugin::process_msg')] + self.explain(ip, fld, depth + 1, seen)
            elif tgt.startswith('<'):
                if fld == '*:' + tgt:
                    return [(path, loc, tgt)]
            elif fld in self.W.get(tgt, set()):
                return [(path, loc, kind)] + self.explain(tgt, fld, depth + 1, seen)
        return []


_cache = {}


def get(F):
    k = id(F)
    if k not in _cache:
        _cache[k] = Effects(F)
    return _cache[k]


def check_may_write(F, rule, body_path, allowed, what=None):
    """obligation: W(body) subset of allowed (set of dotted field names; prefixes allowed with trailing '.')"""
    eff = get(F)
    w = eff.may_write(body_path)
    rule.fn(body_path)
    rule.sites += sum(len(v) for v in eff.direct.get(body_path, {}).values()) + len(eff.calls.get(body_path, []))
    bad = []
    for fld in sorted(w):
        ok = fld in allowed or any(a.endswith('.') and fld.startswith(a) for a in allowed) or \
            any(fld.startswith(a + '.') for a in allowed if not a.endswith('.'))
        if not ok:
            bad.append(fld)
    if not bad:
        rule.ok(sample={'function': body_path, 'may_write': sorted(w), 'allowed': sorted(allowed)})
    for fld in bad:
        chain = eff.explain(body_path, fld)
        rule.violation(('may-write', body_path, fld),
                       '%s may write DltMessage.%s (allowed: %s)' % (what or body_path, fld, ', '.join(sorted(allowed)) or 'nothing'),
                       where=chain[-1][1] if chain else None, witness={'chain': chain})
    return w
