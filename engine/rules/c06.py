"""C06 - a message's lifecycle is published before the message is delivered (structural clauses).

Decided: T1 no delivery while the shared table is dirty (update/insert/... without a following
refresh); T2 after an un-buffering that is not part of a merge, no delivery before update + refresh
of the table; T3 the end-of-input phase publishes (update under `buffered_lcs.contains`, then
refresh) before the final flush; T4 the periodic refresh closure leaves the table clean.
Not decided: that *every* lifecycle id carried by a released message was published at some point
(data invariant "not buffered => published"); cross-thread visibility is evmap's contract."""
import re
import lcstage, guards
from paths import Explorer
from facts import Operand
from expr import show
from cfg import CFG

LEVEL = 'proof'
EXPLANATION = ('Typestate automaton over the evmap write handle and the set of buffered lifecycles, run on all normal CFG paths of the lifecycle stage: '
               'every outflow call must happen in state clean / nothing-awaiting-publication.')
ASSUMPTIONS = [
    'decides structural clauses only: "every id carried by a released message was published at some time" additionally needs the data invariant not-buffered => published, which is NOT decided',
    'evmap makes refreshed values visible to all readers (library contract, trusted)',
]
MANIFEST = {'text': 'proof (all normal paths of the stage) of the publication typestate: no message is handed to the outflow while the lifecycle table has unpublished updates, '
                    'and after a lifecycle is confirmed (removed from the buffered set outside a merge) no message is handed over before update+refresh.'
                    ' Added: a message leaves the queue only when its lifecycle is known not to be buffered (hence published), and after a merge no queued message keeps the merged id; the end-of-input publication loop covers every still buffered lifecycle. Added: every message passes Lifecycle::new/update, which store an id on every return path, before it is sent or queued. Added: the table entry written right after an un-buffering is that of the un-buffered lifecycle (same lc, or found by a search for the removed id). Added: P7 (shared with C07) - a published lifecycle is emptied from the table by a merge only when none of its messages was delivered; bulk removals from the queue inside the receive loop (drain / clear) only under buffered_lcs.is_empty(). Added: A3 (shared with C05) - a lifecycle leaves the per-ECU working list only by a merge.'}


def run(F, chk):
    T1 = chk.rule('T1', 'no outflow call while the write handle is dirty (update/insert/... not yet followed by refresh)')
    T2 = chk.rule('T2', 'after an un-buffering outside a merge: update then refresh happen before any outflow call')
    T3 = chk.rule('T3', 'end-of-input: lifecycles still buffered are updated and the table refreshed before the final flush of the queue')
    T4 = chk.rule('T4', 'closures receiving the write handle leave it clean (every update is followed by refresh before return)')
    stages = lcstage.find_stage(F)
    T1.floor('lifecycle stage functions', len(stages), 1)
    # two conditions shared with C05/C07 that are also necessary here: a delivered message must carry the id of a *published*
    # lifecycle, so (Q5) no message of a still buffered lifecycle leaves the queue, and (P3) after a merge no queued message
    # keeps the id of the merged (never or no longer published) lifecycle
    import c05, c07
    Q5 = chk.rule('Q5', 'inside the receive loop a message leaves the queue only when its lifecycle is known not to be buffered (so it has been published)')
    P3 = chk.rule('P3', 'after every merge the whole queue and the current message are relabelled (no delivered message carries the id of an unpublished, merged lifecycle)')
    P7 = chk.rule('P7', 'a possibly confirmed lifecycle is merged away (and emptied from the table) only when all of its messages are still queued: no delivered message is left with an id that was removed from the table (shared with C07)')
    A3 = chk.rule('A3', 'a lifecycle leaves the per-ECU working list only on a path that merged it away in this pass: every publication looks lifecycles up in that list, so one dropped from it while unconfirmed is never published although its messages are delivered (shared with C05)')
    T5 = chk.rule('T5', 'every lifecycle created in the stage is inserted into buffered_lcs or published before the message that created it is queued or delivered')
    A1 = chk.rule('A1', 'every message passes Lifecycle::new/update before it is sent or queued, and both store an id into `lifecycle` on every return path (no message leaves with an id that was never published)')
    for b in stages:
        st0 = lcstage.Stage(F, b)
        c05.check_queue_release(st0, Q5)
        c07.check_relabel(F, st0, P3)
        check_new_lifecycle_registered(st0, T5)
        c07.check_merge_needs_all_queued(st0, P7)
        c05.check_lifecycle_removal(F, st0, A3)
        c05.check_assigned(F, st0, A1)
    T6 = chk.rule('T6', 'the lifecycle written to the table right after an un-buffering is the lifecycle whose id was un-buffered (same `lc` for remove(&lc.id) and update(lc.id, item(lc)), or found by a search for that id)')
    for b in stages:
        check_publication_identity(F, lcstage.Stage(F, b), T6)
    for b in stages:
        check_table_discipline(F, b, T1, T2, T3, T4)


def check_table_discipline(F, b, T1, T2, T3, T4):
    """T1-T4 for one lifecycle stage function (shared with C13: a message delivered before its lifecycle is published makes the
    downstream result depend on the pacing of the stages)"""
    st = lcstage.Stage(F, b)
    cfg = st.cfg
    removes = set(st.blocks_with('LCS_REMOVE'))
    merges = set(st.blocks_with('MERGE'))
    dirty = set(st.blocks_with('W_DIRTY'))
    clean = set(st.blocks_with('W_CLEAN'))
    recvs = set(st.blocks_with('RECV_IN'))
    sends = st.blocks_with('SEND')
    closures = st.blocks_with('W_CLOSURE')
    T1.fn(b.path); T2.fn(b.path); T3.fn(b.path)
    T1.floor('outflow call sites', len(sends), 3)
    T1.floor('refresh sites', len(clean), 2)
    T1.floor('update sites', len(dirty), 2)
    T2.floor('un-buffering sites', len(removes), 3)
    T1.sites += len(sends) + len(dirty) + len(clean)
    unbalanced = set()
    for bi in closures:
        s = st.info[bi]['summary']
        T4.fn(st.info[bi]['closure'])
        if s['balanced']:
            T4.ok(sample={'closure': st.info[bi]['closure'], 'updates': s['dirty'], 'refreshes': s['clean'], 'balanced': True})
        else:
            unbalanced.add(bi)
            T4.violation(('closure-leaves-dirty', st.info[bi]['closure']), 'closure %s can return after an update without refresh' % st.info[bi]['closure'], where=b.loc(b.blocks[bi].term.sp))
    T4.floor('closures operating on the write handle', len(closures), 1)

    def block_effect(blk, facts):
        i = blk.i
        if i in recvs:
            facts = frozenset(f for f in facts if f != ('merged',))
        if i in merges:
            facts = frozenset(facts | {('merged',)})
        if i in removes and ('merged',) not in facts:
            facts = frozenset(facts | {('np_u',), ('dirty',)})
        if i in dirty:
            facts = frozenset((facts - {('np_u',)}) | {('dirty',)})
        if i in clean and ('np_u',) not in facts:
            facts = frozenset(facts - {('dirty',)})
        if i in unbalanced:
            facts = frozenset(facts | {('dirty',)})
        return facts
    # note: block_effect runs for the block's own call too, so at a SEND block we must look at entry states
    ex = Explorer(cfg, block_effect=block_effect, var_roots=set())
    ex.run()
    T1.paths += ex.n_states
    for bi in sends:
        states = ex.states.get(bi, set())
        bad1 = [s for s in states if ('dirty',) in s[1] and ('np_u',) not in s[1]]
        bad2 = [s for s in states if ('np_u',) in s[1]]
        where = b.loc(b.blocks[bi].term.sp)
        kind = st.info[bi].get('src')
        if bad1:
            T1.violation(('send-while-dirty', b.path, kind), 'a message can be handed to the outflow while the lifecycle table has updates that were not refreshed (readers do not see them yet)',
                         where=where, witness={'block_path': ex.witness(bi, bad1[0])[-60:]})
        else:
            T1.ok(sample={'outflow_call': where, 'kind': kind, 'states': len(states), 'table': 'clean on all paths'})
        if bad2:
            T2.violation(('send-before-publication', b.path, kind), 'after a lifecycle was confirmed (removed from the buffered set) a message can be handed to the outflow before update+refresh of the table',
                         where=where, witness={'block_path': ex.witness(bi, bad2[0])[-60:]})
        else:
            T2.ok(sample={'outflow_call': where, 'kind': kind, 'awaiting_publication': False})
    # T3: region between end of input and the final flush
    finals = st.blocks_with('FINAL_NEXT')
    T3.floor('final flush loop (vec_deque::IntoIter::next)', len(finals), 1)
    for fb in finals:
        # blocks that can reach fb but not a RECV_IN  => end-of-input region
        region = set()
        for x in range(cfg.n):
            if x in cfg.reach and fb in cfg.reachable_from(x) and not any(r in cfg.reachable_from(x) for r in recvs):
                region.add(x)
        ups = [d for d in dirty if d in region]
        cls = [c for c in clean if c in region]
        okc = False
        for u in ups:
            E = st.E
            for (e, t, D) in guards.known(cfg, E, u):
                if t is True and isinstance(e, tuple) and e[0] == 'call' and e[1].endswith('::contains'):
                    okc = True
        # the publication loops must look at every lifecycle: they may only be left when the iteration is
        # exhausted or when the counter of lifecycles still to publish reached 0
        loops = cfg.loops()
        bad_exit = None
        n_exits = 0
        for u in ups:
            for hd, lb in loops.items():
                if u not in lb or not lb <= region | lb:
                    continue
                if not all(x in region for x in lb):
                    continue
                for x in lb:
                    for sx in cfg.succ[x]:
                        if sx in lb or b.blocks[sx].term.k == 'unreachable':
                            continue
                        n_exits += 1
                        blkx = b.blocks[x]
                        okx = False
                        if blkx.term.k == 'switch':
                            cx = st.E.switch_cond(blkx)
                            sc = show(cx)
                            if sc.startswith('discr(Iterator::next(') or sc.startswith('discr(IntoIterator'):
                                okx = True
                            if isinstance(cx, tuple) and cx[0] == 'bin' and cx[1] in ('Eq', 'Ne') and ('const', 0) in (cx[2], cx[3]) and \
                                    any(isinstance(y, tuple) and y[0] == 'place' and len(y) == 2 for y in (cx[2], cx[3])):
                                okx = True
                        if not okx:
                            bad_exit = (x, show(st.E.switch_cond(blkx))[:70] if blkx.term.k == 'switch' else blkx.term.k)
        if ups and cls and okc and bad_exit is None:
            T3.ok(sample={'end_of_input_updates': len(ups), 'refreshes': len(cls), 'update_guard': 'buffered_lcs.contains(lc.id)', 'publication_loop_exits': n_exits, 'all_exits': 'iteration exhausted or counter == 0'})
        elif ups and cls and okc:
            T3.violation(('final-publication-loop-exit', b.path), 'the end-of-input publication loop can be left on `%s` at %s before every lifecycle was looked at: a still-buffered older lifecycle behind a confirmed newer one is never published although its queued messages are flushed' %
                         (bad_exit[1], b.loc(b.blocks[bad_exit[0]].term.sp)), where=b.loc(b.blocks[bad_exit[0]].term.sp))
        else:
            T3.violation(('final-publication-missing', b.path), 'between end of input and the final flush there is no update under buffered_lcs.contains(..) followed by refresh (updates=%d refreshes=%d guarded=%s)' % (len(ups), len(cls), okc),
                         where=b.loc(b.blocks[fb].term.sp))


# ---------------------------------------------------------------------------------------------
# T6: what is published after an un-buffering is the un-buffered lifecycle

def check_publication_identity(F, st, T6):
    """Publication before delivery is per lifecycle: removing id X from the buffered set releases the queued messages of X, so
    the table entry written next must be X's.  remove(&lc.id) followed by update(lc.id, new_lifecycle_item(lc)) on the same
    `lc` is that; so is a lifecycle obtained by searching for the removed id (find(|l| l.id == x)).  A lifecycle picked
    otherwise ("the last one of that ECU") publishes another entry and X's messages are delivered with an id no reader sees."""
    from facts import Operand
    b, cfg = st.body, st.cfg
    T6.fn(b.path)
    removes = set(st.blocks_with('LCS_REMOVE'))
    recvs = set(st.blocks_with('RECV_IN'))
    dirty = set(st.blocks_with('W_DIRTY'))

    def origin(op, depth=0):
        """place a key / lifecycle operand denotes: through refs, copies of single-definition locals and tuple temporaries"""
        if op.place is None:
            return None
        pl = cfg.origin_of_operand(op)
        if pl is None:
            return None
        if depth < 6:
            sd = cfg.single_def(pl.l)
            if sd is not None and sd[1] != 'call':
                rv = sd[2].rv
                if not pl.p and rv['k'] in ('use', 'cast'):
                    o = Operand(rv['o'])
                    if o.place is not None:
                        return origin(o, depth + 1)
                if rv['k'] == 'agg' and rv.get('ak') == 'tuple' and len(pl.p) == 1 and pl.p[0]['k'] == 'f' and pl.p[0]['i'] < len(rv['ops']):
                    return origin(Operand(rv['ops'][pl.p[0]['i']]), depth + 1)
        return pl

    def same(p1, p2):
        return p1 is not None and p2 is not None and p1.l == p2.l and [(e['k'], e.get('i')) for e in p1.p] == [(e['k'], e.get('i')) for e in p2.p]

    def found_by_id(lc_pl, key_pl):
        """lc_pl is (inside) the result of Iterator::find / position .. with a closure comparing `.id` with the removed key"""
        sd = cfg.single_def(lc_pl.l)
        seen = 0
        while sd is not None and seen < 6:
            seen += 1
            if sd[1] == 'call':
                t = sd[2]
                p = t.callee.path
                if re.search(r'::(find|rfind|find_map|position|rposition)$', p) or p.endswith('Option::<T>::and_then') or p.endswith('Option::<T>::map'):
                    for a in t.args:
                        if (a.ty or '').startswith('{closure@'):
                            import comparators
                            cl = comparators.closure_path_of(F, b, a)
                            if cl is not None and closure_compares_id(cl):
                                return True
                    # and_then(|lcs| lcs.iter().find(..)): look into the closure
                    for a in t.args:
                        if (a.ty or '').startswith('{closure@'):
                            import comparators
                            cl = comparators.closure_path_of(F, b, a)
                            if cl is not None:
                                for blk in cl.calls():
                                    if re.search(r'::(find|rfind|position|rposition)$', blk.term.callee.path):
                                        for a2 in blk.term.args:
                                            if (a2.ty or '').startswith('{closure@'):
                                                c2 = comparators.closure_path_of(F, cl, a2)
                                                if c2 is not None and closure_compares_id(c2):
                                                    return True
                if t.args and t.args[0].place is not None and (p in cfg.PASS or re.search(r'::(and_then|map|unwrap|expect|as_ref|iter|rev|into_iter)$', p)):
                    o = cfg.origin_of_operand(t.args[0])
                    if o is None or o.l == sd[2].dest.l:
                        return False
                    sd = cfg.single_def(o.l)
                    continue
                return False
            rv = sd[2].rv
            if rv['k'] in ('use', 'cast', 'ref'):
                pl2 = cfg.origin_of_operand(Operand(rv['o'])) if rv['k'] != 'ref' else cfg._resolve_place(__import__('facts').Place(rv['p']))
                if pl2 is None or pl2.l == sd[2].place.l:
                    return False
                sd = cfg.single_def(pl2.l)
                continue
            return False
        return False

    def closure_compares_id(cl):
        for blk in cl.blocks:
            if blk.cleanup:
                continue
            for s_ in blk.stmts:
                if s_.k == 'assign' and s_.rv['k'] == 'bin' and s_.rv['op'] == 'Eq':
                    for side in ('a', 'b'):
                        o = Operand(s_.rv[side])
                        if o.place is not None and any(e['k'] == 'f' and e.get('n') == 'id' and e.get('o') == 'adlt::lifecycle::Lifecycle' for e in o.place.p):
                            return True
                        ccfg = CFG(cl)
                        pl = ccfg.origin_of_operand(o) if o.place is not None else None
                        if pl is not None and any(e['k'] == 'f' and e.get('n') == 'id' and e.get('o') == 'adlt::lifecycle::Lifecycle' for e in pl.p):
                            return True
        return False

    n = 0
    for R in sorted(removes):
        t = b.blocks[R].term
        if len(t.args) < 2 or t.d.get('t') is None:
            continue
        kp = origin(t.args[1])
        region = cfg.reachable_from(t.d['t'], avoid=removes | recvs | dirty)
        firsts = [d for d in dirty if (d == t.d['t'] or any(p_ in region for p_ in cfg.pred[d])) and any(r in cfg.reachable_from(d) for r in recvs)]      # same pass of the receive loop
        for U in sorted(firsts):
            ut = b.blocks[U].term
            what = ut.callee.path.split('::')[-1]
            if what not in ('update', 'insert', 'empty', 'clear', 'remove_entry') or len(ut.args) < 2:
                continue
            n += 1
            T6.sites += 1
            k2 = origin(ut.args[1])
            ok = None
            if same(kp, k2):
                ok = 'same key place'
            elif kp is not None and k2 is not None and k2.p and k2.p[-1].get('n') == 'id' and k2.p[-1].get('o') == 'adlt::lifecycle::Lifecycle':
                import facts as _f
                lc_pl = _f.Place({'l': k2.l, 'p': k2.p[:-1], 't': ''})
                if found_by_id(lc_pl, kp):
                    ok = 'lifecycle found by a search for the removed id'
            if ok:
                T6.ok(sample={'unbuffered_at': b.loc(t.sp), 'table_write': what, 'at': b.loc(ut.sp), 'identity': ok})
            else:
                T6.violation(('published-lifecycle-not-the-confirmed-one', b.path, what), 'the id removed from the buffered set at %s and the table entry written next (%s at %s) are not known to be the same lifecycle '
                             '(neither the same `lc.id`, nor a lifecycle found by searching for that id): the confirmed lifecycle can stay unpublished while its messages are released' % (b.loc(t.sp), what, b.loc(ut.sp)), where=b.loc(ut.sp))
    T6.floor('un-buffering sites followed by a table write', n, 2)


# ---------------------------------------------------------------------------------------------
# T5: a new lifecycle is registered as unconfirmed (or published) before its first message moves on

def check_new_lifecycle_registered(st, T5):
    """Every lifecycle created in the stage (Lifecycle::new) is, on every path, inserted into buffered_lcs (so that its
    messages are held back until it is published) or published (table update) before the message that created it is queued,
    handed to the outflow, or the next message is received.  A lifecycle that is neither buffered nor published is
    invisible to readers while its messages are delivered."""
    from paths import Explorer
    body, cfg = st.body, st.cfg
    T5.fn(body.path)
    news = set(st.blocks_with('LC_NEW'))
    inserts = set(st.blocks_with('LCS_INSERT'))
    updates = set(bi for bi in st.blocks_with('W_DIRTY') if st.info[bi].get('what') in ('update', 'insert'))
    sinks = set(st.blocks_with('STORE')) | set(st.blocks_with('SEND')) | set(st.blocks_with('RECV_IN'))
    T5.floor('Lifecycle::new call sites in the stage', len(news), 1)
    T5.floor('buffered_lcs.insert sites', len(inserts), 1)

    def block_effect(b, facts):
        if b.i in sinks:
            pass
        if b.i in news:
            facts = frozenset(facts | {('unregistered', b.i)})
        if b.i in inserts or b.i in updates:
            facts = frozenset(f for f in facts if f[0] != 'unregistered')
        return facts
    ex = Explorer(cfg, block_effect=block_effect, var_roots=set())
    ex.run()
    T5.paths += ex.n_states
    bad = {}
    for sb in sinks:
        for s in ex.states.get(sb, ()):
            for f in s[1]:
                if f[0] == 'unregistered' and f[1] != sb:
                    bad.setdefault(f[1], (sb, s))
    # lifecycles returned by Lifecycle::update (Some(new lifecycle)): from the Some edge of the match on its result no sink is
    # reachable without an insert / publication
    from facts import Operand
    E = st.E
    for ub in sorted(st.blocks_with('LC_UPDATE')):
        dest = body.blocks[ub].term.dest
        if dest is None or not dest.is_local or not (dest.t or '').startswith('std::option::Option<'):
            continue
        for blk in body.blocks:
            if blk.cleanup or blk.term.k != 'switch':
                continue
            o = Operand(blk.term.d['d'])
            if o.place is None or not o.place.is_local:
                continue
            sd = cfg.single_def(o.place.l)
            if sd is None or sd[1] == 'call' or sd[2].rv['k'] != 'discr' or sd[2].rv['p']['l'] != dest.l or sd[2].rv['p'].get('p'):
                continue
            some_t = [t for v, t in blk.term.d['vals'] if v == 1]
            if not some_t and blk.term.d['vals'] and all(v == 0 for v, _ in blk.term.d['vals']):
                some_t = [blk.term.d['otherwise']]
            for tgt in some_t:
                T5.sites += 1
                r = cfg.reachable_from(tgt, avoid=inserts | updates)
                esc = [x for x in sinks if x in r]
                if esc:
                    T5.violation(('returned-lifecycle-unregistered', body.path), 'the new lifecycle returned by Lifecycle::update at %s can reach %s without being inserted into buffered_lcs or published' %
                                 (body.loc(body.blocks[ub].term.sp), body.loc(body.blocks[esc[0]].term.sp)), where=body.loc(body.blocks[ub].term.sp))
                else:
                    T5.ok(sample={'new_lifecycle_from': 'Lifecycle::update (Some)', 'at': body.loc(body.blocks[ub].term.sp), 'then': 'buffered_lcs.insert on every path'})
    for nb in sorted(news):
        T5.sites += 1
        if nb in bad:
            sb, s = bad[nb]
            T5.violation(('new-lifecycle-unregistered', body.path, 'site%d' % sorted(news).index(nb)),
                         'the lifecycle created at %s can reach %s without having been inserted into buffered_lcs or published: its messages are queued/delivered while readers cannot see the lifecycle' %
                         (body.loc(body.blocks[nb].term.sp), body.loc(body.blocks[sb].term.sp)), where=body.loc(body.blocks[nb].term.sp), witness={'block_path': ex.witness(sb, s)[-40:]})
        else:
            T5.ok(sample={'new_lifecycle_at': body.loc(body.blocks[nb].term.sp), 'then': 'buffered_lcs.insert / table update on every path before the message moves on'})
