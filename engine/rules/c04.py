"""C04 - parsing depends only on the bytes, not on read chunking (structural clauses of the reader).

Decided: M1 every production construction of the buffering reader passes constants with
low_mark >= DLT_MAX_STORAGE_MSG_SIZE and capacity >= low_mark + 4096, and the constructor asserts
low_mark + 4096 <= capacity and low_mark > 0; M2 fill_buf: the EOF latch is only set on the
`read == 0` edge, the refill loop is only left on {enough buffered, read == 0, buffer full, I/O
error}, and every Ok return is the slice buf[pos..cap]; M3 consume clamps pos to min(pos+amt, cap)
and read() consumes exactly what it copied.
Not decided: chunking independence of the parse result, byte-exactness of the copy_within arithmetic."""
import re
from cfg import CFG
from expr import ExprBuilder, show, walk
from facts import Operand
import guards

LEVEL = 'proof'
EXPLANATION = ('Constant evaluation of the production constructor arguments; loop-exit edge classification and store/guard analysis of fill_buf; expression shape of consume and read.')
ASSUMPTIONS = [
    'decides structural clauses only: equality of parse results across read schedules and the copy_within/offset arithmetic are NOT decided',
    'an inner Read returning 0 means end of data (std contract)',
]
MANIFEST = {'text': 'proof of the structural conditions behind "never signals end-of-data early / keeps low-mark look-ahead": production low-mark covers a maximal message and the buffer has room, '
                    'EOF is latched only by an empty read, the refill loop cannot be left short of the low mark except by EOF/full buffer/error, fill_buf returns buf[pos..cap], consume clamps, and the message iterator advances only by a parsed length or one byte. Added: the inner source is read only into the reader\'s own buffer (no bypass that moves the source without pos/cap/abs_pos). Added: each parser decodes exactly one standard header (the one at the start of the window): no verdict depends on a second length field, i.e. on data beyond the guaranteed look-ahead. Added: every read of the inner source is given the whole free tail buf[cap..] (or cap + min(free, k>0)), so a zero-byte read means end of source.'}

RD = 'adlt::utils::lowmarkbufreader::LowMarkBufReader'


def run(F, chk):
    M1 = chk.rule('M1', 'production constructions use low_mark >= DLT_MAX_STORAGE_MSG_SIZE and capacity >= low_mark + 4096; the constructor asserts both relations')
    M2 = chk.rule('M2', 'fill_buf: EOF latch only on read == 0; loop exits only {buffered >= low_mark, read == 0, read == free space, error}; returns buf[pos..cap]')
    M3 = chk.rule('M3', 'consume: pos = min(pos + amt, cap); read(): consumes exactly the number of bytes copied')
    maxmsg = F.consts.get('adlt::dlt::DLT_MAX_STORAGE_MSG_SIZE', {}).get('v')
    cl = F.consts.get('adlt::utils::lowmarkbufreader::CACHE_LINE_SIZE', {}).get('v')
    if maxmsg is None or cl is None:
        M1.violation(('anchor-lost', 'constants'), 'DLT_MAX_STORAGE_MSG_SIZE / CACHE_LINE_SIZE not found')
        return
    n = check_reader_configs(F, M1, maxmsg, cl)
    M1.floor('production constructions of LowMarkBufReader', n, 2)
    check_constructor(F, M1, cl)
    check_rest(F, chk, M2, M3, cl)


def check_reader_configs(F, M1, maxmsg, cl, only=None):
    n = 0
    for b in F.order:
        if only is not None and not only(b):
            continue
        for blk in b.calls():
            if blk.term.callee.path == RD + '::<R>::new':
                cfg = CFG(b)
                E = ExprBuilder(cfg, fold_named=True)
                def const_or_helper_min(e_, least=True):
                    # a constant, or the result of a crate function every return value of which is a constant (worst case taken)
                    v_ = fold(e_)
                    if v_ is not None:
                        return v_
                    if isinstance(e_, tuple) and e_[0] == 'call' and F.get(e_[1]) is not None and F.get(e_[1]).kind != 'closure':
                        H_ = F.get(e_[1])
                        hc_ = CFG(H_)
                        hE_ = ExprBuilder(hc_, fold_named=True)
                        vals_ = []
                        for (b_, s_, d_) in hc_.defs.get(0, []):
                            if s_ == 'call':
                                return None
                            vals_.append(fold(hE_.rvalue(d_.rv)))
                        if vals_ and all(x_ is not None for x_ in vals_):
                            M1.fn(H_.path)
                            return min(vals_) if least else max(vals_)
                    return None
                cap = const_or_helper_min(E.operand(blk.term.args[1]))
                low = const_or_helper_min(E.operand(blk.term.args[2]))
                n += 1
                M1.sites += 1
                M1.fn(b.path)
                if cap is None or low is None:
                    M1.violation(('non-constant-config', b.closure_of or b.path), 'LowMarkBufReader::new at %s is called with non-constant capacity/low-mark (%s, %s): cannot be checked statically' %
                                 (b.loc(blk.term.sp), show(E.operand(blk.term.args[1]))[:40], show(E.operand(blk.term.args[2]))[:40]), where=b.loc(blk.term.sp))
                elif low >= maxmsg and cap >= low + cl:
                    M1.ok(sample={'at': b.loc(blk.term.sp), 'capacity': cap, 'low_mark': low, 'max_message': maxmsg})
                else:
                    M1.violation(('config', b.closure_of or b.path, 'cap%d' % cap, 'low%d' % low), 'LowMarkBufReader::new at %s: capacity %d, low mark %d but a maximal message has %d bytes and the reader needs low_mark + %d <= capacity' %
                                 (b.loc(blk.term.sp), cap, low, maxmsg, cl), where=b.loc(blk.term.sp))
    return n


def check_constructor(F, M1, cl):
    new = F.get(RD + '::<R>::new')
    if new is None:
        M1.violation(('anchor-lost', 'new'), 'LowMarkBufReader::new not found')
    else:
        cfg = CFG(new)
        E = ExprBuilder(cfg, fold_named=True)
        conds = {}
        for blk in new.blocks:
            if not blk.cleanup and blk.term.k == 'switch':
                false_t = [t for v, t in blk.term.d['vals'] if v == 0]
                div = bool(false_t) and not any(e in cfg.reachable_from(false_t[0]) for e in cfg.exits)
                conds[show(E.switch_cond(blk))] = div
        a1 = any(re.match(r'Le\(Add\(low_mark, %d\), capacity\)' % cl, c) and d for c, d in conds.items())
        a2 = any(c == 'Gt(low_mark, 0)' and d for c, d in conds.items())
        if a1 and a2:
            M1.ok(sample={'constructor_asserts': sorted(conds)})
        else:
            M1.violation(('constructor-asserts', new.path), 'the constructor no longer asserts low_mark + %d <= capacity (%s) and low_mark > 0 (%s)' % (cl, a1, a2), where=new.loc(None))
        # what is asserted must be what is allocated and stored: the buffer is sized by the very parameter `capacity` and the
        # low mark stored is the parameter `low_mark` (no adjustment between the asserts and the construction)
        E0 = ExprBuilder(cfg)
        sizes = []
        for blk in new.calls():
            p_ = blk.term.callee.path
            if re.search(r'(vec::from_elem|Vec::<T>::with_capacity|Vec::<T, A>::with_capacity_in|Vec::<T, A>::resize|vec::from_elem_in)$', p_):
                for a in blk.term.args:
                    if (a.ty or '') == 'usize':
                        sizes.append((blk, E.operand(a), a))
        params = {new.name_of(i): i for i in range(1, new.arg_count + 1)}
        M1.sites += len(sizes)
        if not sizes:
            M1.violation(('anchor-lost', 'buffer allocation in new'), 'cannot find the buffer allocation in LowMarkBufReader::new')
        for (blk, e, a) in sizes:
            direct = a.place is not None and cfg.origin_of_operand(a) is not None and cfg.origin_of_operand(a).is_local and cfg.origin_of_operand(a).l == params.get('capacity')
            if direct or e == ('place', 'capacity') and len(new.locals_named('capacity')) == 1:
                M1.ok(sample={'buffer_sized_by': 'the asserted parameter `capacity`'})
            else:
                M1.violation(('allocated-size-not-asserted', new.path), 'LowMarkBufReader::new allocates the buffer with %s at %s, which is not the parameter `capacity` that the asserts check: '
                             'the relation low_mark + %d <= buffer length is no longer guaranteed' % (show(e)[:60], new.loc(blk.term.sp), cl), where=new.loc(blk.term.sp))


def check_rest(F, chk, M2, M3, cl):
    fb = [b for b in F.order if b.path.startswith('<' + RD) and b.path.endswith('BufRead>::fill_buf')]
    cs = [b for b in F.order if b.path.startswith('<' + RD) and b.path.endswith('BufRead>::consume')]
    rd = [b for b in F.order if b.path.startswith('<' + RD) and b.path.endswith('io::Read>::read')]
    M2.floor('fill_buf impl', len(fb), 1)
    M3.floor('consume impl', len(cs), 1)
    M3.floor('read impl', len(rd), 1)
    M4 = chk.rule('M4', 'fill_buf: the buffer-full exit is only reached with pos < CACHE_LINE_SIZE (compacted, or not needing compaction), so a full buffer holds more than the low mark')
    for b in fb:
        check_fill(b, M2, F)
        check_full_exit(b, M4, cl, F)
    M6 = chk.rule('M6', 'compaction keeps buf[i] <-> abs_pos + i for the copied window; if it leaves a stale prefix buf[0..offset), every Seek store to pos is bounded below by a field recording that offset')
    check_seek_window(F, M6)
    M8 = chk.rule('M8', 'the parsers decide from the header of the message at the start of the window only (no second length field is decoded: look-ahead beyond one maximal message is not guaranteed)')
    check_single_header_decode(F, M8)
    M7 = chk.rule('M7', 'the inner source is read only into the reader\'s own buffer (no bypass): every byte handed out is accounted for by pos/cap/abs_pos')
    M9 = chk.rule('M9', 'every read of the inner source into the buffer is given the whole free tail buf[cap..] (start = cap, end = buffer end, or cap + min(free, k>0)): a request is empty only when the buffer is full, so `read == 0` means end of the source')
    check_inner_reads(F, M7, M9)
    # M5: the consumer side.  The look-ahead guarantee is only worth something if the iterator's progress between two parse
    # attempts does not depend on how much happens to be buffered: it consumes either the length the parser reported or one byte.
    import c01
    from report import RuleResult
    M5 = chk.rule('M5', 'DltMessageIterator: between two parse attempts it consumes exactly the parsed message length or exactly one byte (never an amount derived from the buffered window)')
    nexts = [b for b in F.order if b.path.startswith('<' + c01.IT) and b.impl_trait == 'std::iter::Iterator' and b.path.endswith('::next')]
    M5.floor('DltMessageIterator::next', len(nexts), 1)
    for b in nexts:
        c01.check_iterator(b, M5, RuleResult('K2', 'not part of C04'), None, F)
    for b in cs:
        cfg = CFG(b)
        E = ExprBuilder(cfg, fold_named=True)
        M3.fn(b.path)
        stores = [(blk, s) for blk in b.blocks if not blk.cleanup for s in blk.stmts if s.k == 'assign' and show(E.target(s.place)) == '(*self).pos']
        SUM = 'Add((*self).pos, amt)'
        CAP = '(*self).cap'
        good = []
        expanded = []
        for (blk, s) in stores:
            o = Operand(s.rv['o']) if s.rv['k'] == 'use' else None
            ds = cfg.defs.get(o.place.l, []) if (o is not None and o.place is not None and o.place.is_local) else []
            if len(ds) > 1 and all(si != 'call' for (_, si, _) in ds):
                # pos = <phi temp>: judge every definition of the temp where it is made
                for (bi, si, d) in ds:
                    expanded.append((b.blocks[bi], d))
            else:
                expanded.append((blk, s))
        n_stores = len(expanded)
        for (blk, s) in expanded:
            v = show(E.rvalue(s.rv))
            if v in ('cmp::min(%s, %s)' % (SUM, CAP), 'cmp::min(%s, %s)' % (CAP, SUM), 'Ord::min(%s, %s)' % (SUM, CAP), 'Ord::min(%s, %s)' % (CAP, SUM)):
                good.append(1)
                continue
            # the same clamp written as a conditional: pos = pos+amt under pos+amt <= cap, pos = cap under pos+amt > cap
            kn = [(show(c), t) for (c, t, D) in guards.known(cfg, E, blk.i) if t is True]
            le = any(k in ('Le(%s, %s)' % (SUM, CAP), 'Lt(%s, %s)' % (SUM, CAP), 'Ge(%s, %s)' % (CAP, SUM), 'Gt(%s, %s)' % (CAP, SUM)) for k, _ in kn)
            gt = any(k in ('Gt(%s, %s)' % (SUM, CAP), 'Ge(%s, %s)' % (SUM, CAP), 'Lt(%s, %s)' % (CAP, SUM), 'Le(%s, %s)' % (CAP, SUM)) for k, _ in kn)
            if (v == SUM and le) or (v == CAP and gt):
                good.append(1)
        if stores and len(good) == n_stores:
            M3.ok(sample={'consume': 'pos = min(pos + amt, cap)'})
        else:
            M3.violation(('consume-shape', b.path), 'consume no longer stores pos = min(pos + amt, cap): %s' % [show(E.rvalue(s.rv))[:60] for (_, s) in stores], where=b.loc(None))
    for b in rd:
        cfg = CFG(b)
        E = ExprBuilder(cfg, fold_named=True)
        M3.fn(b.path)
        cons = [blk for blk in b.calls() if blk.term.callee.path.endswith('BufRead::consume')]
        ok = False
        for blk in cons:
            arg = show(E.operand(blk.term.args[1]))
            if 'Read::read(' in arg and 'fill_buf' in arg and '@Continue.0' in arg.replace(' ', ''):
                ok = True
        if cons and ok:
            M3.ok(sample={'read': 'consume(n) with n = bytes copied out of fill_buf()'})
        else:
            M3.violation(('read-consume', b.path), 'read() does not consume exactly the number of bytes it copied from the buffer', where=b.loc(None))


def fold(e):
    if not isinstance(e, tuple):
        return None
    if e[0] == 'const':
        return e[1]
    if e[0] == 'cast':
        return fold(e[1])
    if e[0] == 'bin':
        a, b = fold(e[2]), fold(e[3])
        if a is None or b is None:
            return None
        op = e[1].replace('WithOverflow', '')
        return {'Add': a + b, 'Mul': a * b, 'Sub': a - b, 'Shl': a << b if 0 <= b < 64 else None, 'BitOr': a | b}.get(op)
    return None


HELPER_BOOL = re.compile(r'^\{?Try::branch\(LowMarkBufReader::(\w+)\(.*\)\)\}?@Continue\.0$|^LowMarkBufReader::(\w+)\(.*\)$')


def classify_exit_cond(cs_, truth):
    """accepted reasons to stop refilling, from the text of a condition that holds"""
    if truth is True and cs_.startswith('Eq(') and 'Read::read(' in cs_ and cs_.endswith(', 0)'):
        return 'read == 0'
    if truth == ('eq', 0) and 'Read::read(' in cs_ and not cs_.startswith(('discr(', 'Eq(', 'Ne(', 'Lt(', 'Gt(', 'Le(', 'Ge(', 'Not(')):
        return 'read == 0'
    if truth is True and cs_.startswith('Eq(') and 'Read::read(' in cs_ and '.cap' in cs_ and ('Sub(' in cs_ or 'RangeFrom' in cs_):
        return 'read == free space (buffer full)'
    return None


def helper_bool_reasons(H, value):
    """private reader method returning bool / io::Result<bool> (`read_more() -> Result<bool>`: "keep going?"): the reasons for which
    it can yield `value` - one per definition of the returned bool that can produce it - or None if one of them is not an
    accepted reason {read == 0, read == free space}"""
    cfg = CFG(H)
    E = ExprBuilder(cfg, fold_named=True)
    E0 = ExprBuilder(cfg)
    reasons = []
    n = 0
    for blk in H.blocks:
        if blk.cleanup:
            continue
        for s in blk.stmts:
            if not (s.k == 'assign' and s.place.is_local and s.place.l == 0 and not s.place.p):
                continue
            if s.rv['k'] == 'agg' and s.rv.get('variant') == 'Ok' and s.rv['ops']:
                o = Operand(s.rv['ops'][0])
            elif s.rv['k'] == 'use' and H.ret_type() == 'bool':
                o = Operand(s.rv['o'])
            else:
                continue
            n += 1
            x = E.operand(o)
            # every definition of the bool (it may be a phi temp)
            vals = [(x, blk.i)]
            if o.place is not None and o.place.is_local and not o.place.p and len(cfg.defs.get(o.place.l, [])) > 1:
                vals = [((E.rvalue(d_.rv) if si_ != 'call' else None), bi_) for (bi_, si_, d_) in cfg.defs[o.place.l]]
            for (v, at) in vals:
                if v is None:
                    return None
                if v[0] == 'const':
                    if bool(v[1]) != value:
                        continue
                    why = None
                    for (c, truth, D) in guards.known(cfg, E, at):
                        why = why or classify_exit_cond(show(c), truth)
                    if why is None:
                        return None
                    reasons.append(why)
                else:
                    nc, nt = guards.normalise(v, value)
                    why = classify_exit_cond(show(nc), nt) if nt is True else None
                    if why is None:
                        return None
                    reasons.append(why)
    return sorted(set(reasons)) if n else None


def helper_err_only_from_inner_read(H):
    cfg = CFG(H)
    E = ExprBuilder(cfg, fold_named=True)
    ok = False
    for (bi, si, d) in cfg.defs.get(0, []):
        if si != 'call':
            if d.rv['k'] == 'agg' and d.rv.get('variant') == 'Ok':
                continue
            return False
        if not d.callee.path.endswith('FromResidual::from_residual'):
            return False
        if 'Try::branch(Read::read(' not in show(E.operand(d.args[0])):
            return False
        ok = True
    return ok


def check_fill(b, M2, F=None):
    b0 = b
    cfg = CFG(b)
    E = ExprBuilder(cfg, fold_named=True)
    helpers = reader_helpers(F, b) if F is not None else {}
    getters = getter_texts(helpers)
    M2.fn(b.path)
    # (a) EOF latch (in fill_buf and in the private methods it calls)
    latch_all = []
    for hb in [b] + list(helpers.values()):
        hcfg_ = cfg if hb is b else CFG(hb)
        hE_ = E if hb is b else ExprBuilder(hcfg_, fold_named=True)
        for blk in hb.blocks:
            if blk.cleanup:
                continue
            for s in blk.stmts:
                if s.k == 'assign' and show(hE_.target(s.place)) == '(*self).empty_last_read':
                    latch_all.append((hb, hcfg_, hE_, blk, s))
    latch = [(blk, s) for (hb, _c, _e, blk, s) in latch_all if hb is b]
    M2.floor('stores to empty_last_read', len(latch_all), 1)
    for (hb_, cfg_l, E_l, blk, s) in latch_all:
      for (cfg, E, b) in [(cfg_l, E_l, hb_)]:
            v = E.rvalue(s.rv)
            M2.sites += 1
            if v != ('const', 1):
                if v == ('const', 0):
                    M2.ok(sample={'store': 'empty_last_read = false'})
                else:
                    M2.violation(('latch-value', b.path), 'empty_last_read is set to %s' % show(v), where=b.loc(s.sp))
                continue
            ok = False
            for (c, truth, D) in guards.known(cfg, E, blk.i):
                cs_ = show(c)
                if truth is True and cs_.startswith('Eq(') and 'Read::read(' in cs_ and cs_.endswith(', 0)'):
                    ok = True
                if truth == ('eq', 0) and 'Read::read(' in cs_ and not cs_.startswith(('discr(', 'Eq(', 'Ne(', 'Lt(', 'Gt(', 'Le(', 'Ge(', 'Not(')):
                    ok = True      # `match read { 0 => .. }`: integer switch on the value read
            if ok:
                M2.ok(sample={'store': 'empty_last_read = true', 'only_under': 'inner.read(..) == 0'})
            else:
                M2.violation(('latch-unguarded', b.path), 'end-of-data is latched (empty_last_read = true) at %s on an edge other than `read == 0`: a short read would end the stream early' % b.loc(s.sp), where=b.loc(s.sp))
    cfg = CFG(b0)
    E = ExprBuilder(cfg, fold_named=True)
    b = b0
    # (b) loop exits
    loops = cfg.loops()
    M2.floor('refill loop', len(loops), 1)
    for hd, lb in loops.items():
        exits = [(x, s) for x in lb for s in cfg.succ[x] if s not in lb and b.blocks[s].term.k != 'unreachable']
        for (x, s) in exits:
            blk = b.blocks[x]
            M2.sites += 1
            kind = None
            if blk.term.k == 'switch':
                c = show(E.switch_cond(blk))
                edge_true = None
                for v, t in blk.term.d['vals']:
                    if t == s:
                        edge_true = (v != 0)
                if edge_true is None and blk.term.d['otherwise'] == s:
                    edge_true = [v for v, _ in blk.term.d['vals']] == [0]
                if edge_true is not None:
                    nc, nt = guards.normalise(E.switch_cond(blk), edge_true)     # comparison that holds on the exit edge
                    if nt is True:
                        c = show(nc)
                c = sub_getters(c, getters)       # `self.buffered_len()` reads as cap - pos
                # `match read { 0 => .. }`: integer switch on the read result
                if not c.startswith(('Eq(', 'Ge(', 'Lt(', 'discr(', 'Ne(', 'Gt(', 'Le(')) and 'Read::read(' in c and 0 in [v for v, t in blk.term.d['vals'] if t == s]:
                    kind = 'read == 0'
                if kind:
                    pass
                elif edge_true is not None and nt is True and re.match(r'Ge\(Sub\(\(\*self\)\.cap, \(\*self\)\.pos\), \(\*self\)\.low_mark\)', c):
                    kind = 'buffered >= low_mark'
                elif edge_true is not None and nt is True and c.startswith('Eq(') and 'Read::read(' in c and c.endswith(', 0)'):
                    kind = 'read == 0'
                elif edge_true is not None and nt is True and c.startswith('Eq(') and 'Read::read(' in c and 'Sub(' in c and '.cap' in c:
                    kind = 'read == free space (buffer full)'
                elif c.startswith('discr(Try::branch(Read::read(') and edge_true is not None:
                    kind = 'I/O error propagated'
                elif c.startswith('discr(Try::branch(LowMarkBufReader::'):
                    hn = re.match(r'discr\(Try::branch\(LowMarkBufReader::(\w+)\(', c)
                    hb2 = [h for p_, h in helpers.items() if hn and p_.endswith('::' + hn.group(1))]
                    if hb2 and helper_err_only_from_inner_read(hb2[0]):
                        kind = 'I/O error propagated (by %s)' % hn.group(1)
                if kind is None and edge_true is not None:
                    raw = E.switch_cond(blk)
                    val = edge_true
                    while isinstance(raw, tuple) and raw[0] == 'un' and raw[1] == 'Not':
                        raw, val = raw[2], not val
                    hm = HELPER_BOOL.match(show(raw))
                    if hm:
                        hname = hm.group(1) or hm.group(2)
                        hb2 = [h for p_, h in helpers.items() if p_.endswith('::' + hname)]
                        rs = helper_bool_reasons(hb2[0], val) if hb2 else None
                        if rs:
                            kind = ' / '.join(rs) + ' (reported by %s)' % hname
                if kind is None and 'empty_last_read' in c:
                    kind = 'already at end of data'
            # the break after latching EOF is a goto out of the loop from the latch block
            if kind is None and any(blk.i == lblk.i for (lblk, _) in latch):
                kind = 'read == 0'
            if kind is None and blk.term.k == 'goto':
                # a goto exit is fine when its block is dominated by an accepted exit condition
                for (c, truth, D) in guards.known(cfg, E, blk.i):
                    cs_ = sub_getters(show(c), getters)
                    if cs_.startswith('Eq(') and 'Read::read(' in cs_ and truth is True:
                        kind = 'read == 0 / buffer full'
                    if truth == ('eq', 0) and 'Read::read(' in cs_ and not cs_.startswith(('discr(', 'Eq(', 'Ne(', 'Lt(', 'Gt(', 'Le(', 'Ge(', 'Not(')):
                        kind = 'read == 0'
                    if cs_.startswith('Ge(Sub((*self).cap, (*self).pos), (*self).low_mark)') and truth is True:
                        kind = 'buffered >= low_mark'
            if kind:
                M2.ok(sample={'loop_exit_from_block': x, 'reason': kind})
            else:
                M2.violation(('loop-exit', b.path, show(E.switch_cond(blk))[:50] if blk.term.k == 'switch' else 'goto'),
                             'the refill loop of fill_buf can be left at %s for a reason other than {enough buffered, read == 0, buffer full, I/O error}: look-ahead below the low mark without end of data' % b.loc(blk.term.sp),
                             where=b.loc(blk.term.sp))
    # (c) Ok returns the slice pos..cap
    okdefs = 0
    for blk in b.blocks:
        if blk.cleanup:
            continue
        for s in blk.stmts:
            if s.k == 'assign' and s.place.is_local and s.place.l == 0 and s.rv['k'] == 'agg' and s.rv.get('variant') == 'Ok':
                okdefs += 1
                e = show(E.rvalue(s.rv))
                if 'Range::Range{(*self).pos, (*self).cap}' in e and '.buf' in e:
                    M2.ok(sample={'returns': 'Ok(&buf[pos..cap])'})
                else:
                    M2.violation(('return-slice', b.path), 'fill_buf returns %s instead of &buf[pos..cap]' % e[:100], where=b.loc(s.sp))
    M2.floor('Ok return definitions in fill_buf', okdefs, 1)


def reader_helpers(F, b):
    """inherent LowMarkBufReader methods (not trait impls) called from body b: {path: body}"""
    out = {}
    for blk in b.calls():
        t = F.get(blk.term.callee.path)
        if t is not None and t.path.startswith(RD + '::<') and t.kind != 'closure':
            out[t.path] = t
    return out


def getter_texts(helpers):
    """{text of a call `Helper(&(*self))`: text of the expression it returns} for helpers that only compute a value from
    fields of self (no calls, one return value)"""
    out = {}
    for p, hb in helpers.items():
        if any(True for _ in hb.calls()):
            continue
        hc = CFG(hb)
        hE = ExprBuilder(hc, fold_named=True)
        ds = hc.defs.get(0, [])
        if len(ds) != 1 or ds[0][1] == 'call':
            continue
        txt = show(hE.rvalue(ds[0][2].rv))
        short = 'LowMarkBufReader::' + p.split('::')[-1]
        out[short + '(&(*self))'] = txt
        out[short + '(&mut (*self))'] = txt
    return out


def sub_getters(txt, getters):
    for k, v in getters.items():
        txt = txt.replace(k, v)
    return txt


def helper_ensures_small_pos(hb, cl):
    """does every normal return of helper hb happen with pos < CACHE_LINE_SIZE known (compaction stored pos = offset, or the
    `pos >= CL` test was false / `pos < CL` true)"""
    from paths import Explorer
    cfg = CFG(hb)
    E = ExprBuilder(cfg, fold_named=True)
    stores = set()
    for blk in hb.blocks:
        if blk.cleanup:
            continue
        for s_ in blk.stmts:
            if s_.k == 'assign' and show(E.target(s_.place)) == '(*self).pos':
                stores.add(blk.i)
    if not any(x.term.callee.path.endswith('::copy_within') for x in hb.calls()):
        return False

    def block_effect(blk, facts):
        if blk.i in stores:
            return frozenset(facts | {('small_pos',)})
        return facts

    def edge_effect(blk, tgt, facts):
        if blk.term.k == 'switch':
            c, t = guards.normalise(E.switch_cond(blk), True)
            sc = show(c)
            for v, tt in blk.term.d['vals']:
                if tt == tgt and v == 0:     # condition false on this edge
                    if re.match(r'Ge\(\(\*self\)\.pos, %d\)$' % cl, sc):
                        return frozenset(facts | {('small_pos',)})
            if blk.term.d['otherwise'] == tgt and [v for v, _ in blk.term.d['vals']] == [0]:   # condition true
                if re.match(r'Lt\(\(\*self\)\.pos, %d\)$' % cl, sc):
                    return frozenset(facts | {('small_pos',)})
        return facts
    ex = Explorer(cfg, block_effect=block_effect, edge_effect=edge_effect, var_roots=set())
    ex.run()
    for e in cfg.exits:
        for st in ex.out_states.get(e, ()):
            if ('small_pos',) not in st[1]:
                return False
    return True


def check_full_exit(b, M4, cl, F=None):
    """`read == free space` only proves "at least low_mark buffered" when pos is small: buffered = len - pos > len - CACHE_LINE >= low_mark
    (constructor assert).  So every path from the loop head to that exit must pass the compaction (pos = offset) or the
    false edge of `pos >= CACHE_LINE_SIZE`."""
    from paths import Explorer
    cfg = CFG(b)
    E = ExprBuilder(cfg, fold_named=True)
    M4.fn(b.path)
    loops = cfg.loops()
    if not loops:
        M4.violation(('anchor-lost', 'loop', b.path), 'no refill loop found')
        return
    hd = sorted(loops, key=lambda h: -len(loops[h]))[0]
    compaction = set()
    for blk in b.blocks:
        if blk.cleanup:
            continue
        for s in blk.stmts:
            if s.k == 'assign' and show(E.target(s.place)) == '(*self).pos':
                compaction.add(blk.i)
    # a compaction moved into a private method: the call establishes pos < CACHE_LINE_SIZE if the method does on all returns
    helpers = reader_helpers(F, b) if F is not None else {}
    for blk in b.calls():
        hb = helpers.get(blk.term.callee.path)
        if hb is not None and helper_ensures_small_pos(hb, cl):
            compaction.add(blk.i)
            M4.fn(hb.path)
    full_exits = []
    for blk in b.blocks:
        if blk.cleanup or blk.term.k != 'switch':
            continue
        c = show(E.switch_cond(blk))
        if c.startswith('Eq(') and 'Read::read(' in c and 'Sub(' in c and '.cap' in c:
            full_exits.append(blk)
            continue
        # the test moved into a private method that reports "stop" (`if !self.read_more()? { break }`)
        raw = E.switch_cond(blk)
        while isinstance(raw, tuple) and raw[0] == 'un' and raw[1] == 'Not':
            raw = raw[2]
        hm = HELPER_BOOL.match(show(raw))
        if hm:
            hname = hm.group(1) or hm.group(2)
            hb2 = [h for p_, h in helpers.items() if p_.endswith('::' + hname)]
            if hb2 and any('buffer full' in r for v_ in (True, False) for r in (helper_bool_reasons(hb2[0], v_) or [])):
                full_exits.append(blk)
                M4.fn(hb2[0].path)
    M4.floor('compaction sites (pos = offset) in fill_buf', len(compaction), 1)
    M4.floor('buffer-full exits (read == free space) in fill_buf', len(full_exits), 1)

    def block_effect(blk, facts):
        if blk.i == hd:
            facts = frozenset(f for f in facts if f != ('small_pos',))
        if blk.i in compaction:
            facts = frozenset(facts | {('small_pos',)})
        return facts

    def edge_effect(blk, tgt, facts):
        if blk.term.k == 'switch':
            c = show(E.switch_cond(blk))
            if re.match(r'Ge\(\(\*self\)\.pos, %d\)$' % cl, c):
                for v, t in blk.term.d['vals']:
                    if v == 0 and t == tgt:
                        return frozenset(facts | {('small_pos',)})
        return facts
    ex = Explorer(cfg, block_effect=block_effect, edge_effect=edge_effect, var_roots=set())
    ex.run()
    M4.paths += ex.n_states
    for blk in full_exits:
        bad = [st for st in ex.states.get(blk.i, ()) if ('small_pos',) not in st[1]]
        M4.sites += 1
        if bad:
            M4.violation(('full-exit-with-large-pos', b.path), 'the refill loop can take the "buffer full" exit at %s on a path that neither compacted the buffer nor saw pos < %d: the buffer can be full while holding fewer than low_mark bytes, '
                         'so fill_buf returns short look-ahead although the source has more data' % (b.loc(blk.term.sp), cl), where=b.loc(blk.term.sp), witness={'block_path': ex.witness(blk.i, bad[0])})
        else:
            M4.ok(sample={'buffer_full_exit_at': b.loc(blk.term.sp), 'pos_small_on_all_paths': True})


# ---------------------------------------------------------------------------------------------
# M6: seek-within-buffer never re-exposes the stale prefix left by compaction

def check_seek_window(F, M6):
    """Compaction moves the unread bytes to buf[offset..] (copy_within(pos..cap, offset)); when `offset` can be non-zero the
    bytes buf[0..offset) are leftovers of the previous window.  Every externally controlled store to `pos` (Seek) must
    therefore be bounded below by a quantity that the compaction sets to that same `offset` (stated belief: valid data
    starts at offset) - a lower bound of abs_pos alone (= buf[0]) re-exposes the stale prefix."""
    fb = [b for b in F.order if b.path.startswith('<' + RD) and b.path.endswith('::fill_buf')]
    sk = [b for b in F.order if b.path.startswith('<' + RD) and b.impl_trait == 'std::io::Seek' and b.path.endswith('::seek')]
    M6.floor('fill_buf impl', len(fb), 1)
    M6.floor('Seek impl', len(sk), 1)
    if not fb or not sk:
        return
    b = fb[0]
    if not any(x.term.callee.path.endswith('::copy_within') for x in b.calls()):
        # the compaction may live in a private method called by fill_buf
        for hp, hb in reader_helpers(F, b).items():
            if any(x.term.callee.path.endswith('::copy_within') for x in hb.calls()):
                M6.fn(b.path)
                b = hb
                break
    cfg = CFG(b)
    E = ExprBuilder(cfg, fold_named=True)
    M6.fn(b.path)
    dests = []
    for blk in b.calls():
        if blk.term.callee.path.endswith('::copy_within') and len(blk.term.args) >= 3:
            dests.append((blk, blk.term.args[2]))
    M6.floor('copy_within compaction sites in fill_buf', len(dests), 1)
    stale_possible = False
    window_fields = set()
    incs = []
    for b2 in b.blocks:
        if b2.cleanup:
            continue
        for s in b2.stmts:
            if s.k == 'assign' and show(E.target(s.place)) == '(*self).abs_pos':
                e = E.rvalue(s.rv)
                if isinstance(e, tuple) and e[0] == 'bin' and e[1] == 'Add' and show(e[2]) == '(*self).abs_pos':
                    incs.append(show(e[3]))
                else:
                    incs.append('?' + show(e))
    for (blk, d) in dests:
        from c11 import const_eval
        rng = E.operand(blk.term.args[1])
        start = rng[2][0] if isinstance(rng, tuple) and rng[0] == 'agg' and 'Range' in rng[1] and len(rng[2]) == 2 else None
        dz = const_eval(E.operand(d)) == 0
        M6.sites += 1
        if start is None:
            M6.violation(('compaction-shape', b.path), 'copy_within source at %s is not a plain start..end range (%s): the window mapping cannot be checked' % (b.loc(blk.term.sp), show(rng)[:60]), where=b.loc(blk.term.sp))
        else:
            want = show(start) if dz else 'Sub(%s, %s)' % (show(start), show(E.operand(d)))
            if incs == [want]:
                M6.ok(sample={'compaction': 'copy_within(%s.., %s)' % (show(start), show(E.operand(d))), 'abs_pos_advance': want, 'mapping': 'buf[i] <-> abs_pos + i kept for the copied window'})
            else:
                M6.violation(('window-mapping', b.path), 'compaction copies buf[%s..] to %s but abs_pos advances by %s (expected %s): buf[i] no longer corresponds to stream offset abs_pos + i' %
                             (show(start), show(E.operand(d)), incs, want), where=b.loc(blk.term.sp))
        if dz:
            continue
        stale_possible = True
        if d.place is None:
            continue
        # fields of self assigned the very same local in the compaction (same or following straight-line blocks)
        for b2 in b.blocks:
            if b2.cleanup:
                continue
            for s in b2.stmts:
                if s.k == 'assign' and show(E.target(s.place)).startswith('(*self).'):
                    if show(E.rvalue(s.rv)) == show(E.operand(d)):
                        window_fields.add(show(E.target(s.place))[len('(*self).'):])
    if not stale_possible:
        M6.ok(sample={'compaction_destination': 0, 'stale_prefix': 'none: the whole of buf[0..cap) is stream data at abs_pos + i, so Seek\'s lower bound abs_pos is exact'})
        return
    M6.floor('fields recording the compaction offset', len(window_fields), 1)
    n = 0
    for sb in sk:
        c2 = CFG(sb)
        E2 = ExprBuilder(c2, fold_named=True)
        M6.fn(sb.path)
        for blk in sb.blocks:
            if blk.cleanup:
                continue
            for s in blk.stmts:
                if s.k == 'assign' and show(E2.target(s.place)) == '(*self).pos':
                    n += 1
                    M6.sites += 1
                    lower = []
                    for (c, truth, D) in guards.known(c2, E2, blk.i):
                        if not (isinstance(c, tuple) and c[0] == 'bin' and truth is True):
                            continue
                        if c[1] in ('Ge', 'Gt'):
                            bound = c[3]
                        elif c[1] in ('Le', 'Lt'):
                            bound = c[2]
                        else:
                            continue
                        lower.append(show(bound))
                    good = [x for x in lower if any(('(*self).' + f) in x for f in window_fields)]
                    if good:
                        M6.ok(sample={'store': 'pos = ' + show(E2.rvalue(s.rv))[:60], 'lower_bound': good[0][:80], 'window_fields': sorted(window_fields)})
                    else:
                        M6.violation(('seek-below-window', sb.path),
                                     'Seek stores pos = %s at %s with lower bounds {%s}; none involves a field that compaction sets to the copy_within destination (%s), so a seek to [abs_pos, abs_pos+offset) is '
                                     'accepted and fill_buf/read then hand out the stale bytes buf[0..offset) of the previous window' %
                                     (show(E2.rvalue(s.rv))[:60], sb.loc(s.sp), '; '.join(lower) or 'none', ', '.join(sorted(window_fields))), where=sb.loc(s.sp))
    M6.floor('stores to pos in Seek', n, 1)


# ---------------------------------------------------------------------------------------------
# M7: no read of the inner source past the window bookkeeping

def free_tail_request(dst):
    """None if the slice expression `dst` of self.buf is the free tail behind cap, else the reason"""
    from expr import walk
    rng = None
    for x in walk(dst):
        if isinstance(x, tuple) and x and x[0] == 'agg' and re.search(r'ops::Range(From|Full|To|Inclusive|ToInclusive)?::', x[1]) and rng is None:
            rng = x
    if rng is None:
        return 'the whole buffer / an untracked slice'
    kind = rng[1].split('::')[-1]
    cap = '(*self).cap'

    def is_len(e):
        return re.match(r'^(slice::len|Vec::len)\(.*\(\*self\)\.buf.*\)$', show(e)) is not None or re.match(r'^PtrMetadata\(.*\(\*self\)\.buf', show(e)) is not None

    def is_free(e):
        return isinstance(e, tuple) and e[0] == 'bin' and e[1] == 'Sub' and is_len(e[2]) and show(e[3]) == cap

    def pos_const(e):
        v = fold(e)
        return isinstance(v, int) and v > 0
    if kind == 'RangeFrom':
        return None if show(rng[2][0]) == cap else 'starts at %s, not at cap' % show(rng[2][0])[:40]
    if kind == 'Range':
        a, e = rng[2]
        if show(a) != cap:
            return 'starts at %s, not at cap' % show(a)[:40]
        while isinstance(e, tuple) and e[0] == 'cast':
            e = e[1]
        if is_len(e):
            return None
        if isinstance(e, tuple) and e[0] == 'call' and e[1].endswith('::min') and len(e[2]) == 2:
            arms = list(e[2])
            if any(is_len(x) for x in arms) and any(isinstance(x, tuple) and x[0] == 'bin' and x[1] == 'Add' and show(x[2]) == cap and pos_const(x[3]) for x in arms):
                return None
        if isinstance(e, tuple) and e[0] == 'bin' and e[1] == 'Add' and (show(e[2]) == cap or show(e[3]) == cap):
            x = e[3] if show(e[2]) == cap else e[2]
            if is_free(x):
                return None
            if isinstance(x, tuple) and x[0] == 'call' and x[1].endswith('::min') and len(x[2]) == 2 and any(is_free(y) for y in x[2]) and any(pos_const(y) for y in x[2]):
                return None
        return 'ends at %s: not the buffer end, the request can be empty (or short) while the buffer has room' % show(e)[:70]
    return 'is a %s slice' % kind


def check_inner_reads(F, M7, M9=None):
    """"keeps its absolute position" / "interleavings of fill, consume, read, seek": abs_pos + pos is the number of bytes handed
    out only because every byte taken from the inner source lands in self.buf and is then handed out through pos/cap.  A read
    of the inner source straight into a caller buffer (the large-read bypass of std's BufReader) advances the source without
    any of the three counters - stream_position() and every later seek are off by that amount.  Who-may-call + argument rule
    over all bodies of LowMarkBufReader: a Read::read* on `self.inner` must target a slice of `self.buf`."""
    bodies = [b for b in F.order if (b.path.startswith('<' + RD) or b.path.startswith(RD + '::<')) and b.crate == 'lib']
    M7.floor('bodies of LowMarkBufReader', len(bodies), 5)
    n = 0
    for b in bodies:
        cfg = E = None
        for blk in b.calls():
            t = blk.term
            if not re.search(r'io::Read::(read|read_exact|read_to_end|read_vectored|read_buf|read_buf_exact|read_to_string)$', t.callee.path) or not t.args:
                continue
            if cfg is None:
                cfg = CFG(b)
                E = ExprBuilder(cfg, fold_named=True)
            recv = show(E.operand(t.args[0]))
            if '(*self).inner' not in recv:
                continue
            n += 1
            M7.sites += 1
            M7.fn(b.path)
            dst = show(E.operand(t.args[1])) if len(t.args) > 1 else ''
            accounted = None
            if '(*self).buf' not in dst:
                # a bypass is sound if the bytes it hands out are added to abs_pos: a store to abs_pos reachable from the
                # read whose value derives from the read's result
                from prov import Prov
                pr = Prov(cfg)
                for x in cfg.reachable_from(blk.i):
                    for s_ in b.blocks[x].stmts:
                        if s_.k == 'assign' and show(E.target(s_.place)) == '(*self).abs_pos' and s_.rv['k'] in ('use', 'bin', 'cast'):
                            toks = set()
                            for key in ('o', 'a', 'b'):
                                if key in s_.rv:
                                    toks |= pr.operand(Operand(s_.rv[key]), at=x)
                            if any(tk[0] == 'call' and tk[1] == t.callee.path for tk in toks):
                                accounted = b.loc(s_.sp)
            if '(*self).buf' in dst and M9 is not None:
                M9.sites += 1
                M9.fn(b.path)
                why = free_tail_request(E.operand(t.args[1]))
                if why is None:
                    M9.ok(sample={'inner_read_at': b.loc(t.sp), 'request': 'buf[cap..]'})
                else:
                    M9.violation(('read-request-not-free-tail', b.path), '%s asks the inner source at %s for a slice of the buffer that %s: a zero-length request returns 0 and is taken for the end of the source '
                                 '(EOF latched early, look-ahead lost), a request not starting at cap overwrites or skips buffered bytes' % (b.path, b.loc(t.sp), why), where=b.loc(t.sp))
            if '(*self).buf' in dst:
                M7.ok(sample={'inner_read_at': b.loc(t.sp), 'into': dst[:80]})
            elif accounted:
                M7.ok(sample={'inner_read_at': b.loc(t.sp), 'into': dst[:80], 'accounted_in_abs_pos_at': accounted})
            else:
                M7.violation(('inner-read-bypasses-window', b.path), '%s reads the inner source into %s at %s, not into the reader\'s own buffer: those bytes are handed out without pos/cap/abs_pos moving, '
                             'so stream_position() and every later seek are off by that amount' % (b.path, dst[:60] or '?', b.loc(t.sp)), where=b.loc(t.sp))
    M7.floor('reads of the inner source', n, 1)
    if M9 is not None:
        M9.floor('reads of the inner source into the buffer', M9.sites, 1)


# ---------------------------------------------------------------------------------------------
# M8: one header per parse

def check_single_header_decode(F, M8):
    """The reader guarantees one maximal message of look-ahead from the start of the window (M1/M2/M4).  The parsers' verdict must
    therefore be a function of that much data only: what lies behind `start + framing + len + 4` may or may not be buffered,
    depending on read sizes and the position in the stream.  A decision that decodes a *second* standard header found at an
    interior offset and follows its length field looks up to another 64 KiB ahead - the same bytes then parse differently
    under different chunking.  For each parse function and the crate functions it hands (parts of) the data to: exactly one
    DltStandardHeader::from_buf call, on data[framing..]."""
    n = 0
    for name, cname in (('adlt::dlt::parse_dlt_with_storage_header', 'adlt::dlt::DLT_STORAGE_HEADER_SIZE'), ('adlt::dlt::parse_dlt_with_serial_header', 'adlt::dlt::DLT_SERIAL_HEADER_SIZE')):
        b = F.get(name)
        C = F.consts.get(cname, {}).get('v')
        if b is None or C is None:
            M8.violation(('anchor-lost', name), '%s or its framing constant not found' % name)
            continue
        M8.fn(b.path)
        group = [b]
        work = [b]
        while work:
            x = work.pop()
            for blk in x.calls():
                H = F.get(blk.term.callee.resolved) if blk.term.callee.resolved else F.get(blk.term.callee.path)
                if H is not None and H.crate == 'lib' and H.kind != 'closure' and H not in group and H.path.startswith('adlt::dlt::') and \
                        not (H.impl_self or '') and any((a.ty or '') == '&[u8]' for a in blk.term.args) and len(group) < 8:
                    group.append(H)
                    work.append(H)
        decodes = []
        for x in group:
            cfg = E = None
            for blk in x.calls():
                if blk.term.callee.path.endswith('DltStandardHeader::from_buf'):
                    cfg = cfg or CFG(x)
                    E = E or ExprBuilder(cfg, fold_named=True)
                    decodes.append((x, blk, show(E.operand(blk.term.args[0]))))
        M8.sites += len(decodes)
        n += len(decodes)
        good = [d for d in decodes if d[0] is b and 'RangeFrom::RangeFrom{%d}' % C in d[2]]
        extra = [d for d in decodes if d not in good]
        if len(good) == 1 and not extra:
            M8.ok(sample={'parser': name, 'header_decodes': 1, 'on': 'data[%d..]' % C, 'functions_examined': [x.path.split('::')[-1] for x in group]})
        else:
            for (x, blk, txt) in extra or decodes:
                M8.violation(('second-header-decoded', name, x.path.split('::')[-1]), '%s decodes a standard header from %s at %s (on behalf of %s): the verdict then depends on a length field that is not the one of the message at the start of the window, '
                             'i.e. on data beyond the guaranteed look-ahead - the same bytes parse differently depending on how much happens to be buffered' % (x.path, txt[:60], x.loc(blk.term.sp), name), where=x.loc(blk.term.sp))
    M8.floor('standard header decodes in the two parsers', n, 2)
