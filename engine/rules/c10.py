import re
"""C10 - time sorting is a permutation (structural clauses).

Decided: L1 no live drop in the sorter (incl. L5: the heap is only dropped drained or after the
consumer is gone; every normal return has drained inflow and heap), L2 no clone, L7 no lossy
container op / unclassified consumer, E1 the sorter writes no message field, O1 key-based heap
comparator.  Not decided: the ordering-under-bounded-delay half (window arithmetic)."""
import own, lin, effects, comparators
from cfg import CFG

LEVEL = 'proof'
EXPLANATION = ('All normal CFG paths of the sort stage are explored with drop-flag/variant propagation: a message-carrying value may '
               'only be dropped after its container was drained or the consumer is gone; the may-write set on DltMessage is empty.')
ASSUMPTIONS = [
    'decides the permutation half structurally (no loss, no duplication, no alteration inside the sort stage); the ordering half is NOT decided',
    'std BinaryHeap/mpsc keep what is pushed/sent (trusted); unwinding paths are outside the rule',
]
MANIFEST = {'text': 'proof (all normal paths of the stage function) of: no message-carrying value is dropped un-drained, none is cloned, no lossy container operation, '
                    'final flush drains the heap before Ok, the stage writes no DltMessage field, heap comparator is key-based. Ordering under bounded delay is not decided.'
                    ' Added (ordering half, necessary conditions only): the heap key is capped at the reception time and the release threshold is never below the configured minimum delay. Added: control requests are keyed by their reception time (every other key definition lies behind !is_ctrl_request()).'}


def stage_bodies(F):
    """sort stage = lib fn with a Receiver<DltMessage> param, an outflow Fn param and a BinaryHeap local carrying messages"""
    out = []
    for b in F.order:
        if b.crate != 'lib' or b.kind == 'closure':
            continue
        at = b.arg_types()
        if any(t.startswith('std::sync::mpsc::Receiver<adlt::dlt::DltMessage>') for t in at) and \
                any(l['cm'] and re.match(r'std::collections::(BinaryHeap|BTreeSet|BTreeMap|HashSet|HashMap|VecDeque)<|std::vec::Vec<', l['t']) and 'SortedDltMessage' in l['t'] for l in b.locals):
            out.append(b)
    return out


SET_LIKE = re.compile(r'std::collections::(BTreeSet|HashSet|BTreeMap|HashMap)<')


def check_buffer_is_multiset(stages, O4):
    """the sorter must be able to hold several messages with an equal key (same calculated time and index): its buffer is
    a heap / vector / deque.  A set or a map keyed by the comparator silently refuses (set) or replaces (map) a message
    whose key equals one that is still buffered - the output is no longer a permutation of the input."""
    n = 0
    for b in stages:
        O4.fn(b.path)
        for i, l in enumerate(b.locals):
            if not l['cm'] or 'DltMessage' not in l['t']:
                continue
            if re.match(r'std::collections::|std::vec::Vec<', l['t']) is None:
                continue
            n += 1
            O4.sites += 1
            if SET_LIKE.match(l['t']):
                O4.violation(('sort-buffer-collapses-equal-keys', b.path, l['t'].split('<')[0].split('::')[-1]), 'the sorter buffers messages in `%s: %s`: a set/map keeps one element per key, a message whose key (calculated time, index) '
                             'equals a buffered one is dropped or replaces it' % (b.name_of(i) or '_%d' % i, l['t'][:80]), where=b.loc(None))
            else:
                O4.ok(sample={'buffer': b.name_of(i) or '_%d' % i, 'type': l['t'][:70], 'multiset': True})
    O4.floor('message containers in the sorter', n, 1)


def run(F, chk):
    L1 = chk.rule('L1', 'no message-carrying value is dropped on a normal path of the sorter unless drained / consumer gone (incl. final flush L5)')
    L2 = chk.rule('L2', 'no message-carrying value is cloned in the sorter')
    L7 = chk.rule('L7', 'no lossy/reordering container operation and no unclassified by-value consumer in the sorter')
    L5 = chk.rule('L5', 'every normal return of the sorter happens with inflow and heap drained, or after a send error')
    E1 = chk.rule('E1', 'the sorter (incl. its closures and callees taking &mut DltMessage) writes no DltMessage field')
    O1 = chk.rule('O1', 'the heap comparator is key-based (same key expression of both arguments)')
    stages = stage_bodies(F)
    L1.floor('sort stage functions (anchor: Receiver<DltMessage> param + BinaryHeap of messages)', len(stages), 1)
    for b in stages:
        res = lin.run_linearity(b, own.OwnSpec(), L1, L2, L7, min_recv=2, min_send=1, min_store=1, F=F)
        for cl in F.closures_of(b.path):
            if any(l['cm'] for l in cl.locals):
                lin.run_linearity(cl, own.OwnSpec(), L1, L2, L7, F=F)
        # L5: return states
        ex = res.explorer
        cfg = res.cfg
        L5.fn(b.path)
        roots = set(ti[1] for ti in res.take_info.values())
        n = 0
        for rb in cfg.exits:
            for st in ex.states.get(rb, ()):
                n += 1
                facts = st[1]
                drained = set(f[1] for f in facts if f[0] == 'drained')
                if ('senderr',) in facts or roots <= drained:
                    L5.ok(sample={'function': b.path, 'return_state': sorted(str(f) for f in facts if f[0] != 'var')})
                else:
                    L5.violation(('return-undrained', b.path), 'the sorter can return normally while messages may still be queued (not every source/heap drained, no send error)',
                                 where=b.loc(None), witness={'block_path': ex.witness(rb, st), 'missing': [str(r) for r in roots - drained]})
        L5.floor('return states of ' + b.path, n, 2)
        L5.paths += ex.n_states
        effects.check_may_write(F, E1, b.path, set(), what='the sort stage')
    comps = comparators.check(F, O1, lambda b: (b.impl_self or '').startswith('adlt::utils::SortedDltMessage'), floor=1)
    O2 = chk.rule('O2', 'the heap key (calculated time) of every buffered message is capped at its reception time before it enters the heap')
    for b in stages:
        check_key_cap(b, O2, F)
    O2.floor('sort stage functions', len(stages), 1)
    O4 = chk.rule('O4', 'the sorter buffers messages in a multiset container (heap/vector/deque), never in a set or map keyed by the comparator')
    check_buffer_is_multiset(stages, O4)
    O5 = chk.rule('O5', 'inside the receive loop the sorter pops a buffered message only under the release comparison key + threshold < reception time')
    check_release_only_by_age(F, stages, O5)
    O6 = chk.rule('O6', 'the heap key of a control request is its reception time: every other definition of the key lies on the false edge of is_ctrl_request()')
    for b in stages:
        check_ctrl_request_key(b, O6, F)
    O3 = chk.rule('O3', 'the release threshold of the sorter is, on every path, the configured minimum delay, its previous value, or minimum + x (never below the minimum)')
    check_threshold_floor(F, stages, O3)


def check_key_cap(b, O2, F=None):
    """SortedDltMessage { m, calculated_time_us: v }: v must be clamped to m.reception_time_us
    (if v > recv { v = recv } dominating the construction, or min(v, recv))"""
    from expr import ExprBuilder, show, walk
    from facts import Operand
    import guards
    cfg = CFG(b)
    E = ExprBuilder(cfg, fold_named=True)
    O2.fn(b.path)
    n = 0
    for blk in b.blocks:
        if blk.cleanup:
            continue
        for s in blk.stmts:
            if s.k == 'assign' and s.rv['k'] == 'agg' and s.rv.get('adt', '').endswith('SortedDltMessage'):
                fields = s.rv.get('fields', [])
                if 'calculated_time_us' not in fields:
                    continue
                n += 1
                O2.sites += 1
                v = E.operand(Operand(s.rv['ops'][fields.index('calculated_time_us')]))
                why = None
                sv = show(v)
                if ('cmp::min(' in sv or 'Ord::min(' in sv) and 'reception_time_us' in sv:
                    why = 'min(.., reception time)'
                if why is None:
                    for D in cfg.dominators(blk.i):
                        db = b.blocks[D]
                        if db.term.k != 'switch':
                            continue
                        c, t = guards.normalise(E.switch_cond(db), True)
                        if not (isinstance(c, tuple) and c[0] == 'bin' and c[1] in ('Gt', 'Lt')):
                            continue
                        x, y = (c[2], c[3]) if c[1] == 'Gt' else (c[3], c[2])     # x > y
                        if x != v or 'reception_time_us' not in show(y):
                            continue
                        true_t = db.term.d['otherwise'] if [vv for vv, _ in db.term.d['vals']] == [0] else None
                        if true_t is None:
                            continue
                        region = [q for q in range(cfg.n) if q in cfg.reach and cfg.dominates(true_t, q)]
                        for q in region:
                            for st in b.blocks[q].stmts:
                                if st.k == 'assign' and E.target(st.place) == v and E.rvalue(st.rv) == y:
                                    why = 'clamped: if %s > %s { %s = %s }' % (show(v), show(y)[:40], show(v), show(y)[:40])
                if why is None:
                    why = phi_capped(cfg, E, b, v)
                if why is None and F is not None:
                    # the key is computed by a closure / private function of the crate: every value it returns is capped there
                    ko = Operand(s.rv['ops'][fields.index('calculated_time_us')])
                    kl = ko.place.l if ko.place is not None and ko.place.is_local else None
                    for _ in range(3):
                        sd = cfg.single_def(kl) if kl is not None else None
                        if sd is not None and sd[1] != 'call' and sd[2].rv['k'] == 'use' and Operand(sd[2].rv['o']).place is not None and Operand(sd[2].rv['o']).place.is_local:
                            kl = Operand(sd[2].rv['o']).place.l
                    sd = cfg.single_def(kl) if kl is not None else None
                    if sd is not None and sd[1] == 'call' and sd[2].callee.resolved and F.get(sd[2].callee.resolved) is not None:
                        H = F.get(sd[2].callee.resolved)
                        hcfg = CFG(H)
                        hE = ExprBuilder(hcfg, fold_named=True)
                        if phi_capped_local(hcfg, hE, H, 0):
                            why = 'computed by %s, every value it returns is the reception time or guarded <= reception time' % H.path.split('::')[-1]
                            O2.fn(H.path)
                if why:
                    O2.ok(sample={'heap_key': sv[:60], 'capped_by': why, 'at': b.loc(s.sp)})
                else:
                    O2.violation(('key-not-capped', b.path), 'the calculated time %s used as heap key at %s is not capped at the reception time of the message: a message whose lifecycle start + timestamp lies after its reception is sorted (and held back) by that future time' % (sv[:60], b.loc(s.sp)),
                                 where=b.loc(s.sp))
    O2.floor('SortedDltMessage constructions in ' + b.path, n, 1)


def phi_capped_local(cfg, E, b, l):
    """every definition of local l (e.g. the return place of a key closure) is the reception time or a value stored under a guard
    `value <= reception time`"""
    from expr import show
    import guards
    defs = cfg.defs.get(l, [])
    if not defs:
        return False
    for (bi, si, d) in defs:
        if si == 'call':
            if re.search(r'(cmp::min|Ord::min)$', d.callee.path) and any('reception_time_us' in show(E.operand(a)) for a in d.args):
                continue
            return False
        e = E.rvalue(d.rv)
        if isinstance(e, tuple) and e[0] in ('place', 'proj') and show(e).endswith('reception_time_us'):
            continue
        ok = False
        for (c, truth, D) in guards.known(cfg, E, bi):
            if truth not in (True, False):
                continue
            c2, t2 = guards.normalise(c, truth)
            if not (isinstance(c2, tuple) and c2[0] == 'bin' and t2 is True):
                continue
            if c2[1] in ('Le', 'Lt'):
                lo, hi = c2[2], c2[3]
            elif c2[1] in ('Ge', 'Gt'):
                lo, hi = c2[3], c2[2]
            else:
                continue
            if lo == e and 'reception_time_us' in show(hi):
                ok = True
        if not ok:
            return False
    return True


def phi_capped(cfg, E, b, v):
    """`let key = if raw > recv { recv } else { raw }`: the key is a local whose every definition is the reception time
    itself or a value stored under a guard `value <= reception time`"""
    from expr import show
    import guards
    if not (isinstance(v, tuple) and v[0] == 'place' and len(v) == 2):
        return None
    ls = b.locals_named(v[1])
    if len(ls) != 1:
        return None
    defs = cfg.defs.get(ls[0], [])
    if len(defs) < 2:
        return None
    for (bi, si, d) in defs:
        if si == 'call':
            return None
        e = E.rvalue(d.rv)
        if isinstance(e, tuple) and e[0] in ('place', 'proj') and 'reception_time_us' in show(e):
            continue
        ok = False
        for (c, truth, D) in guards.known(cfg, E, bi):
            if truth not in (True, False):
                continue
            c2, t2 = guards.normalise(c, truth)
            if not (isinstance(c2, tuple) and c2[0] == 'bin' and t2 is True):
                continue
            if c2[1] in ('Le', 'Lt'):
                lo, hi = c2[2], c2[3]
            elif c2[1] in ('Ge', 'Gt'):
                lo, hi = c2[3], c2[2]
            else:
                continue
            if lo == e and 'reception_time_us' in show(hi):
                ok = True
        if not ok:
            return None
    return 'every definition of %s is the reception time or a value guarded <= reception time' % v[1]


def subst(e, m):
    """replace parameter places of a helper by the caller's argument expressions"""
    if not isinstance(e, tuple):
        return e
    if e and e[0] == 'place' and len(e) >= 2 and e[1] in m:
        base = m[e[1]]
        if len(e) == 2:
            return base
        rest = e[2:]
        if base[0] == 'ref' and rest and rest[0] == '*':
            inner = base[1]
            return (inner + tuple(rest[1:])) if inner[0] in ('place', 'proj') else (('proj', inner) + tuple(rest[1:]))
        return (base + tuple(rest)) if base[0] in ('place', 'proj') else (('proj', base) + tuple(rest))
    return tuple(subst(x, m) for x in e)


def release_helpers(F, b, cfg, E):
    """private functions the sorter hands its heap to by `&mut` (the release loop moved into a helper): list of
    (call block in the sorter, helper body, {helper parameter name: caller's argument expression})"""
    out = []
    for blk in b.calls():
        c = blk.term.callee
        H = F.get(c.resolved) if c.resolved else F.get(c.path)
        if H is None or H.kind == 'closure' or H.path == b.path:
            continue
        if not any(re.match(r'&mut std::collections::(BinaryHeap|VecDeque)<|&mut std::vec::Vec<', a.ty or '') and 'SortedDltMessage' in (a.ty or '') for a in blk.term.args):
            continue
        m = {}
        for i, a in enumerate(blk.term.args):
            nm = H.name_of(i + 1) or 'arg%d' % (i + 1)
            m[nm] = E.operand(a)
        out.append((blk.i, H, m))
    return out


# ---------------------------------------------------------------------------------------------
# O3: the release threshold is never below the configured minimum delay

def check_threshold_floor(F, stages, O3):
    from expr import ExprBuilder, show
    """The ordering half of the property needs every buffered message to be held at least `min_buffer_delay_us`: the release
    threshold local of the sorter (compared as  calculated + threshold < reception  in the drain loop) must be >= the minimum
    on every path.  Structural form that makes this true by construction (unsigned arithmetic): every definition of the
    threshold is the minimum itself, the previous threshold, or `minimum + something` - including every return value of
    the closure that recomputes it."""
    n = 0
    for b in stages:
        cfg = CFG(b)
        E = ExprBuilder(cfg, fold_named=True)
        # the threshold: named local added to the heap key in the drain comparison `Lt(Add(key, T), recv)`
        thr = None
        conds = [E.switch_cond(blk) for blk in b.blocks if not blk.cleanup and blk.term.k == 'switch']
        for (_cb, H, m) in release_helpers(F, b, cfg, E):
            hE = ExprBuilder(CFG(H), fold_named=True)
            conds += [subst(hE.switch_cond(blk), m) for blk in H.blocks if not blk.cleanup and blk.term.k == 'switch']
        for c in conds:
            if isinstance(c, tuple) and c[0] == 'bin' and c[1] in ('Lt', 'Le', 'Gt', 'Ge'):
                for side in (c[2], c[3]):
                    if isinstance(side, tuple) and side[0] == 'bin' and side[1] == 'Add' and 'calculated_time_us' in show(side):
                        for x in (side[2], side[3]):
                            if isinstance(x, tuple) and x[0] == 'place' and len(x) == 2 and 'calculated_time_us' not in show(x):
                                thr = x[1]
        if thr is None:
            O3.violation(('anchor-lost', 'threshold', b.path), 'cannot find the release comparison `key + threshold < reception time` in ' + b.path)
            continue
        O3.fn(b.path)
        ls = b.locals_named(thr)
        minname = None

        def form(e, params_ok=()):
            """'min' | 'prev' | 'min+x' | None"""
            se = show(e)
            if re.search(r'min_buffer_delay_us\)?\)?$', se) and not se.startswith('Add('):
                return 'min'
            if isinstance(e, tuple) and e[0] == 'place' and len(e) == 2 and (e[1] == thr or e[1] in params_ok):
                return 'prev'
            if isinstance(e, tuple) and e[0] == 'bin' and e[1] == 'Add' and (form(e[2], params_ok) == 'min' or form(e[3], params_ok) == 'min'):
                return 'min+x'
            return None
        for l in ls:
            for (bi, si, d) in cfg.defs.get(l, []):
                n += 1
                O3.sites += 1
                if si != 'call' and d.rv['k'] == 'use':
                    from facts import Operand
                    o = Operand(d.rv['o'])
                    if o.place is not None and o.place.is_local:
                        sd = cfg.single_def(o.place.l)
                        if sd is not None and sd[1] == 'call':
                            si, d = 'call', sd[2]     # `thr = move _t` with `_t = recompute(..)`
                if si != 'call':
                    f = form(E.rvalue(d.rv))
                    if f:
                        O3.ok(sample={'threshold': thr, 'definition': show(E.rvalue(d.rv))[:60], 'form': f})
                    else:
                        O3.violation(('threshold-below-minimum', b.path, 'direct'), 'the release threshold `%s` is set to %s at %s, which is not of the form minimum / previous value / minimum + x' % (thr, show(E.rvalue(d.rv))[:80], b.loc(d.sp)), where=b.loc(d.sp))
                    continue
                cl = F.get(d.callee.resolved) if d.callee.resolved else None
                if cl is None:
                    O3.violation(('threshold-opaque', b.path), 'the release threshold `%s` is assigned from %s which cannot be resolved' % (thr, d.callee.path), where=b.loc(d.sp))
                    continue
                O3.fn(cl.path)
                ccfg = CFG(cl)
                cE = ExprBuilder(ccfg, fold_named=True)
                # the closure parameter that receives the previous threshold: first tuple element of the call
                prev_param = cl.name_of(2) if cl.kind == 'closure' else cl.name_of(1)
                bad = None
                nret = 0
                for (rb, rsi, rd) in ccfg.defs.get(0, []):
                    nret += 1
                    if rsi == 'call':
                        bad = (rb, 'result of ' + rd.callee.path)
                        continue
                    f = form(cE.rvalue(rd.rv), params_ok=(prev_param,))
                    if not f:
                        bad = (rb, show(cE.rvalue(rd.rv))[:80])
                if bad is None and nret:
                    O3.ok(sample={'threshold': thr, 'recomputed_by': cl.path, 'return_definitions': nret, 'each': 'previous value or minimum + x'})
                else:
                    O3.violation(('threshold-below-minimum', b.path, 'recompute'),
                                 'the closure %s that recomputes the release threshold can return %s, which is not the previous threshold and not `min_buffer_delay_us + x`: messages can be released before the configured minimum '
                                 'delay has passed, so a later message with a smaller calculated time is delivered out of order' % (cl.path, bad[1] if bad else 'nothing'), where=cl.loc(None))
    O3.floor('definitions of the release threshold', n, 2)


# ---------------------------------------------------------------------------------------------
# O5: inside the receive loop a message leaves the heap only by the age test

def check_release_only_by_age(F, stages, O5):
    """While messages are still arriving, the only reason to release the oldest buffered message is that it is older than the
    threshold: every `pop` of the heap inside the receive loop is dominated by the true edge of the release comparison
    `key + threshold < reception time`.  A second release path (capacity bound, timer, ...) emits messages that a later,
    legitimately older message should have preceded.  The drain after the end of input is outside the loop."""
    import guards
    from expr import ExprBuilder, show
    n = 0
    for b in stages:
        cfg = CFG(b)
        E = ExprBuilder(cfg, fold_named=True)
        O5.fn(b.path)
        loops = cfg.loops()
        recv_loop = None
        for hd, lb in loops.items():
            if any(b.blocks[x].term.k == 'call' and b.blocks[x].term.callee.path == 'std::iter::Iterator::next' and 'mpsc::' in (b.blocks[x].term.args[0].ty or '') for x in lb) or \
               any(b.blocks[x].term.k == 'call' and re.search(r'mpsc::Receiver::<T>::(recv|recv_timeout|try_recv)$', b.blocks[x].term.callee.path) for x in lb):
                if recv_loop is None or len(lb) > len(recv_loop):
                    recv_loop = lb
        if recv_loop is None:
            O5.violation(('anchor-lost', 'receive loop', b.path), 'no receive loop found in ' + b.path)
            continue
        pops = [blk for blk in b.calls() if re.search(r'(BinaryHeap::<T(, A)?>::pop|PeekMut::<.*>::pop|Vec::<T(, A)?>::pop|VecDeque::<T(, A)?>::pop_front)$', blk.term.callee.path) and
                'SortedDltMessage' in (blk.term.args[0].ty or '')]
        POP = r'(BinaryHeap::<T(, A)?>::pop|PeekMut::<.*>::pop|Vec::<T(, A)?>::pop|VecDeque::<T(, A)?>::pop_front)$'
        sites = [(b, cfg, E, blk, None) for blk in pops if blk.i in recv_loop]
        for (cb, H, m) in release_helpers(F, b, cfg, E):
            if cb not in recv_loop:
                continue
            O5.fn(H.path)
            hcfg = CFG(H)
            hE = ExprBuilder(hcfg, fold_named=True)
            for blk in H.calls():
                if re.search(POP, blk.term.callee.path) and 'SortedDltMessage' in (blk.term.args[0].ty or ''):
                    sites.append((H, hcfg, hE, blk, m))
        for (xb, xcfg, xE, blk, m) in sites:
            n += 1
            O5.sites += 1
            ok = None
            for (c, truth, D) in guards.known(xcfg, xE, blk.i):
                if m is not None:
                    c = subst(c, m)
                sc = show(c)
                if truth is True and isinstance(c, tuple) and c[0] == 'bin' and c[1] in ('Lt', 'Le', 'Gt', 'Ge') and 'calculated_time_us' in sc and 'reception_time_us' in sc and 'Add(' in sc:
                    ok = sc
            if ok:
                O5.ok(sample={'pop_at': xb.loc(blk.term.sp), 'only_under': ok[:90], 'in': xb.path})
            else:
                O5.violation(('released-without-age-test', b.path), 'the sorter pops a buffered message at %s inside the receive loop without a dominating release comparison (key + threshold < reception time): '
                             'a message can be emitted before the threshold has passed and a later, older message follows it' % xb.loc(blk.term.sp), where=xb.loc(blk.term.sp))
    O5.floor('heap pops inside the receive loop of the sorter', n, 1)


# ---------------------------------------------------------------------------------------------
# O6: control requests are keyed by their reception time

def check_ctrl_request_key(b, O6, F=None):
    """"sorted by lifecycle start + timestamp, reception time for control requests": a control request is injected by the logger,
    its timestamp field (if any) is not on the sender's clock.  Every definition of the value that becomes the heap key is
    either the reception time of the message, or lies behind the false edge of `is_ctrl_request()`."""
    from expr import ExprBuilder, show
    from facts import Operand
    import guards
    cfg = CFG(b)
    E = ExprBuilder(cfg, fold_named=True)
    E0 = ExprBuilder(cfg)
    O6.fn(b.path)
    keys = set()
    for blk in b.blocks:
        if blk.cleanup:
            continue
        for s in blk.stmts:
            if s.k == 'assign' and s.rv['k'] == 'agg' and s.rv.get('adt', '').endswith('SortedDltMessage') and 'calculated_time_us' in (s.rv.get('fields') or []):
                o = Operand(s.rv['ops'][s.rv['fields'].index('calculated_time_us')])
                if o.place is not None and o.place.is_local:
                    l = o.place.l
                    sd = cfg.single_def(l)
                    if sd is not None and sd[1] != 'call' and sd[2].rv['k'] == 'use' and Operand(sd[2].rv['o']).place is not None and Operand(sd[2].rv['o']).place.is_local and not Operand(sd[2].rv['o']).place.p:
                        l = Operand(sd[2].rv['o']).place.l
                    keys.add(l)
    n = 0
    counted = [0]

    def judge_local(x, xcfg, xE, xE0, l, seen, out):
        """every definition of local l of body x: reception time, a min()/copy of judged values, a value computed by a closure /
        helper of the crate that is judged the same way, or behind !is_ctrl_request()"""
        if (x.path, l) in seen:
            return
        seen.add((x.path, l))
        for (bi, si, d) in xcfg.defs.get(l, []):
            counted[0] += 1
            not_ctrl = any(truth is False and isinstance(c, tuple) and c[0] == 'call' and c[1].endswith('::is_ctrl_request') for (c, truth, D) in guards.known(xcfg, xE0, bi))
            if not_ctrl:
                continue
            if si == 'call':
                p = d.callee.path
                if re.search(r'(cmp::min|Ord::min)$', p):
                    for a in d.args:
                        judge_operand(x, xcfg, xE, xE0, a, seen, out, d.sp)
                    continue
                H = F.get(d.callee.resolved) if (F is not None and d.callee.resolved) else None
                if H is not None and H.crate == 'lib' and re.search(r'\bu64\b', H.ret_type()):
                    hcfg = CFG(H)
                    judge_local(H, hcfg, ExprBuilder(hcfg, fold_named=True), ExprBuilder(hcfg), 0, seen, out)
                    O6.fn(H.path)
                    continue
                out.append(('result of ' + p, x.loc(d.sp)))
                continue
            if d.rv['k'] in ('use', 'cast'):
                judge_operand(x, xcfg, xE, xE0, Operand(d.rv['o']), seen, out, d.sp)
                continue
            out.append((show(xE.rvalue(d.rv))[:70], x.loc(d.sp)))

    def judge_operand(x, xcfg, xE, xE0, o, seen, out, sp):
        if o.place is None:
            out.append(('a constant', x.loc(sp)))
            return
        e = xE.operand(o)
        if isinstance(e, tuple) and e[0] in ('place', 'proj') and show(e).endswith('.reception_time_us'):
            return
        if o.place.is_local and not o.place.p and o.place.l > x.arg_count:
            judge_local(x, xcfg, xE, xE0, o.place.l, seen, out)
            return
        out.append((show(e)[:70], x.loc(sp)))
    for l in keys:
        bad = []
        judge_local(b, cfg, E, E0, l, set(), bad)
        n = counted[0]
        O6.sites += n
        if bad:
            val, where = bad[0]
            O6.violation(('ctrl-request-not-keyed-by-reception', b.path), 'the sort key can be %s (%s) on a path that a control request can take (no dominating `!is_ctrl_request()`): '
                         'control requests must be sorted by their reception time, their timestamp is not on the sender clock' % (val, where), where=where)
        else:
            O6.ok(sample={'key_definitions_examined': n, 'each': 'reception time, min()/copy of such values, or only for messages that are not control requests'})
    O6.floor('definitions of the heap key in the sorter', n, 2)
