import re
"""C10 - time sorting is a permutation (structural clauses).

Decided: L1 no live drop in the sorter (incl. L5: the heap is only dropped drained or after the
consumer is gone; every normal return has drained inflow and heap), L2 no clone, L7 no lossy
container op / unclassified consumer, E1 the sorter writes no message field, O1 key-based heap
comparator.  Not decided: the ordering-under-bounded-delay half (window arithmetic)."""
import own, lin, effects, comparators
from cfg import CFG

LEVEL = 'proof'
EXPLANATION = ('All normal CFG paths of the sort stage are explored with drop-flag/variant propagation: a message-carrying value may '
               'only be dropped after its container was drained or the consumer is gone; the may-write set on DltMessage is empty.')
ASSUMPTIONS = [
    'decides the permutation half structurally (no loss, no duplication, no alteration inside the sort stage); the ordering half is NOT decided',
    'std BinaryHeap/mpsc keep what is pushed/sent (trusted); unwinding paths are outside the rule',
]
MANIFEST = {'text': 'proof (all normal paths of the stage function) of: no message-carrying value is dropped un-drained, none is cloned, no lossy container operation, '
                    'final flush drains the heap before Ok, the stage writes no DltMessage field, heap comparator is key-based. Ordering under bounded delay is not decided.'
                    ' Added (ordering half, necessary conditions only): the heap key is capped at the reception time and the release threshold is never below the configured minimum delay. Added: control requests are keyed by their reception time (every other key definition lies behind !is_ctrl_request()). Added: the lifecycle-start cache of the sorter is keyed by the lifecycle id itself. Added: the reception time is the key only for control requests or as the cap of a larger calculated time. Added: the heap element\'s order is decided, for every ordering of the fields it compares, to be exactly (calculated time, message index) - Ord::cmp and the PartialOrd methods the heap uses. Added: the only thing the sorter takes from a lifecycle table entry is its start_time field, verbatim.'}


def stage_bodies(F):
    """sort stage = lib fn with a Receiver<DltMessage> param, an outflow Fn param and a BinaryHeap local carrying messages"""
    out = []
    for b in F.order:
        if b.crate != 'lib' or b.kind == 'closure':
            continue
        at = b.arg_types()
        if any(t.startswith('std::sync::mpsc::Receiver<adlt::dlt::DltMessage>') for t in at) and \
                any(l['cm'] and re.match(r'std::collections::(BinaryHeap|BTreeSet|BTreeMap|HashSet|HashMap|VecDeque)<|std::vec::Vec<', l['t']) and 'SortedDltMessage' in l['t'] for l in b.locals):
            out.append(b)
    return out


SET_LIKE = re.compile(r'std::collections::(BTreeSet|HashSet|BTreeMap|HashMap)<')


def check_buffer_is_multiset(stages, O4):
    """the sorter must be able to hold several messages with an equal key (same calculated time and index): its buffer is
    a heap / vector / deque.  A set or a map keyed by the comparator silently refuses (set) or replaces (map) a message
    whose key equals one that is still buffered - the output is no longer a permutation of the input."""
    n = 0
    for b in stages:
        O4.fn(b.path)
        for i, l in enumerate(b.locals):
            if not l['cm'] or 'DltMessage' not in l['t']:
                continue
            if re.match(r'std::collections::|std::vec::Vec<', l['t']) is None:
                continue
            n += 1
            O4.sites += 1
            if SET_LIKE.match(l['t']):
                O4.violation(('sort-buffer-collapses-equal-keys', b.path, l['t'].split('<')[0].split('::')[-1]), 'the sorter buffers messages in `%s: %s`: a set/map keeps one element per key, a message whose key (calculated time, index) '
                             'equals a buffered one is dropped or replaces it' % (b.name_of(i) or '_%d' % i, l['t'][:80]), where=b.loc(None))
            else:
                O4.ok(sample={'buffer': b.name_of(i) or '_%d' % i, 'type': l['t'][:70], 'multiset': True})
    O4.floor('message containers in the sorter', n, 1)


def run(F, chk):
    L1 = chk.rule('L1', 'no message-carrying value is dropped on a normal path of the sorter unless drained / consumer gone (incl. final flush L5)')
    L2 = chk.rule('L2', 'no message-carrying value is cloned in the sorter')
    L7 = chk.rule('L7', 'no lossy/reordering container operation and no unclassified by-value consumer in the sorter')
    L5 = chk.rule('L5', 'every normal return of the sorter happens with inflow and heap drained, or after a send error')
    E1 = chk.rule('E1', 'the sorter (incl. its closures and callees taking &mut DltMessage) writes no DltMessage field')
    O1 = chk.rule('O1', 'the heap comparator is key-based (same key expression of both arguments)')
    stages = stage_bodies(F)
    L1.floor('sort stage functions (anchor: Receiver<DltMessage> param + BinaryHeap of messages)', len(stages), 1)
    for b in stages:
        res = lin.run_linearity(b, own.OwnSpec(), L1, L2, L7, min_recv=2, min_send=1, min_store=1, F=F)
        for cl in F.closures_of(b.path):
            if any(l['cm'] for l in cl.locals):
                lin.run_linearity(cl, own.OwnSpec(), L1, L2, L7, F=F)
        # L5: return states
        ex = res.explorer
        cfg = res.cfg
        L5.fn(b.path)
        roots = set(ti[1] for ti in res.take_info.values())
        n = 0
        for rb in cfg.exits:
            for st in ex.states.get(rb, ()):
                n += 1
                facts = st[1]
                drained = set(f[1] for f in facts if f[0] == 'drained')
                if ('senderr',) in facts or roots <= drained:
                    L5.ok(sample={'function': b.path, 'return_state': sorted(str(f) for f in facts if f[0] != 'var')})
                else:
                    L5.violation(('return-undrained', b.path), 'the sorter can return normally while messages may still be queued (not every source/heap drained, no send error)',
                                 where=b.loc(None), witness={'block_path': ex.witness(rb, st), 'missing': [str(r) for r in roots - drained]})
        L5.floor('return states of ' + b.path, n, 2)
        L5.paths += ex.n_states
        effects.check_may_write(F, E1, b.path, set(), what='the sort stage')
    comps = comparators.check(F, O1, lambda b: (b.impl_self or '').startswith('adlt::utils::SortedDltMessage'), floor=1)
    O2 = chk.rule('O2', 'the heap key (calculated time) of every buffered message is capped at its reception time before it enters the heap')
    for b in stages:
        check_key_cap(b, O2, F)
    O2.floor('sort stage functions', len(stages), 1)
    O4 = chk.rule('O4', 'the sorter buffers messages in a multiset container (heap/vector/deque), never in a set or map keyed by the comparator')
    check_buffer_is_multiset(stages, O4)
    O5 = chk.rule('O5', 'inside the receive loop the sorter pops a buffered message only under the release comparison key + threshold < reception time')
    check_release_only_by_age(F, stages, O5)
    O8 = chk.rule('O8', 'the reception time is the heap key only for control requests (or as the cap of a larger calculated time): every other message is keyed by lifecycle start + timestamp')
    O6 = chk.rule('O6', 'the heap key of a control request is its reception time: every other definition of the key lies on the false edge of is_ctrl_request()')
    for b in stages:
        check_ctrl_request_key(b, O6, F, O8)
    O7 = chk.rule('O7', 'the lifecycle-start cache of the sorter is keyed by the lifecycle id itself (no arithmetic on the key: distinct ids never share a slot)')
    check_start_time_cache(F, stages, O7)
    O10 = chk.rule('O10', 'the only thing the sorter takes from a lifecycle table entry is its `start_time` field, read verbatim (no derived start such as resume_start_time(), no other field, no method of Lifecycle)')
    check_lifecycle_start_verbatim(F, stages, O10)
    O9 = chk.rule('O9', 'the order of the heap element is, for every ordering of the fields it compares, the order by (calculated time, message index) and by nothing else (decided over the finite model of field orderings; Ord::cmp and every PartialOrd method the heap uses)')
    check_heap_order(F, stages, O9)
    O3 = chk.rule('O3', 'the release threshold of the sorter is, on every path, the configured minimum delay, its previous value, or minimum + x (never below the minimum)')
    check_threshold_floor(F, stages, O3)


def check_key_cap(b, O2, F=None):
    """SortedDltMessage { m, calculated_time_us: v }: v must be clamped to m.reception_time_us
    (if v > recv { v = recv } dominating the construction, or min(v, recv))"""
    from expr import ExprBuilder, show, walk
    from facts import Operand
    import guards
    cfg = CFG(b)
    E = ExprBuilder(cfg, fold_named=True)
    O2.fn(b.path)
    n = 0
    for blk in b.blocks:
        if blk.cleanup:
            continue
        for s in blk.stmts:
            if s.k == 'assign' and s.rv['k'] == 'agg' and s.rv.get('adt', '').endswith('SortedDltMessage'):
                fields = s.rv.get('fields', [])
                if 'calculated_time_us' not in fields:
                    continue
                n += 1
                O2.sites += 1
                v = E.operand(Operand(s.rv['ops'][fields.index('calculated_time_us')]))
                why = None
                sv = show(v)
                if ('cmp::min(' in sv or 'Ord::min(' in sv) and 'reception_time_us' in sv:
                    why = 'min(.., reception time)'
                if why is None:
                    for D in cfg.dominators(blk.i):
                        db = b.blocks[D]
                        if db.term.k != 'switch':
                            continue
                        c, t = guards.normalise(E.switch_cond(db), True)
                        if not (isinstance(c, tuple) and c[0] == 'bin' and c[1] in ('Gt', 'Lt')):
                            continue
                        x, y = (c[2], c[3]) if c[1] == 'Gt' else (c[3], c[2])     # x > y
                        if x != v or 'reception_time_us' not in show(y):
                            continue
                        true_t = db.term.d['otherwise'] if [vv for vv, _ in db.term.d['vals']] == [0] else None
                        if true_t is None:
                            continue
                        region = [q for q in range(cfg.n) if q in cfg.reach and cfg.dominates(true_t, q)]
                        for q in region:
                            for st in b.blocks[q].stmts:
                                if st.k == 'assign' and E.target(st.place) == v and E.rvalue(st.rv) == y:
                                    why = 'clamped: if %s > %s { %s = %s }' % (show(v), show(y)[:40], show(v), show(y)[:40])
                if why is None:
                    why = phi_capped(cfg, E, b, v)
                if why is None and F is not None:
                    # the key is computed by a closure / private function of the crate: every value it returns is capped there
                    ko = Operand(s.rv['ops'][fields.index('calculated_time_us')])
                    kl = ko.place.l if ko.place is not None and ko.place.is_local else None
                    for _ in range(3):
                        sd = cfg.single_def(kl) if kl is not None else None
                        if sd is not None and sd[1] != 'call' and sd[2].rv['k'] == 'use' and Operand(sd[2].rv['o']).place is not None and Operand(sd[2].rv['o']).place.is_local:
                            kl = Operand(sd[2].rv['o']).place.l
                    sd = cfg.single_def(kl) if kl is not None else None
                    if sd is not None and sd[1] == 'call' and sd[2].callee.resolved and F.get(sd[2].callee.resolved) is not None:
                        H = F.get(sd[2].callee.resolved)
                        hcfg = CFG(H)
                        hE = ExprBuilder(hcfg, fold_named=True)
                        if phi_capped_local(hcfg, hE, H, 0):
                            why = 'computed by %s, every value it returns is the reception time or guarded <= reception time' % H.path.split('::')[-1]
                            O2.fn(H.path)
                if why:
                    O2.ok(sample={'heap_key': sv[:60], 'capped_by': why, 'at': b.loc(s.sp)})
                else:
                    O2.violation(('key-not-capped', b.path), 'the calculated time %s used as heap key at %s is not capped at the reception time of the message: a message whose lifecycle start + timestamp lies after its reception is sorted (and held back) by that future time' % (sv[:60], b.loc(s.sp)),
                                 where=b.loc(s.sp))
    O2.floor('SortedDltMessage constructions in ' + b.path, n, 1)


def phi_capped_local(cfg, E, b, l):
    """every definition of local l (e.g. the return place of a key closure) is the reception time or a value stored under a guard
    `value <= reception time`"""
    from expr import show
    import guards
    defs = cfg.defs.get(l, [])
    if not defs:
        return False
    for (bi, si, d) in defs:
        if si == 'call':
            if re.search(r'(cmp::min|Ord::min)$', d.callee.path) and any('reception_time_us' in show(E.operand(a)) for a in d.args):
                continue
            return False
        e = E.rvalue(d.rv)
        if isinstance(e, tuple) and e[0] in ('place', 'proj') and show(e).endswith('reception_time_us'):
            continue
        ok = False
        for (c, truth, D) in guards.known(cfg, E, bi):
            if truth not in (True, False):
                continue
            c2, t2 = guards.normalise(c, truth)
            if not (isinstance(c2, tuple) and c2[0] == 'bin' and t2 is True):
                continue
            if c2[1] in ('Le', 'Lt'):
                lo, hi = c2[2], c2[3]
            elif c2[1] in ('Ge', 'Gt'):
                lo, hi = c2[3], c2[2]
            else:
                continue
            if lo == e and 'reception_time_us' in show(hi):
                ok = True
        if not ok:
            return False
    return True


def phi_capped(cfg, E, b, v):
    """`let key = if raw > recv { recv } else { raw }`: the key is a local whose every definition is the reception time
    itself or a value stored under a guard `value <= reception time`"""
    from expr import show
    import guards
    if not (isinstance(v, tuple) and v[0] == 'place' and len(v) == 2):
        return None
    ls = b.locals_named(v[1])
    if len(ls) != 1:
        return None
    defs = cfg.defs.get(ls[0], [])
    if len(defs) < 2:
        return None
    for (bi, si, d) in defs:
        if si == 'call':
            return None
        e = E.rvalue(d.rv)
        if isinstance(e, tuple) and e[0] in ('place', 'proj') and 'reception_time_us' in show(e):
            continue
        ok = False
        for (c, truth, D) in guards.known(cfg, E, bi):
            if truth not in (True, False):
                continue
            c2, t2 = guards.normalise(c, truth)
            if not (isinstance(c2, tuple) and c2[0] == 'bin' and t2 is True):
                continue
            if c2[1] in ('Le', 'Lt'):
                lo, hi = c2[2], c2[3]
            elif c2[1] in ('Ge', 'Gt'):
                lo, hi = c2[3], c2[2]
            else:
                continue
            if lo == e and 'reception_time_us' in show(hi):
                ok = True
        if not ok:
            return None
    return 'every definition of %s is the reception time or a value guarded <= reception time' % v[1]


def subst(e, m):
    """replace parameter places of a helper by the caller's argument expressions"""
    if not isinstance(e, tuple):
        return e
    if e and e[0] == 'place' and len(e) >= 2 and e[1] in m:
        base = m[e[1]]
        if len(e) == 2:
            return base
        rest = e[2:]
        if base[0] == 'ref' and rest and rest[0] == '*':
            inner = base[1]
            return (inner + tuple(rest[1:])) if inner[0] in ('place', 'proj') else (('proj', inner) + tuple(rest[1:]))
        return (base + tuple(rest)) if base[0] in ('place', 'proj') else (('proj', base) + tuple(rest))
    return tuple(subst(x, m) for x in e)


def release_helpers(F, b, cfg, E):
    """private functions the sorter hands its heap to by `&mut` (the release loop moved into a helper): list of
    (call block in the sorter, helper body, {helper parameter name: caller's argument expression})"""
    out = []
    for blk in b.calls():
        c = blk.term.callee
        H = F.get(c.resolved) if c.resolved else F.get(c.path)
        if H is None or H.kind == 'closure' or H.path == b.path:
            continue
        if not any(re.match(r'&mut std::collections::(BinaryHeap|VecDeque)<|&mut std::vec::Vec<', a.ty or '') and 'SortedDltMessage' in (a.ty or '') for a in blk.term.args):
            continue
        m = {}
        for i, a in enumerate(blk.term.args):
            nm = H.name_of(i + 1) or 'arg%d' % (i + 1)
            m[nm] = E.operand(a)
        out.append((blk.i, H, m))
    return out


# ---------------------------------------------------------------------------------------------
# O3: the release threshold is never below the configured minimum delay

def check_threshold_floor(F, stages, O3):
    from expr import ExprBuilder, show
    """The ordering half of the property needs every buffered message to be held at least `min_buffer_delay_us`: the release
    threshold local of the sorter (compared as  calculated + threshold < reception  in the drain loop) must be >= the minimum
    on every path.  Structural form that makes this true by construction (unsigned arithmetic): every definition of the
    threshold is the minimum itself, the previous threshold, or `minimum + something` - including every return value of
    the closure that recomputes it."""
    n = 0
    for b in stages:
        cfg = CFG(b)
        E = ExprBuilder(cfg, fold_named=True)
        # the threshold: named local added to the heap key in the drain comparison `Lt(Add(key, T), recv)`
        thr = None
        conds = [E.switch_cond(blk) for blk in b.blocks if not blk.cleanup and blk.term.k == 'switch']
        # the comparison stored into a bool first (`let old_enough = match buffer.peek() { Some(m) => key + T < recv, None => false }`)
        for blk in b.blocks:
            if blk.cleanup:
                continue
            for s_ in blk.stmts:
                if s_.k == 'assign' and s_.rv['k'] == 'bin' and s_.rv['op'] in ('Lt', 'Le', 'Gt', 'Ge'):
                    conds.append(E.rvalue(s_.rv))
        for (_cb, H, m) in release_helpers(F, b, cfg, E):
            hE = ExprBuilder(CFG(H), fold_named=True)
            conds += [subst(hE.switch_cond(blk), m) for blk in H.blocks if not blk.cleanup and blk.term.k == 'switch']
        for c in conds:
            if isinstance(c, tuple) and c[0] == 'bin' and c[1] in ('Lt', 'Le', 'Gt', 'Ge'):
                for side in (c[2], c[3]):
                    if isinstance(side, tuple) and side[0] == 'bin' and side[1] == 'Add' and 'calculated_time_us' in show(side):
                        for x in (side[2], side[3]):
                            if isinstance(x, tuple) and x[0] == 'place' and len(x) == 2 and 'calculated_time_us' not in show(x):
                                thr = x[1]
        if thr is None:
            O3.violation(('anchor-lost', 'threshold', b.path), 'cannot find the release comparison `key + threshold < reception time` in ' + b.path)
            continue
        O3.fn(b.path)
        ls = b.locals_named(thr)
        minname = None

        def form(e, params_ok=()):
            """'min' | 'prev' | 'min+x' | None"""
            se = show(e)
            if re.search(r'min_buffer_delay_us\)?\)?$', se) and not se.startswith('Add('):
                return 'min'
            if isinstance(e, tuple) and e[0] == 'place' and len(e) == 2 and (e[1] == thr or e[1] in params_ok):
                return 'prev'
            if isinstance(e, tuple) and e[0] == 'bin' and e[1] == 'Add' and (form(e[2], params_ok) == 'min' or form(e[3], params_ok) == 'min'):
                return 'min+x'
            return None
        for l in ls:
            for (bi, si, d) in cfg.defs.get(l, []):
                n += 1
                O3.sites += 1
                if si != 'call' and d.rv['k'] == 'use':
                    from facts import Operand
                    o = Operand(d.rv['o'])
                    if o.place is not None and o.place.is_local:
                        sd = cfg.single_def(o.place.l)
                        if sd is not None and sd[1] == 'call':
                            si, d = 'call', sd[2]     # `thr = move _t` with `_t = recompute(..)`
                if si != 'call':
                    f = form(E.rvalue(d.rv))
                    if f:
                        O3.ok(sample={'threshold': thr, 'definition': show(E.rvalue(d.rv))[:60], 'form': f})
                    else:
                        O3.violation(('threshold-below-minimum', b.path, 'direct'), 'the release threshold `%s` is set to %s at %s, which is not of the form minimum / previous value / minimum + x' % (thr, show(E.rvalue(d.rv))[:80], b.loc(d.sp)), where=b.loc(d.sp))
                    continue
                cl = F.get(d.callee.resolved) if d.callee.resolved else None
                if cl is None:
                    O3.violation(('threshold-opaque', b.path), 'the release threshold `%s` is assigned from %s which cannot be resolved' % (thr, d.callee.path), where=b.loc(d.sp))
                    continue
                O3.fn(cl.path)
                ccfg = CFG(cl)
                cE = ExprBuilder(ccfg, fold_named=True)
                # the closure parameter that receives the previous threshold: first tuple element of the call
                prev_param = cl.name_of(2) if cl.kind == 'closure' else cl.name_of(1)
                bad = None
                nret = 0
                for (rb, rsi, rd) in ccfg.defs.get(0, []):
                    nret += 1
                    if rsi == 'call':
                        bad = (rb, 'result of ' + rd.callee.path)
                        continue
                    f = form(cE.rvalue(rd.rv), params_ok=(prev_param,))
                    if not f:
                        bad = (rb, show(cE.rvalue(rd.rv))[:80])
                if bad is None and nret:
                    O3.ok(sample={'threshold': thr, 'recomputed_by': cl.path, 'return_definitions': nret, 'each': 'previous value or minimum + x'})
                else:
                    O3.violation(('threshold-below-minimum', b.path, 'recompute'),
                                 'the closure %s that recomputes the release threshold can return %s, which is not the previous threshold and not `min_buffer_delay_us + x`: messages can be released before the configured minimum '
                                 'delay has passed, so a later message with a smaller calculated time is delivered out of order' % (cl.path, bad[1] if bad else 'nothing'), where=cl.loc(None))
    O3.floor('definitions of the release threshold', n, 2)


# ---------------------------------------------------------------------------------------------
# O5: inside the receive loop a message leaves the heap only by the age test

def check_release_only_by_age(F, stages, O5):
    """While messages are still arriving, the only reason to release the oldest buffered message is that it is older than the
    threshold: every `pop` of the heap inside the receive loop is dominated by the true edge of the release comparison
    `key + threshold < reception time`.  A second release path (capacity bound, timer, ...) emits messages that a later,
    legitimately older message should have preceded.  The drain after the end of input is outside the loop."""
    import guards
    from expr import ExprBuilder, show
    n = 0
    for b in stages:
        cfg = CFG(b)
        E = ExprBuilder(cfg, fold_named=True)
        O5.fn(b.path)
        loops = cfg.loops()
        recv_loop = None
        for hd, lb in loops.items():
            if any(b.blocks[x].term.k == 'call' and b.blocks[x].term.callee.path == 'std::iter::Iterator::next' and 'mpsc::' in (b.blocks[x].term.args[0].ty or '') for x in lb) or \
               any(b.blocks[x].term.k == 'call' and re.search(r'mpsc::Receiver::<T>::(recv|recv_timeout|try_recv)$', b.blocks[x].term.callee.path) for x in lb):
                if recv_loop is None or len(lb) > len(recv_loop):
                    recv_loop = lb
        if recv_loop is None:
            O5.violation(('anchor-lost', 'receive loop', b.path), 'no receive loop found in ' + b.path)
            continue
        pops = [blk for blk in b.calls() if re.search(r'(BinaryHeap::<T(, A)?>::pop|PeekMut::<.*>::pop|Vec::<T(, A)?>::pop|VecDeque::<T(, A)?>::pop_front)$', blk.term.callee.path) and
                'SortedDltMessage' in (blk.term.args[0].ty or '')]
        POP = r'(BinaryHeap::<T(, A)?>::pop|PeekMut::<.*>::pop|Vec::<T(, A)?>::pop|VecDeque::<T(, A)?>::pop_front)$'
        sites = [(b, cfg, E, blk, None) for blk in pops if blk.i in recv_loop]
        for (cb, H, m) in release_helpers(F, b, cfg, E):
            if cb not in recv_loop:
                continue
            O5.fn(H.path)
            hcfg = CFG(H)
            hE = ExprBuilder(hcfg, fold_named=True)
            for blk in H.calls():
                if re.search(POP, blk.term.callee.path) and 'SortedDltMessage' in (blk.term.args[0].ty or ''):
                    sites.append((H, hcfg, hE, blk, m))
        for (xb, xcfg, xE, blk, m) in sites:
            n += 1
            O5.sites += 1
            ok = None
            for (c, truth, D) in guards.known(xcfg, xE, blk.i):
                if m is not None:
                    c = subst(c, m)
                sc = show(c)
                if truth is True and isinstance(c, tuple) and c[0] == 'bin' and c[1] in ('Lt', 'Le', 'Gt', 'Ge') and 'calculated_time_us' in sc and 'reception_time_us' in sc and 'Add(' in sc:
                    ok = sc
            if ok:
                O5.ok(sample={'pop_at': xb.loc(blk.term.sp), 'only_under': ok[:90], 'in': xb.path})
            else:
                O5.violation(('released-without-age-test', b.path), 'the sorter pops a buffered message at %s inside the receive loop without a dominating release comparison (key + threshold < reception time): '
                             'a message can be emitted before the threshold has passed and a later, older message follows it' % xb.loc(blk.term.sp), where=xb.loc(blk.term.sp))
    O5.floor('heap pops inside the receive loop of the sorter', n, 1)


# ---------------------------------------------------------------------------------------------
# O6: control requests are keyed by their reception time

def check_ctrl_request_key(b, O6, F=None, O8=None):
    """"sorted by lifecycle start + timestamp, reception time for control requests": a control request is injected by the logger,
    its timestamp field (if any) is not on the sender's clock.  Every definition of the value that becomes the heap key is
    either the reception time of the message, or lies behind the false edge of `is_ctrl_request()`."""
    from expr import ExprBuilder, show
    from facts import Operand
    import guards
    cfg = CFG(b)
    E = ExprBuilder(cfg, fold_named=True)
    E0 = ExprBuilder(cfg)
    O6.fn(b.path)
    keys = set()
    for blk in b.blocks:
        if blk.cleanup:
            continue
        for s in blk.stmts:
            if s.k == 'assign' and s.rv['k'] == 'agg' and s.rv.get('adt', '').endswith('SortedDltMessage') and 'calculated_time_us' in (s.rv.get('fields') or []):
                o = Operand(s.rv['ops'][s.rv['fields'].index('calculated_time_us')])
                if o.place is not None and o.place.is_local:
                    l = o.place.l
                    sd = cfg.single_def(l)
                    if sd is not None and sd[1] != 'call' and sd[2].rv['k'] == 'use' and Operand(sd[2].rv['o']).place is not None and Operand(sd[2].rv['o']).place.is_local and not Operand(sd[2].rv['o']).place.p:
                        l = Operand(sd[2].rv['o']).place.l
                    keys.add(l)
    n = 0
    counted = [0]

    def judge_local(x, xcfg, xE, xE0, l, seen, out):
        """every definition of local l of body x: reception time, a min()/copy of judged values, a value computed by a closure /
        helper of the crate that is judged the same way, or behind !is_ctrl_request()"""
        if (x.path, l) in seen:
            return
        seen.add((x.path, l))
        for (bi, si, d) in xcfg.defs.get(l, []):
            counted[0] += 1
            not_ctrl = any(truth is False and isinstance(c, tuple) and c[0] == 'call' and c[1].endswith('::is_ctrl_request') for (c, truth, D) in guards.known(xcfg, xE0, bi))
            if not_ctrl:
                continue
            if si == 'call':
                p = d.callee.path
                if re.search(r'(cmp::min|Ord::min)$', p):
                    for a in d.args:
                        judge_operand(x, xcfg, xE, xE0, a, seen, out, d.sp)
                    continue
                H = F.get(d.callee.resolved) if (F is not None and d.callee.resolved) else None
                if H is not None and H.crate == 'lib' and re.search(r'\bu64\b', H.ret_type()):
                    hcfg = CFG(H)
                    judge_local(H, hcfg, ExprBuilder(hcfg, fold_named=True), ExprBuilder(hcfg), 0, seen, out)
                    O6.fn(H.path)
                    continue
                out.append(('result of ' + p, x.loc(d.sp)))
                continue
            if d.rv['k'] in ('use', 'cast'):
                o_ = Operand(d.rv['o'])
                e_ = xE.operand(o_) if o_.place is not None else None
                if isinstance(e_, tuple) and e_[0] in ('place', 'proj') and show(e_).endswith('.reception_time_us'):
                    # the converse: the reception time itself is the key only for control requests - or as the cap of a larger value
                    kn = guards.known(xcfg, xE0, bi)
                    is_ctrl = any(truth is True and isinstance(c, tuple) and c[0] == 'call' and c[1].endswith('::is_ctrl_request') for (c, truth, D) in kn)
                    is_cap = any(truth is True and isinstance(c, tuple) and c[0] == 'bin' and ((c[1] in ('Gt', 'Ge') and 'reception_time_us' in show(xE.operand_expr(c[3]) if hasattr(xE, 'operand_expr') else c[3])) or
                                                                                               (c[1] in ('Lt', 'Le') and 'reception_time_us' in show(c[2]))) for (c, truth, D) in guards.known(xcfg, xE, bi))
                    if not (is_ctrl or is_cap):
                        out2.append((show(e_)[:70], x.loc(d.sp)))
                    continue
                judge_operand(x, xcfg, xE, xE0, o_, seen, out, d.sp)
                continue
            out.append((show(xE.rvalue(d.rv))[:70], x.loc(d.sp)))

    def judge_operand(x, xcfg, xE, xE0, o, seen, out, sp):
        if o.place is None:
            out.append(('a constant', x.loc(sp)))
            return
        e = xE.operand(o)
        if isinstance(e, tuple) and e[0] in ('place', 'proj') and show(e).endswith('.reception_time_us'):
            return
        if o.place.is_local and not o.place.p and o.place.l > x.arg_count:
            judge_local(x, xcfg, xE, xE0, o.place.l, seen, out)
            return
        out.append((show(e)[:70], x.loc(sp)))
    out2 = []
    for l in keys:
        bad = []
        judge_local(b, cfg, E, E0, l, set(), bad)
        if out2 and O8 is not None:
            val, where = out2[0]
            O8.violation(('non-ctrl-keyed-by-reception', b.path), 'the sort key is set to the reception time (%s) on a path that is neither limited to control requests nor the cap of a larger value: '
                         'messages of the sender clock domain must be keyed by lifecycle start + timestamp (a message without timestamp by the lifecycle start)' % where, where=where)
        elif O8 is not None:
            O8.ok(sample={'reception_time_as_key': 'only under is_ctrl_request() or as the cap'})
        n = counted[0]
        O6.sites += n
        if bad:
            val, where = bad[0]
            O6.violation(('ctrl-request-not-keyed-by-reception', b.path), 'the sort key can be %s (%s) on a path that a control request can take (no dominating `!is_ctrl_request()`): '
                         'control requests must be sorted by their reception time, their timestamp is not on the sender clock' % (val, where), where=where)
        else:
            O6.ok(sample={'key_definitions_examined': n, 'each': 'reception time, min()/copy of such values, or only for messages that are not control requests'})
    O6.floor('definitions of the heap key in the sorter', n, 2)


# ---------------------------------------------------------------------------------------------
# O7: the lifecycle start cache is keyed by the id

def check_lifecycle_start_verbatim(F, stages, O10):
    """key = lifecycle start + timestamp: "lifecycle start" is the `start_time` the lifecycle stage published.  Any other
    notion of start (the display order's resume_start_time(), end_time() - duration, ..) differs for some lifecycles only
    (resumed ones) and shifts the keys of exactly those messages against parallel ECUs."""
    import json
    n = 0
    for b in stages:
        for x in [b] + list(F.closures_of(b.path)):
            for blk in x.blocks:
                if blk.cleanup:
                    continue
                for s_ in blk.stmts:
                    if s_.k != 'assign':
                        continue
                    for m in re.finditer(r'"n": "(\w+)", "o": "adlt::lifecycle::Lifecycle"', json.dumps(s_.d)):
                        n += 1
                        O10.sites += 1
                        O10.fn(x.path)
                        if m.group(1) == 'start_time' and s_.rv['k'] in ('use', 'cast', 'ref') and s_.place.is_local:
                            O10.ok(sample={'reads': 'Lifecycle.start_time', 'at': x.loc(s_.sp)})
                        else:
                            O10.violation(('lifecycle-field-other-than-start-time', x.path, m.group(1)), 'the sorter touches the field `%s` of a lifecycle at %s (only a plain read of start_time is expected)' % (m.group(1), x.loc(s_.sp)), where=x.loc(s_.sp))
                t = blk.term
                if t.k == 'call' and any(re.match(r'^&?(mut )?adlt::lifecycle::Lifecycle$', a.ty or '') for a in t.args):
                    n += 1
                    O10.sites += 1
                    O10.fn(x.path)
                    import comparators
                    gf = comparators.getter_fields(F, t.callee.resolved or t.callee.path)
                    if gf and gf[-1][1] == 'start_time' and gf[-1][0] == 'adlt::lifecycle::Lifecycle' and len(gf) == 1:
                        O10.ok(sample={'reads': 'Lifecycle.start_time through the accessor %s' % t.callee.path.split('::')[-1], 'at': x.loc(t.sp)})
                    else:
                        O10.violation(('lifecycle-start-derived', x.path, t.callee.path.split('::')[-1]), 'the sorter calls %s on a lifecycle at %s: the sort key must be built from the published start_time itself, a derived start differs for some lifecycles only (e.g. resumed ones) and misorders their messages against parallel ECUs' %
                                      (t.callee.path, x.loc(t.sp)), where=x.loc(t.sp))
    O10.floor('reads of a lifecycle table entry in the sorter', n, 1)


def check_heap_order(F, stages, O9):
    """ties in original order: the heap element's order must be the lexicographic order by (calculated time, index of the
    message).  The comparator touches its arguments only through comparisons, so it is a function of the finite tuple of
    field relations; ordmodel evaluates it for every such tuple and the table is compared with the required order.  Any
    further key in front of the index (timestamp, reception time, ..) reorders messages that tie on the calculated time."""
    import ordmodel
    elem = None
    for b in stages:
        for l in b.locals:
            m = re.search(r'(adlt::[\w:]*SortedDltMessage)', l['t']) if l['cm'] else None
            if m and re.match(r'std::collections::|std::vec::Vec<', l['t']):
                elem = m.group(1)
    adt = F.adts.get(elem) if elem else None
    if adt is None:
        O9.floor('heap element type of the sorter', 0, 1)
        return
    flds = adt['variants'][0]['fields']
    msgf = [f['n'] for f in flds if f['t'] == 'adlt::dlt::DltMessage']
    keyf = [f['n'] for f in flds if f['t'] == 'u64']
    if len(msgf) != 1 or len(keyf) != 1:
        O9.violation(('heap-element-shape', elem), 'the heap element %s is no longer (message, one u64 key): the required order cannot be named' % elem)
        return
    keys = [(keyf[0],), (msgf[0], 'index')]
    n_ord = n_pord = 0
    for b in F.order:
        if (b.impl_self or '') != elem or b.impl_trait not in ('std::cmp::Ord', 'std::cmp::PartialOrd'):
            continue
        nm = b.path.split('::')[-1]
        pred = {'lt': 'Lt', 'le': 'Le', 'gt': 'Gt', 'ge': 'Ge'}.get(nm)
        if nm not in ('cmp', 'partial_cmp') and pred is None:
            continue        # max/min/clamp: not used by the heap
        O9.fn(b.path)
        O9.sites += 1
        if nm == 'cmp':
            n_ord += 1
        elif nm == 'partial_cmp':
            n_pord += 1
        try:
            table = ordmodel.decision_table(F, b, result='bool' if pred else 'ord')
        except ordmodel.Undecided as e:
            O9.violation(('heap-order-undecided', b.path), 'the order %s of the heap element leaves the ordering model (%s): it is not a function of field-by-field comparisons of the two elements' % (b.path, e), where=b.loc(None))
            continue
        O9.paths += len(table)
        bad = ordmodel.lexicographic_violations(table, keys, pred)
        if bad:
            val, res, exp, why = bad[0]
            O9.violation(('heap-order-not-time-then-index', b.path),
                         '%s does not order by (%s, %s.index): for %s it returns %s (%s) — messages that tie on the calculated time leave the sorter in another order than they entered' %
                         (b.path, keyf[0], msgf[0], ', '.join('%s %s' % ('.'.join(p), '<=>'[r + 1]) for p, r in val) or 'every input', res, why), where=b.loc(None),
                         witness={'table': [[['.'.join(p), r] for p, r in v] + [res_] for v, res_ in table][:30]})
        else:
            O9.ok(sample={'function': b.path, 'orderings_decided': len(table), 'order': '(%s, %s.index)' % (keyf[0], msgf[0])})
    O9.floor('Ord::cmp of the heap element', n_ord, 1)
    O9.floor('PartialOrd::partial_cmp of the heap element', n_pord, 1)


def check_start_time_cache(F, stages, O7):
    """"sorted by lifecycle start + timestamp": the sorter caches the start time per lifecycle id in a closure id -> u64.  The cached
    value belongs to exactly that id only if every container access in the closure whose key depends on the id uses the id
    verbatim (map.get(&id) / insert(id, ..) / read handle get_one(&id)).  A computed slot (id - first_id, id % n, a hash
    truncated to an index) lets two lifecycles share one entry: the second gets the first one's start time and its
    messages are sorted into the wrong place."""
    from expr import ExprBuilder, show
    from facts import Operand
    from prov import Prov
    n = 0
    for b in stages:
        for cl in F.closures_of(b.path):
            at = cl.arg_types()
            if not (len(at) == 2 and at[1] in ('u32', '&u32') and cl.ret_type() == 'u64' and cl.closure_of == b.path):
                continue
            O7.fn(cl.path)
            cfg = CFG(cl)
            E = ExprBuilder(cfg, fold_named=True)
            pr = Prov(cfg)
            pname = cl.name_of(2) or 'arg2'
            sites = []
            for blk in cl.blocks:
                if blk.cleanup:
                    continue
                t = blk.term
                if t.k == 'call' and re.search(r'::(get|get_mut|insert|entry|remove|contains_key|get_one|index|index_mut|get_or_insert_with)$', t.callee.path) and len(t.args) >= 2:
                    sites.append((blk, t.args[1], t.callee.path.split('::')[-1]))
                if t.k == 'assert' and t.d['ak'] == 'BoundsCheck':
                    sites.append((blk, Operand(t.d['ops'][1]), 'index'))
            for (blk, key, what) in sites:
                toks = pr.operand(key, at=blk.i)
                if not any(tk[0] == 'param' and tk[1] == pname for tk in toks):
                    continue
                n += 1
                O7.sites += 1
                e = E.operand(key)
                while isinstance(e, tuple) and (e[0] == 'ref' or (e[0] in ('proj', 'place') and len(e) > 2 and all(p_ == '*' for p_ in e[2:])) or (e[0] == 'proj' and len(e) == 2)):
                    e = e[1] if e[0] != 'place' else ('place', e[1])
                    if e[0] == 'place' and len(e) == 2:
                        break
                if e == ('place', pname):
                    O7.ok(sample={'closure': cl.path, 'access': what, 'key': 'the lifecycle id itself', 'at': cl.loc(blk.term.sp)})
                else:
                    O7.violation(('cache-key-computed-from-id', b.path, what), 'the lifecycle-start cache of the sorter is accessed (%s) at %s with the key %s computed from the lifecycle id: two different ids can map to one slot and then share a start time, '
                                 'so the messages of one of them are sorted by the wrong lifecycle start' % (what, cl.loc(blk.term.sp), show(E.operand(key))[:70]), where=cl.loc(blk.term.sp))
    O7.floor('id-keyed accesses in the lifecycle-start cache closure of the sorter', n, 2)
