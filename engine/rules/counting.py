"""Counting loops: `let mut c = K; for x in <iter> { if <pred> { c += 1 } }` is the explicit form of
`<iter>.filter(<pred>).count() + K`.  Recognised structurally so that rules that demand "the number of ... equals ..."
accept both spellings."""
from expr import ExprBuilder, show
import guards


def counting_loop(cfg, E, l):
    """local `l` counts: exactly one constant initialisation K whose block is outside every loop that contains an increment,
    every other definition is `l = l + 1` and all of them lie in one loop whose header pulls from `Iterator::next(&it)`.
    Returns {'init': K, 'loop': header, 'source': show(it), 'conds': [[(show(cond), truth), ...] per increment]} or None."""
    body = cfg.body
    ds = cfg.defs.get(l, [])
    if len(ds) < 2:
        return None
    name = body.name_of(l)
    me = ('place', name) if name else None
    inits, incs = [], []
    for (bi, i, st) in ds:
        if i == 'call':
            return None
        e = E.rvalue(st.rv)
        if e[0] == 'const' and isinstance(e[1], int):
            inits.append((bi, e[1]))
        elif e[0] == 'bin' and e[1] == 'Add' and e[2] == me and e[3] == ('const', 1):
            incs.append(bi)
        else:
            return None
    if len(inits) != 1 or not incs or me is None:
        return None
    loops = cfg.loops()
    # increments outside every loop are constant additions before / after the counting (`n += 1` for the element at hand)
    in_loop = [b for b in incs if any(b in lb for lb in loops.values() if inits[0][0] not in lb)]
    post = [b for b in incs if b not in in_loop]
    if not in_loop:
        return None
    # innermost loop (not containing the initialisation) that holds every counting increment
    cands = [(len(lb), hd) for hd, lb in loops.items() if all(b in lb for b in in_loop) and inits[0][0] not in lb]
    if not cands:
        return None
    hd = min(cands)[1]
    lb = loops[hd]
    if inits[0][0] in lb or not cfg.dominates(inits[0][0], hd):
        return None
    if any(b in lb for b in post):
        return None
    incs = in_loop
    inits = [(inits[0][0], inits[0][1] + len(post))]
    # the loop is driven by an iterator: a switch in the loop on discr(Iterator::next(&src)) one of whose edges leaves the loop
    src = None
    for b in sorted(lb):
        t = body.blocks[b].term
        if t.k != 'switch':
            continue
        c = E.switch_cond(body.blocks[b])
        s = show(c)
        if s.startswith('discr(Iterator::next(') and any(x not in lb for x in cfg.succ[b]):
            src = s[len('discr(Iterator::next('):-2]
    if src is None:
        return None
    conds = []
    for b in incs:
        conds.append([(show(c), t) for (c, t, D) in guards.known(cfg, E, b) if D in lb and t in (True, False)])
    return {'init': inits[0][1], 'loop': hd, 'source': src, 'conds': conds, 'body': lb}
