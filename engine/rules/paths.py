"""P-path: path exploration with constant propagation of flag locals and enum-variant facts.

State = (flags, facts):
  flags : tuple of (local, 0|1) for bool locals that are only ever assigned constants or copies of
          other such locals (the compiler's drop flags and the code's own boolean flags);
  facts : frozenset of hashable tokens.  Built-in tokens: ('var', place_key, variant_index) = the enum
          stored in that place is known to be in that variant (learned on SwitchInt edges over a
          discriminant read / is_err / is_ok / is_some / is_none, propagated through Try::branch);
          killed when the root local is written.  Rules add their own tokens through callbacks.
Every branch that is not decided by a known flag takes all edges (over-approximation)."""
from facts import Place, Operand
from cfg import CFG

TWO_VARIANT = ('std::option::Option<', 'std::result::Result<', 'std::ops::ControlFlow<')

IS_PRED = {
    'std::result::Result::<T, E>::is_err': (1, 0),   # (variant if true, variant if false)
    'std::result::Result::<T, E>::is_ok': (0, 1),
    'std::option::Option::<T>::is_some': (1, 0),
    'std::option::Option::<T>::is_none': (0, 1),
}


def find_flag_locals(cfg):
    body = cfg.body
    cand = set()
    for i, l in enumerate(body.locals):
        if l['t'] == 'bool' and i > body.arg_count:
            cand.add(i)
    # address taken mutably or assigned through projection -> not a flag
    bad = set()
    for b in body.blocks:
        for s in b.stmts:
            if s.k != 'assign':
                continue
            rv = s.rv
            if rv['k'] in ('ref', 'rawptr') and rv.get('mut'):
                p = Place(rv['p'])
                if p.is_local and p.l in cand:
                    bad.add(p.l)
    cand -= bad
    changed = True
    while changed:
        changed = False
        for l in list(cand):
            for (bi, si, d) in cfg.defs.get(l, []):
                ok = False
                if si != 'call':
                    rv = d.rv
                    if rv['k'] == 'use':
                        o = Operand(rv['o'])
                        if o.is_const and o.value is not None:
                            ok = True
                        elif o.place is not None and o.place.is_local and o.place.l in cand:
                            ok = True
                if not ok:
                    cand.discard(l)
                    changed = True
                    break
    # flags never defined in non-cleanup code are useless
    return {l for l in cand if cfg.defs.get(l)}


def partial_flags(cfg):
    """bool locals (beyond the parameters) with at least one constant definition, closed under copies: candidates for
    Explorer(extra_flags=..) - their value is unknown after a non-constant definition and learnt again at a switch"""
    body = cfg.body
    xf = set()
    for l, ds in cfg.defs.items():
        if body.lty(l) == 'bool' and l > body.arg_count and \
                any(si != 'call' and d.rv['k'] == 'use' and Operand(d.rv['o']).is_const for (bi, si, d) in ds):
            xf.add(l)
    grew = True
    while grew:
        grew = False
        for l, ds in cfg.defs.items():
            if l in xf or body.lty(l) != 'bool' or l <= body.arg_count:
                continue
            for (bi, si, d) in ds:
                if si != 'call' and d.rv['k'] == 'use':
                    o = Operand(d.rv['o'])
                    if o.place is not None and o.place.is_local and o.place.l in xf:
                        xf.add(l)
                        grew = True
                        break
    return xf


class SwitchInfo:
    """what each edge of a switch block tells us"""
    __slots__ = ('flag', 'var_roots', 'edges', 'pred_call', 'inverted')

    def __init__(self):
        self.flag = None        # flag local switched on (or None)
        self.var_roots = []     # list of place keys whose variant is learned
        self.inverted = set()   # roots whose variant index is the opposite one (Option behind Try::branch: Break(1) <-> None(0))
        self.edges = []         # list of (value or None for otherwise, target, variant or None)
        self.pred_call = None


def place_key(p):
    return p.key()


def analyse_switches(cfg, flags):
    """block index -> SwitchInfo"""
    body = cfg.body
    out = {}
    for b in body.blocks:
        if b.cleanup or b.term.k != 'switch':
            continue
        d = Operand(b.term.d['d'])
        info = SwitchInfo()
        vals = b.term.d['vals']
        oth = b.term.d['otherwise']
        oth_reachable = body.blocks[oth].term.k != 'unreachable' or bool(body.blocks[oth].stmts)
        info.edges = [(v, t, None) for v, t in vals] + ([(None, oth, None)] if oth_reachable else [])
        if d.place is not None and d.place.is_local:
            l = d.place.l
            # a flag (or a single-def copy of a flag)
            if l in flags:
                info.flag = l
            sd = cfg.single_def(l)
            if sd is not None:
                if sd[1] != 'call':
                    rv = sd[2].rv
                    if rv['k'] == 'discr':
                        p0 = Place(rv['p'])
                        # through Try::branch: ControlFlow Break(1) <-> Err(1), Continue(0) <-> Ok(0)
                        tb = try_branch_sources(cfg, p0)
                        if tb:
                            p = p0       # the ControlFlow temp itself (origin() would already look through Try::branch)
                        else:
                            p = cfg._resolve_place(p0, 0)
                        roots = [p]
                        roots += tb
                        info.var_roots = [place_key(r) for r in roots]
                        info.inverted = set(place_key(r) for r in tb if r.t.startswith('std::option::Option<'))
                        two = p.t.startswith(TWO_VARIANT)
                        new_edges = []
                        seen_vals = [v for v, _ in vals]
                        for (v, t, _) in info.edges:
                            if v is not None:
                                new_edges.append((v, t, v))
                            elif two and len(seen_vals) == 1 and seen_vals[0] in (0, 1):
                                new_edges.append((None, t, 1 - seen_vals[0]))
                            else:
                                new_edges.append((None, t, None))
                        info.edges = new_edges
                else:
                    c = sd[2].callee
                    tv = IS_PRED.get(c.path)
                    if tv is not None:
                        a0 = sd[2].args[0]
                        p = cfg.origin_of_operand(a0)
                        if p is not None:
                            roots = [p] + try_branch_sources(cfg, p)
                            info.var_roots = [place_key(r) for r in roots]
                            new_edges = []
                            for (v, t, _) in info.edges:
                                if v == 0:
                                    new_edges.append((v, t, tv[1]))
                                else:
                                    new_edges.append((v, t, tv[0]))
                            info.edges = new_edges
                            info.pred_call = c.path
        out[b.i] = info
    return out


def try_branch_sources(cfg, p):
    """if place p is (a local that is) the destination of Try::branch(move r), return [origin(r)]"""
    out = []
    if p.is_local:
        sd = cfg.single_def(p.l)
        if sd is not None and sd[1] == 'call' and sd[2].callee.path == 'std::ops::Try::branch':
            src = cfg.origin_of_operand(sd[2].args[0])
            if src is not None:
                out.append(src)
                # one more hop: r itself may be a moved copy of a call result
    return out


class Explorer:
    def __init__(self, cfg, block_effect=None, edge_effect=None, max_states=400000, use_var_facts=True, var_roots=None, extra_flags=None):
        self.cfg = cfg
        self.body = cfg.body
        allflags = find_flag_locals(cfg)
        # extra_flags: bool locals that also have non-constant definitions (call results, negations): their value is simply
        # unknown after such a definition and learnt again on the edges of a switch over them
        if extra_flags:
            allflags = set(allflags) | set(extra_flags)
            # .. and the temporaries that merely copy them (`_t = copy flag; switchInt(move _t)`)
            changed = True
            while changed:
                changed = False
                for i, l in enumerate(self.body.locals):
                    if l['t'] != 'bool' or i in allflags or i <= self.body.arg_count:
                        continue
                    ds = cfg.defs.get(i, [])
                    if ds and all(si != 'call' and d.rv['k'] == 'use' and Operand(d.rv['o']).place is not None and Operand(d.rv['o']).place.is_local
                                  and not Operand(d.rv['o']).place.p and Operand(d.rv['o']).place.l in allflags for (bi, si, d) in ds):
                        allflags.add(i)
                        changed = True
        self.sw = analyse_switches(cfg, allflags)
        # only flags that (transitively through copies) reach a switch matter
        used = set(i.flag for i in self.sw.values() if i.flag is not None)
        changed = True
        while changed:
            changed = False
            for l in list(used):
                for (bi, si, d) in cfg.defs.get(l, []):
                    if si != 'call' and d.rv['k'] == 'use':
                        o = Operand(d.rv['o'])
                        if o.place is not None and o.place.is_local and o.place.l in allflags and o.place.l not in used:
                            used.add(o.place.l)
                            changed = True
        self.flags = used
        # variant facts are tracked for the rule's roots and for roots tested in more than one switch
        cnt = {}
        for i in self.sw.values():
            for r in i.var_roots:
                cnt[r] = cnt.get(r, 0) + 1
        self.var_track = set(r for r, c in cnt.items() if c > 1)
        if var_roots is not None:
            self.var_track |= set(var_roots)
        else:
            self.var_track |= set(cnt)
        for i in self.sw.values():
            i.var_roots = [r for r in i.var_roots if r in self.var_track]
        self.block_effect = block_effect
        self.edge_effect = edge_effect
        self.max_states = max_states
        self.use_var_facts = use_var_facts
        self.states = {}      # block -> set of states at block entry
        self.parent = {}      # (block, state) -> (pred block, pred state)
        self.out_states = {}  # block -> set of states after the block's statements (before terminator)
        self.out_entry = {}   # (block, out state) -> one entry state leading to it
        self.n_states = 0

    # --- transfer of one block's statements + call destination on flags/facts
    def _through_block(self, b, flags, facts):
        fl = dict(flags)
        kills = set()
        for s in b.stmts:
            if s.k == 'assign':
                l = s.place.l
                if s.place.is_local and l in self.flags:
                    rv = s.rv
                    o = Operand(rv['o']) if rv['k'] == 'use' else None
                    if o is not None and o.is_const and o.value is not None:
                        fl[l] = 1 if o.value else 0
                    elif o is not None and o.place is not None and o.place.is_local and o.place.l in fl:
                        fl[l] = fl[o.place.l]
                    else:
                        fl.pop(l, None)
                if not s.place.has_deref():
                    kills.add(l)
            elif s.k == 'setdiscr':
                kills.add(s.place.l)
        if b.term.k == 'call':
            dp = b.term.dest
            if not dp.has_deref():
                kills.add(dp.l)
            if dp.is_local:
                fl.pop(dp.l, None)
        if kills and facts:
            facts = frozenset(f for f in facts if not (f[0] == 'var' and f[1][0] in kills))
        if self.block_effect is not None:
            facts = self.block_effect(b, facts)
        return fl, facts

    def run(self, start=0, init_facts=frozenset()):
        body = self.body
        init = ((), frozenset(init_facts))
        self.states = {start: {init}}
        work = [(start, init)]
        self.n_states = 1
        while work:
            bi, st = work.pop()
            b = body.blocks[bi]
            fl, facts = self._through_block(b, st[0], st[1])
            ost = (tuple(sorted(fl.items())), facts)
            self.out_states.setdefault(bi, set()).add(ost)
            self.out_entry.setdefault((bi, ost), st)
            t = b.term
            if t.k == 'switch':
                info = self.sw[bi]
                edges = info.edges
                chosen = None
                if info.flag is not None and info.flag in fl:
                    v = fl[info.flag]
                    for e in edges:
                        if e[0] == v:
                            chosen = [e]
                            break
                    if chosen is None:
                        chosen = [e for e in edges if e[0] is None]
                # variant knowledge may also decide the edge
                if chosen is None and info.var_roots and self.use_var_facts:
                    known = None
                    for f in facts:
                        if f[0] == 'var' and f[1] in info.var_roots:
                            known = (1 - f[2]) if (f[1] in info.inverted and f[2] in (0, 1)) else f[2]
                            break
                    if known is not None:
                        ch = [e for e in edges if e[2] == known]
                        if ch:
                            chosen = ch
                if chosen is None:
                    chosen = edges
                for (v, tgt, variant) in chosen:
                    nfl = fl
                    if info.flag is not None and v is not None:
                        nfl = dict(fl)
                        nfl[info.flag] = v
                    elif info.flag is not None and v is None and [e[0] for e in edges if e[0] is not None] == [0]:
                        nfl = dict(fl)
                        nfl[info.flag] = 1
                    nfacts = facts
                    if variant is not None and info.var_roots and self.use_var_facts:
                        nf = set(f for f in facts if not (f[0] == 'var' and f[1] in info.var_roots))
                        for r in info.var_roots:
                            nf.add(('var', r, (1 - variant) if (r in info.inverted and variant in (0, 1)) else variant))
                        nfacts = frozenset(nf)
                    self._push(work, bi, st, tgt, nfl, nfacts)
            else:
                for tgt in t.succs():
                    if body.blocks[tgt].cleanup:
                        continue
                    self._push(work, bi, st, tgt, fl, facts)
        return self

    def _push(self, work, bi, st, tgt, fl, facts):
        if self.edge_effect is not None:
            facts = self.edge_effect(self.body.blocks[bi], tgt, facts)
            if facts is None:
                return
        ns = (tuple(sorted(fl.items())), facts)
        ss = self.states.setdefault(tgt, set())
        if ns in ss:
            return
        ss.add(ns)
        self.parent[(tgt, ns)] = (bi, st)
        self.n_states += 1
        if self.n_states > self.max_states:
            raise RuntimeError('state explosion in %s' % self.body.path)
        work.append((tgt, ns))

    def witness(self, bi, st, limit=400):
        """block path from entry to (bi, st)"""
        path = [bi]
        cur = (bi, st)
        while cur in self.parent and len(path) < limit:
            cur = self.parent[cur]
            path.append(cur[0])
        path.reverse()
        return path

    def has_var(self, facts, key, variant):
        return ('var', key, variant) in facts
