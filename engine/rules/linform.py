"""Linear forms over named atoms: offsets and sizes in the parsers are sums of a few quantities (framing constant, header size,
length field, input length).  Two spellings of the same offset (`C + hdr + (len - hdr)` and `C + len`, a counter decremented
step by step, a value returned by a small helper) have the same linear form, so rules compare linear forms instead of
expression shapes."""
import re
from cfg import CFG
from expr import ExprBuilder, show


def subst(e, m):
    """replace parameter places of a helper by the caller's argument expressions"""
    if not isinstance(e, tuple):
        return e
    if e and e[0] == 'place' and len(e) >= 2 and e[1] in m:
        base = m[e[1]]
        if len(e) == 2:
            return base
        rest = e[2:]
        if base[0] == 'ref' and rest and rest[0] == '*':
            inner = base[1]
            return (inner + tuple(rest[1:])) if inner[0] in ('place', 'proj') else (('proj', inner) + tuple(rest[1:]))
        return (base + tuple(rest)) if base[0] in ('place', 'proj') else (('proj', base) + tuple(rest))
    return tuple(subst(x, m) for x in e)


def add(a, b, k=1):
    out = dict(a)
    for x, c in b.items():
        out[x] = out.get(x, 0) + k * c
        if out[x] == 0:
            del out[x]
    return out


class Lin:
    def __init__(self, F, body, cfg=None, atoms=None):
        """atoms: list of (name, predicate(expr, shown text) -> bool)"""
        self.F = F
        self.body = body
        self.cfg = cfg or CFG(body)
        self.E = ExprBuilder(self.cfg, fold_named=True)
        self.atoms = atoms or []
        self.inlined = set()

    def inline_call(self, e):
        """('proj', ('call', path, args), projs..) of a crate function with one returned aggregate: the selected component with
        the parameters replaced by the arguments; else None"""
        if not (isinstance(e, tuple) and e[0] in ('proj', 'call')):
            return None
        call = e[1] if e[0] == 'proj' else e
        projs = list(e[2:]) if e[0] == 'proj' else []
        if not (isinstance(call, tuple) and call[0] == 'call'):
            return None
        H = self.F.get(call[1]) if self.F is not None else None
        if H is None or H.kind == 'closure' or H.crate not in ('lib', 'bin') or H.path == self.body.path:
            return None
        hcfg = CFG(H)
        hE = ExprBuilder(hcfg, fold_named=True)
        rets = []
        for (bi, si, d) in hcfg.defs.get(0, []):
            if si == 'call':
                return None
            v = hE.rvalue(d.rv)
            if isinstance(v, tuple) and v[0] == 'agg' and v[1].endswith(('Option::None', 'Result::Err')):
                continue
            rets.append(v)
        if len(rets) != 1:
            return None
        v = rets[0]
        m = {}
        for i, a in enumerate(call[2]):
            m[H.name_of(i + 1) or 'arg%d' % (i + 1)] = a
        # walk the projections through the returned aggregate
        while projs:
            p = projs[0]
            if isinstance(v, tuple) and v[0] == 'agg' and v[1].endswith(('Option::Some', 'Result::Ok')) and p in ('@Some', '@Ok'):
                projs = projs[1:]
                if projs and projs[0] == '.0' and len(v[2]) == 1:
                    v = v[2][0]
                    projs = projs[1:]
                continue
            if isinstance(v, tuple) and v[0] == 'agg' and v[1] == 'tuple' and re.match(r'^\.\d+$', p) and int(p[1:]) < len(v[2]):
                v = v[2][int(p[1:])]
                projs = projs[1:]
                continue
            return None
        self.inlined.add(H.path)
        return subst(v, m)

    def lin(self, e, at=None, depth=0):
        """dict atom -> integer coefficient (key 1 = constant part); unknown sub-expressions become atoms of their own text"""
        if depth > 12 or not isinstance(e, tuple):
            return {('?', str(e)[:40]): 1}
        se = show(e)
        for (name, pred) in self.atoms:
            if pred(e, se):
                return {name: 1}
        if e[0] == 'const' and isinstance(e[1], int):
            return {1: e[1]} if e[1] else {}
        if e[0] == 'cast':
            return self.lin(e[1], at, depth + 1)
        if e[0] == 'bin' and e[1] in ('Add', 'Sub'):
            return add(self.lin(e[2], at, depth + 1), self.lin(e[3], at, depth + 1), 1 if e[1] == 'Add' else -1)
        if e[0] == 'bin' and e[1] == 'Mul':
            a, b = self.lin(e[2], at, depth + 1), self.lin(e[3], at, depth + 1)
            if set(a) <= {1}:
                return {k: v * a.get(1, 0) for k, v in b.items() if v * a.get(1, 0)}
            if set(b) <= {1}:
                return {k: v * b.get(1, 0) for k, v in a.items() if v * b.get(1, 0)}
        if e[0] in ('proj', 'call'):
            inl = self.inline_call(e)
            if inl is not None:
                return self.lin(inl, at, depth + 1)
        if e[0] == 'place' and len(e) == 2:
            # a counter: one initial value, otherwise `x = x - d` / `x = x + d` (only the updates that can precede the use count)
            ls = self.body.locals_named(e[1])
            if len(ls) == 1:
                defs = self.cfg.defs.get(ls[0], [])
                if len(defs) > 1:
                    init, total, ok = None, {}, True
                    for (bi, si, d) in defs:
                        if si == 'call':
                            v = ('call', d.callee.path if d.callee else '<indirect>', tuple(self.E.operand(a) for a in d.args))
                        else:
                            v = self.E.rvalue(d.rv)
                        if isinstance(v, tuple) and v[0] == 'bin' and v[1] in ('Add', 'Sub') and v[2] == e:
                            if at is None or bi == at or at in self.cfg.reachable_from(bi):
                                total = add(total, self.lin(v[3], bi, depth + 1), 1 if v[1] == 'Add' else -1)
                        elif init is None:
                            init = self.lin(v, bi, depth + 1)
                        else:
                            ok = False
                    if ok and init is not None:
                        return add(init, total)
        return {('?', se[:60]): 1}


def fmt(l):
    if not l:
        return '0'
    parts = []
    for k, v in sorted(l.items(), key=lambda kv: str(kv[0])):
        nm = '' if k == 1 else (k if isinstance(k, str) else k[1])
        if k == 1:
            parts.append(str(v))
        else:
            parts.append(('%s' % nm) if v == 1 else ('%d*%s' % (v, nm)))
    return ' + '.join(parts)
