"""C02 - export fidelity: write/parse round trip and normal form (structural clauses).

Decided: H1 header-layout agreement (shared with C01, writer as subject); W1 every field the round
trip must preserve flows into a write sink of the writer chain (DltMessage::to_write ->
DltStorageHeader::from_msg/to_write, DltStandardHeader::to_write, DltExtendedHeader::to_write);
W2 the storage time is split with the same constant it is joined with; W3 `convert -o` writes only
through DltMessage::to_write on the loop's current message, under the same index-window conditions
and behind the same lifecycle filter as the screen output, and nothing else writes to the file.
Not decided: byte-exact round trip for all values, the 16-bit length wrap for oversized payloads."""
import re
from cfg import CFG
from expr import ExprBuilder, show, walk
from facts import Operand, Place
from prov import Prov
import guards, hdrtab

LEVEL = 'proof'
EXPLANATION = ('Table agreement H1; backward data provenance of every write_all operand in the writer chain against a table of fields that must survive; '
               'constant agreement of the time split/join; dominating-condition equality between file output and screen output in convert.')
ASSUMPTIONS = [
    'decides structural clauses only: equality of values after the round trip and the u16 length arithmetic (payload > 65531) are NOT decided',
    'std::io::Write::write_all writes all bytes or fails (library contract)',
]
MANIFEST = {'text': 'proof of: header layout agreement between writer and reader; every preserved field (reception time, ecu, timestamp and its presence, mcnt, endianness, extended header, payload) '
                    'reaches a write sink; time split/join use one constant; convert -o writes exactly the messages it also selects for display, through to_write only. Added: readers never add to the 16-bit length field in u16 (largest messages re-read completely); the writer\'s htyp/length table over all 32 valuations of byte order and optional parts agrees with the readers. Added: the export file is opened empty (File::create / truncate(true) / create_new(true)). Added: all messages of an export go to one writer (no second write path that can overtake buffered messages). Added: the storage header seconds / microseconds written are exactly the quotient / remainder of the reception time (no clamp, mask or offset). Added: id bytes are read verbatim (DltChar4::from_buf); every successful return of DltMessage::to_write lies behind the standard-header encoder, or the bytes written on a path around it draw htyp, counter, timestamp, extended header fields and payload from the message. Added: the id bytes the header encoders write pass through no id function of the crate other than plain accessors.'}

WRITERS = {
    'adlt::dlt::DltStorageHeader::from_msg': ('agg', {'reception_time_us', 'ecu'}),
    'adlt::dlt::DltStorageHeader::to_write': ('write', {'secs', 'micros', 'ecu'}),
    'adlt::dlt::DltExtendedHeader::to_write': ('write', {'verb_mstp_mtin', 'noar', 'apid', 'ctid'}),
    'adlt::dlt::DltStandardHeader::to_write': ('write', {'mcnt', '#param:ecu', '#param:session_id', '#param:timestamp', '#param:payload', '#param:ext_hdr'}),
    'adlt::dlt::DltMessage::to_write': ('callargs', {'standard_header', 'extended_header', 'timestamp_dms', 'payload', '#from_msg'}),
}


def field_tokens(body, pr, operand):
    """fields (names) and params/calls in the backward slice of an operand"""
    toks = pr.operand(operand)
    out = set()
    for t in toks:
        if t[0] == 'param':
            out.add('#param:' + t[1])
        if t[0] == 'call':
            out.add('#' + t[1].split('::')[-1])
    return out


def fields_read_into(body, cfg, pr, operands):
    """names of ADT fields read anywhere in the backward slice of the operands (flow-insensitive, per local)"""
    # collect locals in the slice
    locs = set()
    seen = set()

    def visit(l):
        if l in seen:
            return
        seen.add(l)
        locs.add(l)
        for kind, d, _bi, _fp in pr.defs_all().get(l, []):
            if kind == 'stmt':
                for o in d.rv_operands():
                    if o.place is not None:
                        note(o.place)
                        visit(o.place.l)
                rp = d.rv_place()
                if rp is not None:
                    note(rp)
                    visit(rp.l)
            else:
                for a in d.args:
                    if a.place is not None:
                        note(a.place)
                        visit(a.place.l)
    names = set()

    def note(p):
        for e in p.p:
            if e['k'] == 'f' and e.get('o', '').startswith('adlt::'):
                names.add(e['n'])
    for o in operands:
        if o.place is not None:
            note(o.place)
            visit(o.place.l)
    return names


def run(F, chk):
    H1 = chk.rule('H1', 'header layout agreement between DltStandardHeader::to_write and the readers (size, htyp bit, emission order per optional part)')
    W1 = chk.rule('W1', 'every field the round trip must preserve flows into a write sink of the writer chain')
    W2 = chk.rule('W2', 'storage time: from_msg divides and takes the remainder by the same constant that reception_time_us multiplies by, and writes exactly that quotient / remainder (no clamp, mask or offset)')
    W3 = chk.rule('W3', 'convert -o: the output file is written only through DltMessage::to_write(current message), under the same window conditions and lifecycle filter as the screen output')
    hdrtab.check(F, H1)
    for name, (kind, need) in WRITERS.items():
        b = F.get(name)
        if b is None:
            W1.violation(('anchor-lost', name), 'writer function %s not found' % name)
            continue
        W1.fn(name)
        cfg = CFG(b)
        pr = Prov(cfg)
        ops = []
        for blk in b.blocks:
            if blk.cleanup:
                continue
            if kind == 'agg':
                for s in blk.stmts:
                    if s.k == 'assign' and s.rv['k'] == 'agg' and s.rv.get('ak') == 'adt':
                        ops += [Operand(o) for o in s.rv['ops']]
            if blk.term.k == 'call':
                p = blk.term.callee.path
                if kind == 'write' and (p.endswith('Write::write_all') or p.endswith('::to_write')):
                    ops += blk.term.args[1:] if p.endswith('write_all') else blk.term.args
                if kind == 'callargs' and (p.endswith('::to_write') or p.endswith('::from_msg')):
                    ops += blk.term.args
        W1.sites += len(ops)
        have = fields_read_into(b, cfg, pr, ops)
        for o in ops:
            have |= field_tokens(b, pr, o)
        missing = [n for n in sorted(need) if n not in have]
        if not missing:
            W1.ok(sample={'writer': name, 'fields_reaching_a_sink': sorted(n for n in have if not n.startswith('#'))[:12], 'required': sorted(need)})
        for m in missing:
            W1.violation(('field-not-written', name, m), '%s: `%s` does not flow into any write sink (write_all / nested to_write) - it would not survive export' % (name, m.lstrip('#')), where=b.loc(None))
        # the timestamp must be written conditionally on has_timestamp (presence is preserved)
        if name == 'adlt::dlt::DltMessage::to_write':
            E = ExprBuilder(cfg)
            ok = False
            for blk in b.blocks:
                if blk.cleanup:
                    continue
                for s in blk.stmts:
                    if s.k == 'assign' and s.rv['k'] == 'agg' and s.rv.get('variant') == 'Some' and 'timestamp_dms' in show(E.rvalue(s.rv)):
                        for (c, truth, D) in guards.known(cfg, E, blk.i):
                            if truth is True and 'has_timestamp' in show(c):
                                ok = True
            if not ok:
                # `self.standard_header.has_timestamp().then_some(self.timestamp_dms)`
                EFt = ExprBuilder(cfg, fold_named=True)
                for blk in b.calls():
                    if re.search(r'(bool>?|bool)::(then_some|then)$', blk.term.callee.path) and len(blk.term.args) == 2:
                        if 'has_timestamp' in show(EFt.operand(blk.term.args[0])) and ('timestamp_dms' in show(EFt.operand(blk.term.args[1])) or (blk.term.args[1].ty or '').startswith('{closure@')):
                            ok = True
            if ok:
                W1.ok(sample={'timestamp': 'Some(timestamp_dms) only under standard_header.has_timestamp()'})
            else:
                W1.violation(('timestamp-presence', name), 'the timestamp is not written conditionally on standard_header.has_timestamp(): its presence would not survive export', where=b.loc(None))
    check_endian_bit(F, W1)
    W4 = chk.rule('W4', 'the writer chain refuses a message (locally constructed error) only if its total length cannot be represented in the 16-bit length field (> 65535)')
    check_refusals(F, W4)
    check_time_split(F, W2)
    check_convert(F, W3)
    W5 = chk.rule('W5', 'writer chain: a local copy of a message/header field is never modified before it is written (fields are exported verbatim)')
    check_verbatim_copies(F, W5)
    W6 = chk.rule('W6', 'readers: the 16-bit length field of the standard header is widened before anything is added to it (16 + len can exceed u16 for the largest messages the writer emits)')
    check_len_widened(F, W6)
    W8 = chk.rule('W8', 'convert: the export file is opened empty (File::create, or OpenOptions with truncate(true) / create_new(true)) - never over existing content')
    check_output_truncated(F, W8)
    W9 = chk.rule('W9', 'convert: all messages of an export are written to one and the same writer (no second path that can overtake buffered messages)')
    check_single_writer(F, W9)
    W11 = chk.rule('W11', 'DltMessage::to_write: every path to a successful return goes through the header encoders; a path that writes headers itself (fast path) draws htyp, counter, timestamp, extended header fields and payload from the message')
    check_single_encoder(F, W11)
    W12 = chk.rule('W12', 'header encoders: the id bytes written (ECU, APID, CTID) derive from the header fields without passing through any id function of the crate other than a plain accessor (an id "normalised" on the way out - cut at the first NUL, padded, case-folded - is not the id that was read)')
    check_writers_verbatim(F, W12)
    W10 = chk.rule('W10', 'id bytes: DltChar4::from_buf stores the four id bytes verbatim (what is read is what is written back)')
    hdrtab.check_id_bytes_verbatim(F, W10)
    W7 = chk.rule('W7', 'convert: the file reader feeding the export keeps a whole maximal message of look-ahead (low mark >= DLT_MAX_STORAGE_MSG_SIZE, capacity >= low mark + cache line)')
    import c04
    maxmsg = F.consts.get('adlt::dlt::DLT_MAX_STORAGE_MSG_SIZE', {}).get('v')
    cl = F.consts.get('adlt::utils::lowmarkbufreader::CACHE_LINE_SIZE', {}).get('v')
    if maxmsg is None or cl is None:
        W7.violation(('anchor-lost', 'constants'), 'DLT_MAX_STORAGE_MSG_SIZE / CACHE_LINE_SIZE not found')
    else:
        # a message larger than the look-ahead left in the window is answered with "not enough data", which the iterator takes
        # for the end of the stream: the export silently ends there
        n = c04.check_reader_configs(F, W7, maxmsg, cl, only=lambda b: b.crate == 'bin' and (b.closure_of or b.path).startswith('adlt_bin::convert::'))
        W7.floor('LowMarkBufReader constructions in convert', n, 1)


def check_endian_bit(F, W1):
    """the byte-order bit (0x02) of the htyp byte written by to_write is set exactly when std_hdr.is_big_endian():
    every store into htyp that sets the bit is dominated by the true edge of an is_big_endian() test, and from that true
    edge no path reaches a write sink without passing such a store."""
    b = F.get('adlt::dlt::DltStandardHeader::to_write')
    if b is None:
        return
    BIT = 2
    hc = hdrtab.has_constants(F)
    wt = hdrtab.writer_tables(F, b, hc) if len(hc) == 4 else None
    if wt is not None:
        # decided on the table of htyp bytes over all 2 x 16 valuations (byte order x optional parts)
        W1.sites += len(wt)
        bad = sorted(('+'.join(k) or 'none', be) for (be, k), (h, ln, n) in wt.items() if bool(h & BIT) != bool(be))
        if bad:
            W1.violation(('endianness-bit', b.path), 'to_write: the byte-order bit of the written htyp does not equal std_hdr.is_big_endian() for %s' % (bad[:4],), where=b.loc(None))
        else:
            W1.ok(sample={'byte_order_bit': BIT, 'equals_is_big_endian_for': '%d valuations of byte order x optional parts (constant propagation)' % len(wt)})
        return
    cfg = CFG(b)
    E = ExprBuilder(cfg)
    setters = []     # (block, guarded?)
    n_stores = 0
    for blk in b.blocks:
        if blk.cleanup:
            continue
        for s in blk.stmts:
            if not (s.k == 'assign' and s.place.is_local and b.name_of(s.place.l) == 'htyp'):
                continue
            n_stores += 1
            e = E.rvalue(s.rv)
            v = hdrtab.fold(e)
            bits = None
            if v is not None:
                bits = v
            elif isinstance(e, tuple) and e[0] == 'bin' and e[1] == 'BitOr':
                k = hdrtab.fold(e[3]) if show(e[2]) == 'htyp' else (hdrtab.fold(e[2]) if show(e[3]) == 'htyp' else None)
                bits = k
            if bits is None:
                W1.violation(('htyp-store-shape', b.path), 'store htyp = %s at %s is neither a constant nor htyp | constant: the byte-order bit cannot be tracked' % (show(e)[:60], b.loc(s.sp)), where=b.loc(s.sp))
                continue
            if bits & BIT:
                g = any(isinstance(c, tuple) and c[0] == 'call' and c[1].endswith('DltStandardHeader::is_big_endian') and truth is True for (c, truth, D) in guards.known(cfg, E, blk.i))
                setters.append((blk.i, g, b.loc(s.sp)))
    W1.sites += 2
    tests = []
    for blk in b.blocks:
        if blk.cleanup or blk.term.k != 'switch':
            continue
        c = E.switch_cond(blk)
        if isinstance(c, tuple) and c[0] == 'call' and c[1].endswith('DltStandardHeader::is_big_endian') and [v for v, _ in blk.term.d['vals']] == [0]:
            tests.append(blk)
    sinks = [blk.i for blk in b.calls() if blk.term.callee.path.endswith('::write_all')]
    unguarded = [x for x in setters if not x[1]]
    if not setters or not tests or not sinks:
        W1.violation(('endianness-bit', b.path), 'to_write does not derive the byte-order bit of htyp from std_hdr.is_big_endian() (bit-setting stores: %d, is_big_endian tests: %d)' % (len(setters), len(tests)), where=b.loc(None))
        return
    if unguarded:
        W1.violation(('endianness-bit', b.path), 'to_write sets the byte-order bit of htyp at %s without a dominating is_big_endian() test' % unguarded[0][2], where=unguarded[0][2])
        return
    for t in tests:
        true_t = t.term.d['otherwise']
        r = cfg.reachable_from(true_t, avoid=set(x[0] for x in setters))
        if true_t not in set(x[0] for x in setters) and any(sk in r for sk in sinks):
            W1.violation(('endianness-bit', b.path), 'to_write: a big-endian message can reach a write sink without the byte-order bit of htyp having been set', where=b.loc(t.term.sp))
            return
    W1.ok(sample={'byte_order_bit': BIT, 'bit_setting_stores': [x[2] for x in setters], 'all_under': 'is_big_endian() == true', 'htyp_stores': n_stores})


def check_writers_verbatim(F, W12):
    """The readers keep every byte of ECU id, APID, CTID, counter, type byte.  The header encoders must hand exactly those bytes to
    the sink: in the provenance of every write_all argument of the three header encoders there may be std conversions
    (to_be_bytes, to_le_bytes, slicing) but no function of adlt itself except trivial accessors (`as_buf`)."""
    import comparators
    n = 0
    for name in ('adlt::dlt::DltStorageHeader::to_write', 'adlt::dlt::DltExtendedHeader::to_write', 'adlt::dlt::DltStandardHeader::to_write'):
        b = F.get(name)
        if b is None:
            W12.violation(('anchor-lost', name), 'encoder %s not found' % name)
            continue
        W12.fn(name)
        cfg = CFG(b)
        pr = Prov(cfg)
        for blk in b.calls():
            p = blk.term.callee.path
            if not p.endswith('Write::write_all'):
                continue
            n += 1
            W12.sites += 1
            toks = set()
            for a in blk.term.args[1:]:
                toks |= pr.operand(a, at=blk.i)
            bad = []
            for t in toks:
                if t[0] == 'call' and t[1].startswith(('adlt::', '<adlt::')):
                    if t[1].endswith('::to_write') or t[1].endswith('DltChar4::as_buf'):
                        continue
                    gf = comparators.getter_fields(F, t[1])
                    if gf:
                        continue
                    H = F.get(t[1])
                    # layout helpers of the standard header (flag byte, sizes) are decided by H1 / W1 over all valuations; this rule
                    # is about the ids: functions that take or return a DltChar4 / its bytes
                    if H is None or not any('DltChar4' in ty for ty in list(H.arg_types()) + [H.ret_type()]) and not t[1].startswith('adlt::dlt::DltChar4::'):
                        continue
                    bad.append(t[1])
            if bad:
                W12.violation(('field-transformed-on-write', name, '+'.join(sorted(set(x.split('::')[-1] for x in bad)))), '%s writes at %s bytes that went through %s: what is exported is not the bytes that were read (ids with bytes behind a NUL, ..)' %
                              (name, b.loc(blk.term.sp), ', '.join(sorted(set(bad)))), where=b.loc(blk.term.sp))
            else:
                W12.ok(sample={'encoder': name, 'write_at': b.loc(blk.term.sp), 'crate_functions_in_provenance': 'accessors only'})
    W12.floor('write_all calls of the header encoders', n, 5)


def check_single_encoder(F, W11):
    """The layout table (H1), the byte-order bit and the field flow (W1) are decided for DltStandardHeader::to_write.  They say
    nothing about bytes that DltMessage::to_write emits on a path around that encoder.  Must-pass-through: a block that
    produces the successful return value is not reachable from the entry without the encoder call - or, if it is, the data
    written directly on that path must draw every preserved field from the message (a constant htyp drops the byte-order
    bit of every big-endian message that takes the fast path)."""
    b = F.get('adlt::dlt::DltMessage::to_write')
    if b is None:
        W11.violation(('anchor-lost', 'DltMessage::to_write'), 'DltMessage::to_write not found')
        return
    W11.fn(b.path)
    cfg = CFG(b)
    enc = set(blk.i for blk in b.calls() if blk.term.callee.path.endswith('DltStandardHeader::to_write'))
    W11.floor('calls of the standard header encoder in DltMessage::to_write', len(enc), 1)
    oks = []
    for blk in b.blocks:
        if blk.cleanup:
            continue
        for s in blk.stmts:
            if s.k == 'assign' and s.place.is_local and s.place.l == 0 and not s.place.p and s.rv['k'] == 'agg' and s.rv.get('variant') == 'Ok':
                oks.append(blk.i)
        if blk.term.k == 'call' and blk.term.dest.is_local and blk.term.dest.l == 0 and not blk.term.dest.p and blk.i not in enc and not blk.term.callee.path.endswith('::from_residual'):
            oks.append(blk.i)
    tail_enc = [x for x in enc if b.blocks[x].term.dest.is_local and b.blocks[x].term.dest.l == 0 and not b.blocks[x].term.dest.p]      # `DltStandardHeader::to_write(..)` as the tail expression
    W11.floor('successful-return definitions of DltMessage::to_write', len(oks) + len(tail_enc), 1)
    around = cfg.reachable_from(0, avoid=enc)
    bypass = [x for x in oks if x in around]
    W11.sites += len(oks)
    if not bypass:
        W11.ok(sample={'writer': b.path, 'successful_returns': len(oks), 'all_behind': 'DltStandardHeader::to_write'})
        return
    pr = Prov(cfg)
    ops = []
    for blk in b.calls():
        p = blk.term.callee.path
        if blk.i in around and re.search(r'Write::(write_all|write|write_vectored|write_fmt)$', p):
            ops += blk.term.args[1:]
        # bytes staged in a local buffer: what is copied / pushed into it is written with it
        if blk.i in around and re.search(r'::(copy_from_slice|clone_from_slice|extend_from_slice|push|extend|put_slice)$', p):
            ops += blk.term.args[1:]
    have = fields_read_into(b, cfg, pr, ops)
    need = {'htyp', 'mcnt', 'timestamp_dms', 'payload', 'verb_mstp_mtin', 'noar', 'apid', 'ctid'}
    missing = sorted(need - have)
    where = b.loc(b.blocks[bypass[0]].term.sp)
    if missing:
        W11.violation(('encoder-bypass-drops-field', b.path, '+'.join(missing)), 'DltMessage::to_write can return successfully at %s without going through DltStandardHeader::to_write, and what it writes itself on that path does not draw %s from the message: '
                      'those header bits / fields of such messages do not survive the export (e.g. a constant htyp loses the byte order)' % (where, ', '.join(missing)), where=where)
    else:
        W11.ok(sample={'writer': b.path, 'bypass_at': where, 'fields_drawn_from_the_message': sorted(need)})


def check_time_split(F, W2):
    fm = F.get('adlt::dlt::DltStorageHeader::from_msg')
    rt = F.get('adlt::dlt::DltStorageHeader::reception_time_us')
    if fm is None or rt is None:
        W2.violation(('anchor-lost', 'from_msg/reception_time_us'), 'DltStorageHeader::from_msg / reception_time_us not found')
        return
    W2.fn(fm.path); W2.fn(rt.path)
    consts = {}
    for b, ops in ((fm, ('Div', 'Rem')), (rt, ('Mul',))):
        E = ExprBuilder(CFG(b), fold_named=True)
        for blk in b.blocks:
            if blk.cleanup:
                continue
            for s in blk.stmts:
                if s.k == 'assign':
                    for x in walk(E.rvalue(s.rv)):
                        if isinstance(x, tuple) and x and x[0] == 'bin' and x[1].replace('WithOverflow', '') in ops:
                            for side in (x[2], x[3]):
                                v = hdrtab.fold(side)
                                if v is not None and v > 1:
                                    consts.setdefault(x[1].replace('WithOverflow', ''), set()).add(v)
    W2.sites += sum(len(v) for v in consts.values())
    vals = set().union(*consts.values()) if consts else set()
    # the written seconds / microseconds are the plain quotient / remainder of the message's reception time: the reader takes all
    # 32 bits of both fields, so any clamp, mask or offset on the writer's side (saturate at i32::MAX, ..) changes the time of
    # some representable message
    E = ExprBuilder(CFG(fm), fold_named=True)
    shapes = {}
    for blk in fm.blocks:
        if blk.cleanup:
            continue
        for s in blk.stmts:
            if s.k == 'assign' and s.rv['k'] == 'agg' and s.rv.get('adt', '').endswith('DltStorageHeader'):
                for fname, op in (('secs', 'Div'), ('micros', 'Rem')):
                    if fname not in s.rv.get('fields', []):
                        continue
                    e = E.operand(Operand(s.rv['ops'][s.rv['fields'].index(fname)]))
                    while isinstance(e, tuple) and e[0] == 'cast':
                        e = e[1]
                    good = isinstance(e, tuple) and e[0] == 'bin' and e[1] == op and re.search(r'\.reception_time_us\)?$', show(e[2])) is not None and hdrtab.fold(e[3]) in vals
                    shapes[fname] = (good, show(e)[:90])
    W2.sites += 2
    for fname in ('secs', 'micros'):
        if fname not in shapes:
            W2.violation(('time-field-anchor', fname), 'from_msg does not construct DltStorageHeader.%s' % fname, where=fm.loc(None))
        elif not shapes[fname][0]:
            W2.violation(('time-field-not-verbatim', fname), 'from_msg writes %s = %s, not the plain %s of reception_time_us by the time constant: the reader takes the full 32 bit field, so the reception time of some message changes on export'
                         % (fname, shapes[fname][1], 'quotient' if fname == 'secs' else 'remainder'), where=fm.loc(None))
    if set(consts) >= {'Div', 'Rem', 'Mul'} and len(vals) == 1:
        W2.ok(sample={'split': 'secs = t / K, micros = t %% K', 'join': 'secs * K + micros', 'K': sorted(vals)[0]})
    else:
        W2.violation(('time-constants', str(sorted((k, sorted(v)) for k, v in consts.items()))), 'storage time split/join use constants %s (must be one constant for /, %% and *)' % {k: sorted(v) for k, v in consts.items()}, where=fm.loc(None))


def check_convert(F, W3):
    n = 0
    for b in F.order:
        if b.crate != 'bin' or not b.path.startswith('adlt_bin::convert::'):
            continue
        tw = [blk for blk in b.calls() if blk.term.callee.path == 'adlt::dlt::DltMessage::to_write']
        if not tw:
            continue
        cfg = CFG(b)
        E = ExprBuilder(cfg)
        screen = [blk for blk in b.calls() if blk.term.callee.path == 'adlt::dlt::DltMessage::header_as_text_to_write']
        recv = [blk.i for blk in b.calls() if blk.term.callee.path == 'std::iter::Iterator::next' and 'DltMessage' in (blk.term.args[0].ty or '')]
        lc_tests = set(blk.i for blk in b.calls() if re.search(r'BTreeSet::<.*>::(is_empty|contains)$', blk.term.callee.path) and 'filter_lc_ids' in show(E.operand(blk.term.args[0])))

        def window_conds(bi):
            out = set()
            for (c, truth, D) in guards.known(cfg, E, bi):
                sc = show(c)
                if truth in (True, False) and ('index_first' in sc or 'index_last' in sc):
                    out.add((sc, truth))
            return out
        for blk in tw:
            n += 1
            W3.sites += 1
            W3.fn(b.path)
            wc = window_conds(blk.i)
            sc_all = [window_conds(s.i) for s in screen]
            msg_arg = show(E.operand(blk.term.args[0]))
            # current message: the local bound from the loop's next()
            cur_ok = any(show(E.operand(s.term.args[0])) == msg_arg for s in screen) if screen else False
            lc_ok = True
            if recv:
                r = cfg.reachable_from(recv[0], avoid=lc_tests)
                lc_ok = bool(lc_tests) and blk.i not in r
            if screen and all(wc == x for x in sc_all) and len(wc) >= 2 and cur_ok and lc_ok:
                W3.ok(sample={'file_write_at': b.loc(blk.term.sp), 'window_conditions': sorted(c for c, t in wc), 'same_as_screen_output': True, 'behind_lifecycle_filter': True})
            else:
                W3.violation(('convert-file-output', b.path, 'win%s' % (screen and all(wc == x for x in sc_all) and len(wc) >= 2), 'cur%s' % cur_ok, 'lc%s' % lc_ok),
                             'convert writes to the output file at %s under window conditions %s (screen output: %s), same message as displayed: %s, behind the lifecycle filter: %s' %
                             (b.loc(blk.term.sp), sorted(wc), [sorted(x) for x in sc_all][:1], cur_ok, lc_ok), where=b.loc(blk.term.sp))
        # nothing else writes to the file
        for blk in b.calls():
            if any('BufWriter<std::fs::File>' in (a.ty or '') for a in blk.term.args):
                p = blk.term.callee.path
                W3.sites += 1
                if re.search(r'(DltMessage::to_write|Write::flush|mem::drop|BufWriter::<W>::new|Result::<T, E>::as_mut|into_inner|ops::Deref\w*::deref\w*|Try::branch|FromResidual::from_residual)$', p) or 'Result::' in p or 'Ok' in p:
                    continue
                W3.violation(('other-file-writer', b.path, p), 'convert passes the output file to %s at %s: the exported file must only be written through DltMessage::to_write' % (p, b.loc(blk.term.sp)), where=b.loc(blk.term.sp))
    W3.floor('DltMessage::to_write call sites in convert', n, 1)


def check_refusals(F, W4):
    """every message parsed from a well-formed stream has a total length <= 65535, so a writer may only construct its own
    error under a condition that implies total > 65535; any other refusal loses messages on export."""
    n_fns = 0
    for name in WRITERS:
        b = F.get(name)
        if b is None or not b.ret_type().startswith('std::result::Result<'):
            continue
        n_fns += 1
        W4.fn(name)
        cfg = CFG(b)
        E = ExprBuilder(cfg, fold_named=True)
        refusals = 0
        for blk in b.blocks:
            if blk.cleanup:
                continue
            for s in blk.stmts:
                if s.k == 'assign' and s.place.is_local and s.place.l == 0 and s.rv['k'] == 'agg' and s.rv.get('variant') == 'Err':
                    refusals += 1
                    W4.sites += 1
                    ok = False
                    conds = []
                    for (c, truth, D) in guards.known(cfg, E, blk.i):
                        if truth is True and isinstance(c, tuple) and c[0] == 'bin':
                            conds.append(show(c)[:80])
                            k3, k2 = hdrtab.fold(c[3]), hdrtab.fold(c[2])
                            if c[1] == 'Gt' and k3 is not None and k3 >= 65535:
                                ok = True
                            if c[1] == 'Ge' and k3 is not None and k3 >= 65536:
                                ok = True
                            if c[1] == 'Lt' and k2 is not None and k2 >= 65535:
                                ok = True
                            if c[1] == 'Le' and k2 is not None and k2 >= 65536:
                                ok = True
                    if ok:
                        W4.ok(sample={'writer': name, 'refusal_at': b.loc(s.sp), 'only_if': 'total length > 65535'})
                    else:
                        W4.violation(('writer-refuses', name), '%s constructs its own error at %s under conditions %s: a message that fits the 16-bit length field (total <= 65535) can be refused, so an export is no longer complete' % (name, b.loc(s.sp), conds[:3]), where=b.loc(s.sp))
        if refusals == 0:
            W4.ok(sample={'writer': name, 'locally_constructed_errors': 0, 'errors': 'only propagated from the underlying writer'})
    W4.floor('writer functions returning Result', n_fns, 4)


# ---------------------------------------------------------------------------------------------
# W5: what is written is the field, not a touched-up copy of it

def check_verbatim_copies(F, W5):
    """In the writer chain a local that starts as a plain copy of a message/header field (`let mut ecu = msg.ecu`) must not
    be modified (mutable borrow of it or of a part of it, store into a part of it) before it reaches a write sink or the
    header aggregate: the round trip has to reproduce the field byte for byte, "clean-ups" of ids, counters or payload
    change what a re-read yields."""
    n = 0
    for name in WRITERS:
        b = F.get(name)
        if b is None:
            continue
        cfg = CFG(b)
        E = ExprBuilder(cfg)
        W5.fn(name)
        for l, ds in cfg.defs.items():
            if len(ds) != 1 or ds[0][1] == 'call':
                continue
            rv = ds[0][2].rv
            if rv['k'] != 'use':
                continue
            o = Operand(rv['o'])
            if o.is_const or o.place is None:
                continue
            fl = [e for e in o.place.p if e['k'] == 'f' and e.get('o', '').startswith('adlt::dlt::')]
            if not fl:
                continue
            n += 1
            W5.sites += 1
            touched = None
            for blk in b.blocks:
                if blk.cleanup:
                    continue
                for s in blk.stmts:
                    if s.k != 'assign':
                        continue
                    if s.place.l == l and s.place.p and not s.place.has_deref():
                        touched = (b.loc(s.sp), 'a part of it is overwritten')
                    if s.rv['k'] in ('ref', 'rawptr') and s.rv.get('mut') and s.rv['p']['l'] == l:
                        touched = (b.loc(s.sp), 'it is borrowed mutably')
            if touched:
                W5.violation(('written-copy-modified', name, fl[-1]['n']), '%s copies the field `%s` into a local and modifies the copy (%s at %s) before it is written: the exported bytes differ from the message' %
                             (name, fl[-1]['n'], touched[1], touched[0]), where=touched[0])
            else:
                W5.ok(sample={'writer': name, 'field_copy': fl[-1]['n'], 'modified': False})
    W5.floor('plain copies of message/header fields in the writer chain', n, 3)


# ---------------------------------------------------------------------------------------------
# W6: no 16-bit addition on the length field

def check_len_widened(F, W6):
    """"re-reading the written bytes consumes exactly them": the writer emits messages up to a length field of 65535; framing
    adds 16 (storage) or 4 (serial) bytes on top.  A reader that computes `framing + len` (or len + anything) in u16 wraps or
    panics exactly for the largest legal messages.  Over all non-test bodies of adlt::dlt: an Add/Mul whose operands are u16
    and whose data provenance contains DltStandardHeader.len is a violation; subtractions from len (payload size) are the
    business of C03.  Expected count today: zero additions on the field; the uses of the field are counted as the anchor."""
    from prov import Prov
    bodies = [b for b in F.order if b.crate == 'lib' and (b.path.startswith('adlt::dlt::') or b.path.startswith('<adlt::dlt::')) and '::tests::' not in b.path]
    n_reads = 0
    bad = []
    for b in bodies:
        cfg = pr = None
        for blk in b.blocks:
            if blk.cleanup:
                continue
            for s in blk.stmts:
                if s.k != 'assign':
                    continue
                for o in s.rv_operands():
                    if o.place is not None and any(e['k'] == 'f' and e['n'] == 'len' and e.get('o') == 'adlt::dlt::DltStandardHeader' for e in o.place.p):
                        n_reads += 1
                rp = s.rv_place()
                if rp is not None and any(e['k'] == 'f' and e['n'] == 'len' and e.get('o') == 'adlt::dlt::DltStandardHeader' for e in rp.p):
                    n_reads += 1
                if s.rv['k'] != 'bin' or not re.match(r'(Add|Mul|Shl)', s.rv['op']):
                    continue
                ops = [Operand(s.rv['a']), Operand(s.rv['b'])]
                if not any((o.ty or '') == 'u16' for o in ops):
                    continue
                if cfg is None:
                    cfg = CFG(b)
                    pr = Prov(cfg)
                toks = set()
                for o in ops:
                    toks |= pr.operand(o, at=blk.i)
                if ('fld', 'adlt::dlt::DltStandardHeader', 'len') in toks:
                    bad.append((b, s))
    W6.sites += n_reads + len(bad)
    W6.floor('reads of DltStandardHeader.len in adlt::dlt', n_reads, 3)
    if bad:
        seen = set()
        for (b, s) in bad:
            if b.path in seen:
                continue
            seen.add(b.path)
            W6.fn(b.path)
            W6.violation(('len-arithmetic-in-u16', b.path), '%s adds to / scales the 16-bit length field of the standard header in u16 at %s: for messages near the maximum length (which the writer emits) the sum wraps or panics, '
                         're-reading an exported message no longer consumes exactly the bytes written' % (b.path, b.loc(s.sp)), where=b.loc(s.sp))
    else:
        W6.ok(sample={'reads_of_the_length_field': n_reads, 'u16_additions_on_it': 0})


# ---------------------------------------------------------------------------------------------
# W8: the export starts from an empty file

def check_output_truncated(F, W8):
    """"the written file contains exactly the exported messages": the file given with -o may exist.  File::create truncates it; an
    OpenOptions chain does so only with .truncate(true) (or refuses an existing file with create_new(true)).  write(true) +
    create(true) alone overwrites from offset 0 and leaves the tail of the old content behind the new messages.  Over the convert
    module of the binary: every file opened for writing is opened by File::create / create_new, or by an OpenOptions chain that
    contains truncate(true) or create_new(true) (append(true) is a different feature and not accepted either)."""
    n = 0
    for b in F.order:
        if b.crate != 'bin' or not (b.closure_of or b.path).startswith('adlt_bin::convert::') or '::tests::' in b.path:
            continue
        cfg = E = None
        for blk in b.calls():
            t = blk.term
            p = t.callee.path
            if p in ('std::fs::File::create', 'std::fs::File::create_new'):
                n += 1
                W8.sites += 1
                W8.fn(b.path)
                W8.ok(sample={'opened_at': b.loc(t.sp), 'by': p.split('::')[-1], 'starts_empty': True})
            elif p == 'std::fs::OpenOptions::open':
                cfg = cfg or CFG(b)
                E = E or ExprBuilder(cfg, fold_named=True)
                chain = show(E.operand(t.args[0]))
                writes = 'OpenOptions::write(' in chain or 'OpenOptions::append(' in chain or 'OpenOptions::create(' in chain
                if not writes:
                    continue
                n += 1
                W8.sites += 1
                W8.fn(b.path)
                if re.search(r'OpenOptions::(truncate|create_new)\([^()]*(\([^()]*\)[^()]*)*, 1\)', chain) or re.search(r'OpenOptions::(truncate|create_new)\(.*, 1\)', chain):
                    W8.ok(sample={'opened_at': b.loc(t.sp), 'by': 'OpenOptions with truncate/create_new', 'starts_empty': True})
                else:
                    W8.violation(('output-not-truncated', b.closure_of or b.path), '%s opens a file for writing at %s through %s without truncate(true)/create_new(true): an existing longer file keeps its old tail behind the exported messages' %
                                 (b.path, b.loc(t.sp), chain[:90]), where=b.loc(t.sp))
    W8.floor('files opened for writing in convert', n, 1)


# ---------------------------------------------------------------------------------------------
# W9: one writer per export

def check_single_writer(F, W9):
    """"preserves every message, in order": the export keeps the input order because every message goes through the same writer
    in loop order.  Two sinks (a block buffer for small messages, the file itself for large ones) only keep the order if
    the buffer is flushed before every direct write - a second writer root is flagged, whatever flushing is intended.  Per
    body of the convert module: the writer operands of all DltMessage::to_write calls denote one place."""
    n = 0
    for b in F.order:
        if b.crate != 'bin' or not (b.closure_of or b.path).startswith('adlt_bin::convert::') or '::tests::' in b.path:
            continue
        sites = [blk for blk in b.calls() if blk.term.callee.path.endswith('DltMessage::to_write') and len(blk.term.args) > 1]
        if not sites:
            continue
        cfg = CFG(b)
        roots = {}
        for blk in sites:
            n += 1
            W9.sites += 1
            r = cfg.origin_of_operand(blk.term.args[1])
            key = (r.key() if r is not None else ('?', blk.i))
            # a writer reached through an Option / Result payload of the same local is the same writer
            key = tuple(k for k in key if not (isinstance(k, tuple) and k and k[0] in ('dc', 'deref'))) if isinstance(key, tuple) else key
            roots.setdefault(key, []).append(blk)
        W9.fn(b.path)
        if len(roots) <= 1:
            W9.ok(sample={'function': b.path, 'to_write_sites': len(sites), 'writer_roots': 1})
        else:
            locs = [b.loc(v[0].term.sp) for v in roots.values()]
            W9.violation(('two-writers', b.closure_of or b.path), '%s writes messages to %d different writers (%s): a message written to one of them can overtake messages still pending in the other - the export is no longer in input order' %
                         (b.path, len(roots), ', '.join(locs[:3])), where=locs[1])
    W9.floor('to_write sites in convert', n, 1)
