"""Shared runner for the message-linearity rules (L1 live drop, L2 clone, L7 lossy/unclassified
consumers) on one body; registers obligations in RuleResult objects."""
import own


def loc(body, sp):
    return body.loc(sp)


def run_linearity(body, spec, r_drop, r_clone, r_lossy, min_recv=0, min_send=0, min_store=0, what=None, F=None, _seen=None):
    """returns the OwnResult; adds obligations/violations to the three rules.  With F, calls of private forwarding helpers
    (own.send_faithful) count as sends and the helpers' bodies are held to the same rules."""
    res = own.analyse(body, spec, F=F)
    _seen = _seen if _seen is not None else {body.path}
    for H in res.helpers:
        if H.path not in _seen:
            _seen.add(H.path)
            run_linearity(H, own.OwnSpec(), r_drop, r_clone, r_lossy, F=F, _seen=_seen)
    fn = body.path
    for r in (r_drop, r_clone, r_lossy):
        r.fn(fn)
    r_drop.paths += res.states
    r_drop.sites += len(res.recv_sites) + len(res.send_sites) + len(res.store_sites)
    # floors on what the function must contain to be the thing we think it is
    r_drop.floor('receive sites in %s' % fn, len(res.recv_sites), min_recv)
    r_drop.floor('send sites in %s' % fn, len(res.send_sites), min_send)
    r_drop.floor('store sites in %s' % fn, len(res.store_sites), min_store)
    live = {d['block']: d for d in res.live_drops}
    for (bi, pshow, ty, verdict, reason) in res.drop_sites:
        if verdict == 'LIVE':
            d = live[bi]
            r_drop.violation(('live-drop', fn, pshow, short_ty(ty)),
                             'a message-carrying value `%s: %s` can be dropped on a normal path (message lost) in %s' % (pshow, ty, fn),
                             where=body.loc(d['sp']),
                             witness={'function': fn, 'block_path(block,line)': d['witness'], 'state_facts': d['facts']})
        else:
            r_drop.ok(sample={'function': fn, 'drop': '%s: %s' % (pshow, short_ty(ty)), 'verdict': verdict, 'why': reason})
    if not res.drop_sites:
        r_drop.ok(sample={'function': fn, 'drop': 'none', 'verdict': 'no message-carrying drop on any normal path'})
    r_clone.sites += sum(1 for _ in body.calls())
    if res.clones:
        for c in res.clones:
            r_clone.violation(('clone', fn, c['callee'], short_ty(c['self_ty'])),
                              'message-carrying value of type %s is duplicated by %s in %s' % (c['self_ty'], c['callee'], fn), where=body.loc(c['sp']))
    else:
        r_clone.ok(sample={'function': fn, 'clone_calls_on_message_types': 0})
    if res.lossy or res.consumers:
        for c in res.lossy:
            r_lossy.violation(('lossy', fn, c['callee']),
                              'call %s on message container/source %s can discard or reorder messages in %s' % (c['callee'], c['on'], fn), where=body.loc(c['sp']))
        for c in res.consumers:
            r_lossy.violation(('consumer', fn, c['callee']),
                              'message-carrying value %s is consumed by %s which is neither a send nor a store (unclassified consumer) in %s' % (c['arg'], c['callee'], fn), where=body.loc(c['sp']))
    else:
        r_lossy.ok(sample={'function': fn, 'lossy_or_unclassified_consumers': 0,
                           'sends': len(res.send_sites), 'stores': len(res.store_sites), 'receives': len(res.recv_sites)})
    return res


def short_ty(ty):
    import re
    return re.sub(r'\b(?:[a-z_0-9]+::)+', '', ty)[:90]
