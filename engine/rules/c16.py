"""C16 - remote streams deliver exactly the requested window of the filtered log (structural clauses).

Decided: G1 every read of a stream's filtered index outside the index builder is control-dependent
on `filters_active` (the index is only filled then); G2 a window change stores both ranges with the
same start and renews the stream id before replying; G5 in the sender loop the per-message send loop
over msgs_sent.end..new_end is followed by msgs_sent.end = new_end, new_end = min(stream length,
msgs_to_send.end).
Not decided: delivered content/positions, paging arithmetic of searches, lookup results."""
import re
from cfg import CFG
from expr import ExprBuilder, show, walk
from facts import Operand, Place
import guards

LEVEL = 'other'
EXPLANATION = ('Deviance rule over every read of StreamContext.filtered_msgs (dominating `filters_active` guard), store pairing at the window-change site, '
               'must-pass-through check of the progress store in the sender loop.')
ASSUMPTIONS = [
    'decides structural clauses only: message content/positions, search paging arithmetic (continuation index) and binary-search results are NOT decided',
    'G1 is a deviance rule derived from the builder: filtered_msgs is only appended under filters_active',
]
MANIFEST = {'text': 'structural necessary conditions for window delivery: the filtered index is never consulted for a stream without active filters, a window change resets both ranges consistently and renews the id, '
                    'and the sender advances its sent-range exactly to the end of what it sent.'
                    ' Added: search paging continuation equals the loop counter advanced exactly once per examined element; the index builder marks as processed exactly what it filtered; time lookups use partition_point with a strict predicate, binary_search only on unique keys. Added: lookups return the position found by the search primitive unmodified (no clamp / min / arithmetic), also through position helpers. Added: every field of a binary message sent derives from the message at that stream position only (no field of a previously built output message). Added: chunked search paging continues behind the last reported match.',
            'technique': 'static analysis: who-may-read + dominating-guard (control dependence) check, store pairing, must-pass-through on the CFG Added: filters_active takes into account every filter kind that match_filters decides on. Added: the index builder stores offset + the enumerate() position over the whole slice it was handed (no chunking / skipping adapter in between). Added: per-stream sends and stream removals of the server loop lie behind the false edge of the pause test; the sender\'s new_end is exactly min(stream length, window end). Added: match_filters quantifies with `any` only (shared with C12 G9).'}

SC = 'adlt::utils::remote_utils::StreamContext'


def field_reads(body, field):
    """(block, stmt/term, sp, place) of reads of StreamContext.<field>"""
    out = []
    for b in body.blocks:
        if b.cleanup:
            continue
        for s in b.stmts:
            if s.k != 'assign':
                continue
            ps = [o.place for o in s.rv_operands() if o.place is not None]
            rp = s.rv_place()
            if rp is not None:
                ps.append(rp)
            for p in ps:
                if any(e['k'] == 'f' and e['n'] == field and e.get('o') == SC for e in p.p):
                    out.append((b, s.sp, p, s))
        if b.term.k == 'call':
            for a in b.term.args:
                if a.place is not None and any(e['k'] == 'f' and e['n'] == field and e.get('o') == SC for e in a.place.p):
                    out.append((b, b.term.sp, a.place, None))
    return out


def field_writes(body, field):
    out = []
    for b in body.blocks:
        if b.cleanup:
            continue
        for s in b.stmts:
            if s.k == 'assign' and any(e['k'] == 'f' and e['n'] == field and e.get('o') == SC for e in s.place.p):
                out.append((b, s))
    return out


def run(F, chk):
    G1 = chk.rule('G1', 'every read of StreamContext.filtered_msgs outside the index builder is dominated by a true `filters_active` test')
    G2 = chk.rule('G2', 'window change: msgs_to_send and msgs_sent are stored with the same start, the id is renewed, then the reply is sent')
    G5 = chk.rule('G5', 'sender loop: after sending msgs_sent.end..new_end the store msgs_sent.end = new_end happens on all paths; new_end = min(stream length, msgs_to_send.end)')
    # builder = function(s) that append to filtered_msgs
    builders = set()
    readers = []
    for b in F.order:
        rs = field_reads(b, 'filtered_msgs')
        if not rs:
            continue
        appends = any(blk.term.k == 'call' and re.search(r'Vec::<T, A>::(append|push|extend\w*)$', blk.term.callee.path) and
                      any(a.place is not None and 'filtered_msgs' in show_place(a.place) for a in blk.term.args) for blk in b.blocks if not blk.cleanup)
        root = b.closure_of or b.path
        if appends or (b.path.startswith('adlt::utils::remote_utils::process_stream_new_msgs')):
            builders.add(root)
        readers.append((b, rs))
    G1.floor('index builder functions (append to filtered_msgs)', len(builders), 1)
    n = 0
    for (b, rs) in readers:
        root = b.closure_of or b.path
        if b.impl_trait in ('std::fmt::Debug', 'std::fmt::Display'):
            continue   # rendering only
        if root in builders:
            # the builder itself: its appends must be under filters_active (the belief the rule relies on)
            continue
        cfg = CFG(b)
        E = ExprBuilder(cfg)
        seen_lines = set()
        for (blk, sp, p, st) in rs:
            line = sp['l'] if sp else 0
            # diagnostics inside format!/debug!/info! are exempt (value only rendered as text)
            if sp and sp.get('m') and any(re.search(r'format|debug|info|warn|error|println|trace', m) for m in sp['m']):
                continue
            if st is not None and st.place.is_local and only_feeds_fmt(b, cfg, st.place.l, 0):
                continue   # value only rendered into a diagnostic text
            if (blk.i, line) in seen_lines:
                continue
            seen_lines.add((blk.i, line))
            n += 1
            G1.sites += 1
            G1.fn(b.path)
            ok = False
            for (c, truth, D) in guards.known(cfg, E, blk.i):
                if truth is True and isinstance(c, tuple) and c[0] == 'place' and c[-1] == '.filters_active':
                    ok = True
            if ok:
                G1.ok(sample={'function': b.path, 'read_at': b.loc(sp), 'guard': 'stream.filters_active == true'})
            else:
                G1.violation(('filtered-index-unguarded', root, branch_key(cfg, E, blk.i)),
                             'StreamContext.filtered_msgs is read at %s without a dominating `filters_active` test: for a stream without filters the index is empty, so this lookup/search silently works on nothing' % b.loc(sp),
                             where=b.loc(sp))
    G1.floor('position-relevant reads of filtered_msgs outside the builder', n, 6)
    # builder belief
    for root in sorted(builders):
        bb = F.get(root)
        if bb is None:
            continue
        cfg = CFG(bb)
        E = ExprBuilder(cfg)
        for blk in bb.calls():
            if re.search(r'Vec::<T, A>::(append|push|extend\w*)$', blk.term.callee.path) and any(a.place is not None and 'filtered_msgs' in show(E.operand(a)) for a in blk.term.args):
                ok = any(truth is True and isinstance(c, tuple) and c[0] == 'place' and c[-1] == '.filters_active' for (c, truth, D) in guards.known(cfg, E, blk.i))
                G1.sites += 1
                if ok:
                    G1.ok(sample={'builder': root, 'append_at': bb.loc(blk.term.sp), 'under': 'filters_active'})
                else:
                    G1.violation(('builder-appends-unconditionally', root), 'the index builder appends to filtered_msgs outside `filters_active` (the belief behind G1 no longer holds)', where=bb.loc(blk.term.sp))
    check_window_change(F, G2)
    check_progress(F, G5)
    G7 = chk.rule('G7', 'search paging: the loop counter is advanced exactly once after each examined element and the continuation returned is the counter itself')
    check_paging(F, G7)
    G11 = chk.rule('G11', 'time lookups use partition_point with a strict `key < wanted` predicate; binary_search* only on keys that are unique by construction')
    check_lookup_primitives(F, G11)
    G14 = chk.rule('G14', 'lookups return the position found by the search primitive unmodified (no clamp / min / arithmetic between the search and the reply)')
    check_lookup_result_unmodified(F, G14)
    G16 = chk.rule('G16', 'every field of a binary message sent to the client derives from the message at that stream position only (never from a previously built output message)')
    check_bin_msg_fields(F, G16)
    G8 = chk.rule('G8', 'index builder: the processed marker advances exactly to the end of what was filtered')
    check_builder_progress(F, G8)
    G20 = chk.rule('G20', 'match_filters (which messages belong to the filtered sequence) quantifies over each filter collection with `any` only: some positive / no negative / some event filter matches (shared with C12 G9)')
    import c12 as _c12
    _c12.check_quantifiers(F, G20, _c12.stream_filter_bodies(F))
    G19 = chk.rule('G19', 'while the file context is paused the server loop neither sends stream data nor finishes or removes a stream: every websocket write and every stream removal in process_file_context lies behind the false edge of the `paused` test')
    check_paused_guard(F, G19)
    G18 = chk.rule('G18', 'index builder: the position stored for a matching message is `offset + i` with i the enumerate() position of that message in the whole slice handed in together with the offset (no chunking / skipping adapter between the slice and enumerate)')
    check_stored_index(F, G18)
    G17 = chk.rule('G17', 'a stream counts as filtered (filters_active) whenever any filter kind that match_filters decides on is present: the kinds read by StreamContext::from cover the kinds read by match_filters')
    import c12
    c12.check_active_shortcut(F, G17)      # shared with C12 G10


FMT_SINK = re.compile(r'^core::fmt::rt::Argument::<.*>::new_|^core::fmt::Arguments|^std::fmt::Arguments')
PASS_THROUGH = re.compile(r'::(len|deref|as_slice|is_empty)$')


def only_feeds_fmt(body, cfg, local, depth):
    """every use of `local` (transitively through refs/copies/len()) ends in a fmt::Argument constructor"""
    if depth > 6:
        return False
    used = False
    for b in body.blocks:
        if b.cleanup:
            continue
        for s in b.stmts:
            if s.k != 'assign':
                continue
            ps = [o.place for o in s.rv_operands() if o.place is not None]
            rp = s.rv_place()
            if rp is not None:
                ps.append(rp)
            if any(p.l == local for p in ps):
                used = True
                if not s.place.is_local or not only_feeds_fmt(body, cfg, s.place.l, depth + 1):
                    return False
        t = b.term
        if t.k == 'call' and any(a.place is not None and a.place.l == local for a in t.args):
            used = True
            p = t.callee.path
            if FMT_SINK.search(p):
                continue
            if PASS_THROUGH.search(p) and t.dest.is_local:
                if not only_feeds_fmt(body, cfg, t.dest.l, depth + 1):
                    return False
                continue
            return False
        if t.k == 'switch':
            o = Operand(t.d['d'])
            if o.place is not None and o.place.l == local:
                return False
        if t.k == 'drop' and t.place.l == local:
            continue
    return used


def show_place(p):
    return p.show(None)


def branch_key(cfg, E, bi):
    """stable descriptor of where in the function the read is: the nearest dominating named-flag conditions"""
    ks = []
    for (c, truth, D) in guards.known(cfg, E, bi):
        if truth in (True, False) and isinstance(c, tuple) and c[0] == 'place' and len(c) <= 4:
            ks.append('%s=%s' % (show(c).replace('(*', '').replace(')', ''), truth))
    return ','.join(ks[:2]) or 'top'


def check_window_change(F, G2):
    n = 0
    for b in F.order:
        w1 = field_writes(b, 'msgs_to_send')
        if not w1:
            continue
        # constructors (aggregate init) are not stores through a projection, so any hit is a window change
        cfg = CFG(b)
        E = ExprBuilder(cfg, fold_named=True)
        w2 = field_writes(b, 'msgs_sent')
        for (blk, s) in w1:
            n += 1
            G2.sites += 1
            G2.fn(b.path)
            e1 = E.rvalue(s.rv)
            start1 = range_start(e1)
            # a msgs_sent store with start == end == start1 on all paths after
            good = None
            for (blk2, s2) in w2:
                e2 = E.rvalue(s2.rv)
                if isinstance(e2, tuple) and e2[0] == 'agg' and e2[1].endswith('Range::Range') and len(e2[2]) == 2 and e2[2][0] == e2[2][1] == start1:
                    if blk2.i == blk.i or cfg.dominates(blk.i, blk2.i):
                        r = cfg.reachable_from(blk.i, avoid={blk2.i}) if blk2.i != blk.i else set()
                        if not any(x in r for x in cfg.exits):
                            good = blk2
            # new_id call afterwards on all paths, before any write_message
            newid = [x.i for x in b.calls() if x.term.callee.path.endswith('StreamContext::new_id')]
            replies = [x.i for x in b.calls() if x.term.callee.path.endswith('::write_message')]
            okid = False
            for ni in newid:
                if cfg.dominates(blk.i, ni):
                    r = cfg.reachable_from(blk.i, avoid={ni})
                    if not any(x in r for x in cfg.exits) and not any(x in r and x != blk.i for x in replies if cfg.dominates(blk.i, x)):
                        okid = True
            if good is not None and okid:
                G2.ok(sample={'function': b.path, 'window_store_at': b.loc(s.sp), 'msgs_sent': 'start..start with the same start', 'new_id': 'before the reply on all paths'})
            else:
                G2.violation(('window-change', b.closure_of or b.path, 'sent%s' % (good is not None), 'newid%s' % okid),
                             'the window change at %s does not on all paths reset msgs_sent to start..start with the same start (%s) and renew the stream id before replying (%s)' % (b.loc(s.sp), good is not None, okid),
                             where=b.loc(s.sp))
    G2.floor('window change sites (stores to msgs_to_send of an existing stream)', n, 1)


def range_start(e):
    if isinstance(e, tuple) and e[0] == 'agg' and e[1].endswith('Range::Range') and len(e[2]) == 2:
        return e[2][0]
    return None


def check_progress(F, G5):
    n = 0
    for b in F.order:
        if b.crate != 'bin':
            continue
        stores = []
        for blk in b.blocks:
            if blk.cleanup:
                continue
            for s in blk.stmts:
                if s.k == 'assign':
                    fl = [e for e in s.place.p if e['k'] == 'f']
                    if len(fl) >= 2 and fl[-2]['n'] == 'msgs_sent' and fl[-2].get('o') == SC and fl[-1]['n'] == 'end':
                        stores.append((blk, s))
        if not stores:
            continue
        cfg = CFG(b)
        E = ExprBuilder(cfg, fold_named=True)
        for (blk, s) in stores:
            n += 1
            G5.sites += 1
            G5.fn(b.path)
            val = E.rvalue(s.rv)
            vs = show(val)
            is_min = isinstance(val, tuple) and val[0] == 'call' and val[1].endswith('cmp::min') and 'msgs_to_send' in vs and '.end' in vs
            # exactly the two bounds: a third one (a per-call cap, `min(min(len, end), sent + K)`) leaves processed messages unsent, and the
            # one-pass drain removes what was processed - the next round indexes below the drained prefix
            if is_min and (vs.count('cmp::min(') != 1 or re.search(r'saturating_add|checked_add|wrapping_add', vs)):
                is_min = False
            # send loops: write_message calls dominated by a range iteration starting at msgs_sent.end; the store must post-dominate them
            sends = [x.i for x in b.calls() if x.term.callee.path.endswith('::write_message') and x.i != blk.i]
            loop_sends = []
            for si in sends:
                for (c, truth, D) in guards.known(cfg, E, si):
                    cs = show(c)
                    if 'Iterator::next' in cs and ('msgs_sent' in cs):
                        loop_sends.append(si)
            must = True
            for si in loop_sends:
                r = cfg.reachable_from(si, avoid={blk.i})
                # normal (Ok) continuation must pass the store; error returns via `?` are allowed exits
                if any(e in r for e in cfg.exits):
                    # allowed only if that exit is an error-propagation exit: check there is a from_residual block on the way
                    r2 = cfg.reachable_from(si, avoid={blk.i} | {x.i for x in b.calls() if 'from_residual' in x.term.callee.path})
                    if any(e in r2 for e in cfg.exits):
                        must = False
            if is_min and must:
                G5.ok(sample={'function': b.path, 'store_at': b.loc(s.sp), 'value': vs[:100], 'send_sites_in_loops': len(loop_sends)})
            else:
                G5.violation(('progress-store', b.path, 'min%s' % is_min, 'must%s' % must),
                             'sender loop: msgs_sent.end is set to %s (must be min(stream length, msgs_to_send.end): %s) and is stored after the send loops on all non-error paths: %s' % (vs[:80], is_min, must),
                             where=b.loc(s.sp))
    G5.floor('stores to msgs_sent.end in the sender loop', n, 1)


# ---------------------------------------------------------------------------------------------
# G7: search paging - the continuation position is the loop counter itself

def check_paging(F, G7):
    """In the search helper the loop counter is advanced exactly once on every path from the
    examination of an element to the loop exit (so it denotes the first unexamined position);
    the continuation returned to the client must then be the counter itself."""
    import pairing
    from paths import Explorer
    n = 0
    for b in F.order:
        if b.crate != 'bin' or b.kind == 'closure':
            continue
        at = b.arg_types()
        if not (any('StreamContext' in t for t in at) and any(t.startswith('&[adlt::dlt::DltMessage]') for t in at) and any('WebSocket<' in t for t in at)):
            continue
        cfg = CFG(b)
        E = ExprBuilder(cfg)
        loops = cfg.loops()
        # loop counter = the named local compared in a loop-exit condition; examination sites = uses of the counter as an index
        counter = None
        hd = None
        for h, body_ in sorted(loops.items(), key=lambda x: -len(x[1])):
            for blk_i in sorted(body_):
                blk = b.blocks[blk_i]
                if blk.term.k == 'switch' and any(s_ not in body_ for s_ in cfg.succ[blk_i]):
                    c = E.switch_cond(blk)
                    if isinstance(c, tuple) and c[0] == 'bin' and c[1] in ('Lt', 'Le') and isinstance(c[2], tuple) and c[2][0] == 'place' and len(c[2]) == 2:
                        counter, hd = c[2][1], h
                        break
            if counter:
                break
        E2 = ExprBuilder(cfg, fold_named=True)    # `let cur = i; .. msgs[cur]` examines position i as well
        # form B: `for pos in start..len { cont = pos + 1; .. examine msgs[pos] .. }` - the loop variable comes from a range
        # iterator, the continuation is a separate local that is set to pos + 1 in every iteration that examines pos
        rl = range_loop_form(b, cfg, E, E2, loops) if counter is None else None
        if counter is None and rl is None:
            continue
        if counter is not None and chunked_form(F, b, cfg, E2, counter, hd, loops, G7):
            n += 1
            continue
        elem = None
        fetch_blocks = set()
        if rl is not None:
            hd, elem, counter, fetch_blocks = rl['head'], rl['elem'], rl['cont'], rl['fetch']
        lbody = loops[hd]
        exams = {}
        idx_name = elem or counter

        def is_counter(op, counter=idx_name):
            if E.operand(op) == ('place', counter) or E2.operand(op) == ('place', counter):
                return True
            # `let idx = if filtered { table[cur] } else { cur }`: one definition of the index local is the counter itself
            if op.place is not None and op.place.is_local:
                l = op.place.l
                sd = cfg.single_def(l)
                if sd is not None and sd[1] != 'call' and sd[2].rv['k'] == 'use' and Operand(sd[2].rv['o']).place is not None and Operand(sd[2].rv['o']).place.is_local:
                    l = Operand(sd[2].rv['o']).place.l
                ds = cfg.defs.get(l, [])
                if len(ds) > 1:
                    return any(si != 'call' and d.rv['k'] == 'use' and E2.rvalue(d.rv) == ('place', counter) for (bi_, si, d) in ds)
            return False
        for blk_i in lbody:
            blk = b.blocks[blk_i]
            t = blk.term
            if t.k == 'assert' and t.d['ak'] == 'BoundsCheck' and is_counter(Operand(t.d['ops'][1])):
                exams[blk_i] = hd
            if t.k == 'call' and t.callee.path == 'std::ops::Index::index' and len(t.args) > 1 and is_counter(t.args[1]):
                exams[blk_i] = hd
        if not exams:
            continue
        n += 1
        G7.fn(b.path)
        cl = b.locals_named(counter) if rl is None else [rl['cont_local']]
        incs = set()
        for blk in b.blocks:
            if blk.cleanup:
                continue
            for s in blk.stmts:
                if s.k == 'assign' and s.place.is_local and s.place.l in cl:
                    e = E.rvalue(s.rv)
                    if e == ('bin', 'Add', ('place', idx_name), ('const', 1)):
                        incs.add(blk.i)
                    elif rl is not None and not (blk.i not in lbody and E2.rvalue(s.rv) == rl['start']):
                        # form B: the continuation local may only be `range start` before the loop and `pos + 1` inside it
                        incs.add(('other', blk.i, show(e)[:40]))
        other_defs = [x for x in incs if isinstance(x, tuple)]
        incs = set(x for x in incs if not isinstance(x, tuple))

        def block_effect(blk, facts):
            if blk.i in fetch_blocks:
                # a new position is pulled from the range: the previous one, if examined, must have been recorded exactly once
                if ('exam',) in facts and pairing.count(facts, 'inc') != 1:
                    facts = frozenset(facts | {('bad',)})
                facts = pairing.reset(frozenset(f for f in facts if f != ('exam',)), ['inc'])
            if blk.i in exams:
                facts = frozenset(facts | {('examined',)})
            if rl is not None:
                if blk.i in exams:
                    facts = frozenset(facts | {('exam',)})
                if blk.i in incs:
                    facts = pairing.bump(facts, 'inc')
                return facts
            if blk.i in exams:
                facts = pairing.reset(facts, ['inc'])
                facts = frozenset(facts | {('exam',)})
            if blk.i in incs:
                facts = pairing.bump(facts, 'inc')
            return facts
        ex = Explorer(cfg, block_effect=block_effect, var_roots=set())
        ex.run()
        G7.paths += ex.n_states
        bad = None
        nstates = 0
        # the `?`-style error exits carry no continuation; only normal exits matter, which is what we looked at
        conts = []
        for blk in b.blocks:
            if blk.cleanup or blk.i in lbody:
                continue
            for s in blk.stmts:
                if s.k == 'assign' and s.rv['k'] == 'agg' and s.rv.get('variant') == 'Some':
                    e = E.rvalue(s.rv)
                    inner = e[2][0] if e[2] else None
                    if inner is not None and any(isinstance(y, tuple) and y and y[0] == 'place' and y[1] == counter for y in walk(inner)):
                        conts.append((blk, s, inner))
        # the counter must have been advanced exactly once since the last examination on every path reaching a continuation site
        for (blk, s_, inner) in conts:
            for st in ex.states.get(blk.i, ()):
                if ('examined',) in st[1]:
                    nstates += 1
                if ('exam',) in st[1]:
                    k = pairing.count(st[1], 'inc')
                    if k != 1:
                        bad = (blk.i, st, k)
                if ('bad',) in st[1]:
                    bad = (blk.i, st, 0)
        if other_defs:
            bad = (other_defs[0][1], None, -1)
        advanced_once = bad is None and nstates > 0
        G7.sites += len(conts) + len(exams)
        if not conts:
            G7.violation(('anchor-lost', 'continuation', b.path), 'no continuation value Some(<counter expr>) found after the search loop in ' + b.path)
            continue
        for (blk, s, inner) in conts:
            if advanced_once and inner == ('place', counter):
                G7.ok(sample={'function': b.path, 'counter': counter, 'advanced_exactly_once_after_each_examination': True, 'continuation': show(inner)})
            elif advanced_once:
                G7.violation(('continuation-skips', b.path, show(inner)),
                             'search paging: on every exit of the search loop `%s` already denotes the first unexamined position (advanced exactly once after each examined element), but the continuation returned is %s: '
                             'the next page skips stream position(s)' % (counter, show(inner)), where=b.loc(s.sp))
            else:
                x, st, k = bad if bad is not None else (None, None, -2)
                if k < 0:
                    G7.violation(('counter-advance', b.path, 'other-def' if k == -1 else 'no-exam'), 'search paging: the continuation `%s` is %s' % (counter, ('also assigned %s' % other_defs[0][2]) if k == -1 else 'never reached after an examination'), where=b.loc(None))
                    continue
                G7.violation(('counter-advance', b.path, 'inc%d' % k), 'search paging: the loop counter `%s` is advanced %d times between examining an element and leaving the loop on some path' % (counter, k),
                             where=b.loc(None), witness={'block_path': ex.witness(x, st)[-30:]})
        # "finished" (no continuation) may only be answered when the counter reached the *stream length*: the value the
        # counter is compared with where Some(counter)/None is decided must be the length of the stream's message list
        # (filtered_msgs.len() / all_msgs.len(), possibly chosen by filters_active), not a clamped or budgeted bound
        EF = ExprBuilder(cfg, fold_named=True)

        def is_stream_len(e, depth=0):
            se = show(e)
            if re.match(r'(Vec::len\(&\(\*stream\)\.filtered_msgs\)|PtrMetadata\(all_msgs\)|slice::len\(all_msgs\)|slice::len\(&\(\*all_msgs\)\))$', se):
                return True
            if isinstance(e, tuple) and e[0] == 'place' and len(e) == 2 and depth < 3:
                ls_ = b.locals_named(e[1])
                if len(ls_) != 1:
                    return False
                ds_ = cfg.defs.get(ls_[0], [])
                if not ds_:
                    return False
                for (bi_, si_, d_) in ds_:
                    if si_ == 'call':
                        ev = ('call', d_.callee.path, tuple(EF.operand(a) for a in d_.args))
                    else:
                        ev = EF.rvalue(d_.rv)
                    if not is_stream_len(ev, depth + 1):
                        return False
                return True
            return False
        for (blk, s_, inner) in conts:
            decided = None
            for (c, truth, D) in guards.known(cfg, E, blk.i):
                if isinstance(c, tuple) and c[0] == 'bin' and c[1] in ('Lt', 'Gt', 'Le', 'Ge', 'Ne') and truth is True:
                    if c[2] == ('place', counter):
                        decided = c[3]
                    elif c[3] == ('place', counter):
                        decided = c[2]
            G7.sites += 1
            if decided is None:
                G7.violation(('continuation-undecided', b.path), 'cannot find the comparison of `%s` that decides between a continuation and "finished" in %s' % (counter, b.path), where=b.loc(s_.sp))
            elif is_stream_len(decided):
                G7.ok(sample={'function': b.path, 'finished_is_answered_when': '%s reached %s' % (counter, show(decided)[:50]), 'which_is': 'the length of the stream message list'})
            else:
                G7.violation(('finished-before-end', b.path), 'search paging: %s answers "finished" (no continuation) when `%s` reaches %s, which is not the length of the stream\'s message list: '
                             'positions behind that bound are never examined by any page' % (b.path, counter, show(EF.operand(Operand({'k': 'copy', 'p': {'l': b.locals_named(decided[1])[0], 'p': [], 't': 'usize'}})) if isinstance(decided, tuple) and decided[0] == 'place' and len(decided) == 2 and len(b.locals_named(decided[1])) == 1 else decided)[:80]),
                             where=b.loc(s_.sp))
    G7.floor('search functions with an examination loop', n, 1)


def chunked_form(F, b, cfg, E2, counter, hd, loops, G7):
    """form C: the stream is examined chunk-wise (`(i..chunk_end)` handed to a parallel filter) and the counter jumps:
    `i = chunk_end` after a chunk, and `i = matches[K] + 1` when the chunk yielded more than wanted and `matches` is cut to T
    entries.  Then i is the first unexamined-or-unreported position iff K + 1 == T (the last *kept* match).  Returns True if the
    function has this form (verdict registered in G7), False otherwise."""
    import linform
    lbody = loops[hd]
    cl = b.locals_named(counter)
    jumps = []
    ends = []
    for blk_i in lbody:
        for s in b.blocks[blk_i].stmts:
            if s.k == 'assign' and s.place.is_local and s.place.l in cl:
                e = E2.rvalue(s.rv)
                if isinstance(e, tuple) and e[0] == 'bin' and e[1] == 'Add' and e[3] == ('const', 1) and 'Index::index(' in show(e[2]):
                    jumps.append((blk_i, s, e[2]))
                elif e != ('bin', 'Add', ('place', counter), ('const', 1)):
                    ends.append((blk_i, s, e))
    if not jumps:
        return False
    G7.fn(b.path)
    L = linform.Lin(F, b, cfg)
    for (bi, s, src) in jumps:
        G7.sites += 1
        K = None
        vec = None
        for x in walk(src):
            if isinstance(x, tuple) and x and x[0] == 'call' and x[1].endswith('Index::index') and len(x[2]) == 2:
                vec, K = x[2][0], x[2][1]
        T = None
        for y in lbody:
            t = b.blocks[y].term
            if t.k == 'call' and re.search(r'Vec::<T, A>::truncate$', t.callee.path) and (cfg.dominates(bi, y) or cfg.dominates(y, bi) or y == bi):
                T = E2.operand(t.args[1])
        if K is None or T is None:
            G7.violation(('continuation-skips', b.path, 'chunk-jump'), 'search paging (chunked): the counter `%s` jumps to %s + 1 at %s but the result vector is not cut in the same step' % (counter, show(src)[:50], b.loc(s.sp)), where=b.loc(s.sp))
            continue
        lk, lt = L.lin(K, at=bi), L.lin(T, at=bi)
        if linform.add(lk, {1: 1}) == lt:
            G7.ok(sample={'function': b.path, 'counter': counter, 'form': 'chunked', 'jump': 'last kept match + 1', 'kept': linform.fmt(lt)})
        else:
            G7.violation(('continuation-skips', b.path, 'chunk-jump'), 'search paging (chunked): after a chunk with more matches than wanted the results are cut to %s entries but the counter `%s` continues behind match number %s (+1): '
                         'the next page starts behind a match that was never reported (or re-reports one)' % (linform.fmt(lt), counter, linform.fmt(lk)), where=b.loc(s.sp))
    return True


def range_loop_form(b, cfg, E, E2, loops):
    """`for pos in start..end { .. cont = pos + 1 .. }`: {'head', 'elem' (name of pos), 'cont' (name), 'fetch' (blocks calling next), 'start'}"""
    for h, body_ in sorted(loops.items(), key=lambda x: -len(x[1])):
        for blk_i in sorted(body_):
            t = b.blocks[blk_i].term
            if not (t.k == 'call' and t.callee.path == 'std::iter::Iterator::next' and t.args and 'std::ops::Range<' in (t.args[0].ty or '') and t.dest.is_local):
                continue
            x = E2.operand(t.args[0])
            for _ in range(8):
                if isinstance(x, tuple) and x[0] == 'ref':
                    x = x[1]
                elif isinstance(x, tuple) and x[0] == 'proj' and len(x) == 2:
                    x = x[1]
                elif isinstance(x, tuple) and x[0] == 'call' and x[1].endswith('IntoIterator::into_iter') and x[2]:
                    x = x[2][0]
            if not (isinstance(x, tuple) and x[0] == 'agg' and x[1].endswith('Range::Range') and len(x[2]) == 2):
                continue
            elem = None
            for q in body_:
                for s in b.blocks[q].stmts:
                    if s.k == 'assign' and s.place.is_local and b.name_of(s.place.l) and s.rv['k'] == 'use':
                        o = Operand(s.rv['o'])
                        if o.place is not None and o.place.l == t.dest.l and [e['k'] for e in o.place.p] == ['dc', 'f']:
                            elem = b.name_of(s.place.l)
            if elem is None:
                continue
            cont = cont_l = None
            for q in body_:
                for s in b.blocks[q].stmts:
                    if s.k == 'assign' and s.place.is_local and b.name_of(s.place.l) and E.rvalue(s.rv) == ('bin', 'Add', ('place', elem), ('const', 1)):
                        cont, cont_l = b.name_of(s.place.l), s.place.l
            if cont is None:
                continue
            return {'head': h, 'elem': elem, 'cont': cont, 'cont_local': cont_l, 'fetch': {blk_i}, 'start': x[2][0]}
    return None


# ---------------------------------------------------------------------------------------------
# G8: the index builder marks as processed exactly what it filtered

def check_paused_guard(F, G19):
    """A query is finished ("no new messages and everything processed") by the same loop that fetches new messages.  While
    paused nothing is fetched, so that condition is vacuously true: if the loop ran for a paused context it would send the
    end-of-query frame and drop the query before its window was served.  Hence the pause test guards the whole function:
    every write to the websocket and every removal of a stream is dominated by `!fc.paused`."""
    b = F.get('adlt_bin::remote::process_file_context')
    if b is None:
        G19.violation(('anchor-lost', 'process_file_context'), 'process_file_context not found')
        return
    G19.fn(b.path)
    cfg = CFG(b)
    E = ExprBuilder(cfg, fold_named=True)
    sites = []
    loops_ = cfg.loops()
    for blk in b.calls():
        p = blk.term.callee.path
        a0 = (blk.term.args[0].ty or '') if blk.term.args else ''
        if (re.search(r'WebSocket::<.*>::(write_message|send|write|write_pending)$', p) or p.endswith('::write_message')) and any(blk.i in lb for lb in loops_.values()):
            sites.append((blk, 'websocket write'))        # the per-stream sends live in the loops over the streams (the extraction progress frames before them do not)
        elif re.search(r'Vec::<T, A>::(remove|retain|retain_mut|swap_remove|clear|truncate|drain|pop)$', p) and 'StreamContext' in a0:
            sites.append((blk, 'stream removal'))
    G19.floor('websocket writes / stream removals in process_file_context', len(sites), 3)
    tests = 0
    for (blk, what) in sites:
        G19.sites += 1
        ok = False
        for (c, truth, D) in guards.known(cfg, E, blk.i):
            if truth is False and re.search(r'\.paused\)?$', show(c)):
                ok = True
        if ok:
            tests += 1
            G19.ok(sample={'site': b.loc(blk.term.sp), 'kind': what, 'behind': '!fc.paused'})
        else:
            G19.violation(('stream-served-while-paused', b.path, what.replace(' ', '-')), 'process_file_context reaches the %s at %s also for a paused file context: with nothing fetched the end-of-query condition is vacuously true, a query is answered with the empty end frame and removed before its window was served' %
                          (what, b.loc(blk.term.sp)), where=b.loc(blk.term.sp))


def check_stored_index(F, G18):
    """filtered_msgs[k] must be the position (in all_msgs) of the k-th matching message.  The matcher gets a slice and the position of
    its first element; the position of an element is offset + its index in that slice.  An index taken relative to a chunk, a
    skipped prefix or a reordered iteration is a position of another message: window, search and lookups then work on a
    corrupted index although counts and progress markers look right."""
    b = F.get('adlt::utils::remote_utils::process_stream_new_msgs')
    if b is None:
        G18.violation(('anchor-lost', 'process_stream_new_msgs'), 'index builder not found')
        return
    G18.fn(b.path)
    matchers = [c for c in F.closures_of(b.path) if c.ret_type().startswith('std::vec::Vec<usize') and any(t.startswith('&[adlt::dlt::DltMessage]') for t in c.arg_types())]
    if not matchers:
        # the matching may be a private fn
        matchers = [x for x in F.order if x.crate == 'lib' and x.kind != 'closure' and x.path.startswith('adlt::utils::remote_utils::') and x.ret_type().startswith('std::vec::Vec<usize') and any(t.startswith('&[adlt::dlt::DltMessage]') for t in x.arg_types())
                    and any(blk.term.callee.path == x.path for blk in b.calls())]
    # a matcher that only forwards (`|chunk, off| collect_matching_idxs(filters, chunk, off)`): the forwarded-to function is the matcher
    fwd = []
    for mt in matchers:
        tgt = None
        if not any(blk.term.callee.path.endswith('::enumerate') for blk in mt.calls()):
            for blk in mt.calls():
                H = F.get(blk.term.callee.resolved) if blk.term.callee.resolved else F.get(blk.term.callee.path)
                if H is not None and H.kind != 'closure' and H.crate == 'lib' and H.ret_type().startswith('std::vec::Vec<usize') and any(t.startswith('&[adlt::dlt::DltMessage]') for t in H.arg_types()) \
                        and blk.term.dest.is_local and blk.term.dest.l == 0:
                    # slice and offset must be handed on unchanged
                    mcfg = CFG(mt)
                    ok_args = True
                    for a, ty in zip(blk.term.args, H.arg_types()):
                        if ty.startswith('&[adlt::dlt::DltMessage]') or ty == 'usize':
                            o = mcfg.origin_of_operand(a) if a.place is not None else None
                            if o is None or o.l > mt.arg_count or any(e['k'] != 'deref' for e in o.p):
                                ok_args = False
                    if ok_args:
                        tgt = H
        fwd.append(tgt or mt)
    matchers = fwd
    G18.floor('matcher (slice of messages, offset) -> Vec<usize> of the index builder', len(matchers), 1)
    SRC = re.compile(r'::(par_iter|iter|into_par_iter|into_iter)$')
    OKADAPT = re.compile(r'::(enumerate|filter|map|filter_map|collect|collect_into_vec|copied|cloned|by_ref)$')
    for mt in matchers:
        G18.fn(mt.path)
        cfg = CFG(mt)
        E = ExprBuilder(cfg, fold_named=True)
        slice_params = [i for i, t in enumerate(mt.arg_types(), start=1) if t.startswith('&[adlt::dlt::DltMessage]')]
        usize_params = [mt.name_of(i) or 'arg%d' % i for i, t in enumerate(mt.arg_types(), start=1) if t == 'usize']
        G18.sites += 1
        # (a) the adapter chain: source over the slice parameter itself, then only order/position preserving adapters up to enumerate
        chain = [blk for blk in mt.calls() if 'Iterator' in blk.term.callee.path or 'rayon' in (blk.term.args[0].ty if blk.term.args else '') or SRC.search(blk.term.callee.path)]
        names = [blk.term.callee.path.split('::')[-1] for blk in mt.calls()]
        bad = [n_ for n_ in names if re.match(r'^(par_chunks|chunks|par_chunks_exact|chunks_exact|skip|skip_while|step_by|rev|zip|take|take_while|windows|par_windows|split_at|flat_map|flat_map_iter|chain|interleave|fold|par_bridge|rchunks|par_rchunks)$', n_)]
        en = [blk for blk in mt.calls() if blk.term.callee.path.endswith('::enumerate')]
        src_ok = False
        for blk in en:
            a0 = blk.term.args[0]
            pl = cfg.origin_of_operand(a0) if a0.place is not None else None
            sd = cfg.single_def(pl.l) if pl is not None and not pl.p else None
            if sd is not None and sd[1] == 'call' and SRC.search(sd[2].callee.path) and sd[2].args and sd[2].args[0].place is not None:
                o2 = cfg.origin_of_operand(sd[2].args[0])
                if o2 is not None and o2.l in slice_params and all(e['k'] == 'deref' for e in o2.p):
                    src_ok = True
        # (b) the producing closure returns offset + position
        prod_ok = False
        nested = [c for c in F.closures_of(b.path) if c.path.startswith(mt.path + '::')] or [c for c in F.order if c.kind == 'closure' and c.path.startswith(mt.path + '::')]
        for c2 in nested:
            rt = c2.ret_type()
            if not (rt == 'usize' or rt.startswith('std::option::Option<usize')):
                continue
            c2cfg = CFG(c2)
            E2 = ExprBuilder(c2cfg, fold_named=True)
            vals = []
            for blk in c2.blocks:
                if blk.cleanup:
                    continue
                for s_ in blk.stmts:
                    if s_.k == 'assign' and s_.place.is_local and s_.place.l == 0 and not s_.place.p:
                        e = E2.rvalue(s_.rv)
                        if isinstance(e, tuple) and e[0] == 'agg' and e[1].endswith('Option::Some') and e[2]:
                            e = e[2][0]
                        if isinstance(e, tuple) and e[0] == 'agg' and e[1].endswith('Option::None'):
                            continue
                        vals.append(e)
            def is_off(x):
                return re.search(r'(^|[.(*])(%s)\)*$' % '|'.join(re.escape(u) for u in usize_params), show(x)) is not None

            def is_pos(x):
                sx = show(x)
                # .0 of the enumerated pair, or a captured copy of it (`.then(|| offset + pos)`): anything that is not the offset and not a constant
                return not is_off(x) and not (isinstance(x, tuple) and x[0] == 'const')
            if vals and all(isinstance(e, tuple) and e[0] == 'bin' and e[1] == 'Add' and ((is_off(e[2]) and is_pos(e[3])) or (is_off(e[3]) and is_pos(e[2]))) for e in vals):
                prod_ok = True
        if bad or not src_ok or not prod_ok or len(en) != 1:
            why = []
            if bad:
                why.append('the slice goes through %s before the positions are taken' % '/'.join(sorted(set(bad))))
            if len(en) != 1:
                why.append('%d enumerate() calls' % len(en))
            elif not src_ok:
                why.append('enumerate() is not applied to an iterator over the whole slice parameter')
            if not prod_ok:
                why.append('no closure returns `offset + .0 of the enumerated pair`')
            G18.violation(('stored-index-not-offset-plus-position', mt.path), 'the index builder %s: %s - the stored index is not known to be the position of the matching message (offset + its index in the slice)' % (mt.path, '; '.join(why)), where=mt.loc(None))
        else:
            G18.ok(sample={'matcher': mt.path, 'stored': 'offset + enumerate() position over the whole slice', 'adapters': names})


def check_builder_progress(F, G8):
    """Under filters_active every store to all_msgs_last_processed_len must be
    offset + (end of a slice of the new messages that was handed to the matcher), or an index taken out
    of the matcher's result (first unwanted match).  Anything else marks messages as processed that were
    never filtered (their matches never reach the filtered index)."""
    b = F.get('adlt::utils::remote_utils::process_stream_new_msgs')
    if b is None:
        G8.violation(('anchor-lost', 'process_stream_new_msgs'), 'index builder not found')
        return
    G8.fn(b.path)
    cfg = CFG(b)
    E = ExprBuilder(cfg, fold_named=True)
    # parameter names by position: (stream, new_msgs_offset, new_msgs, max_chunk_size)
    msgs_param = None
    off_param = None
    for i, t in enumerate(b.arg_types(), start=1):
        if t.startswith('&[adlt::dlt::DltMessage]'):
            msgs_param = b.name_of(i)
        elif t == 'usize' and off_param is None:
            off_param = b.name_of(i)
    ends = []
    end_sites = []      # (end expression, block of the slicing): only a slice taken on the way to the store was filtered there
    for blk in b.calls():
        t = blk.term
        if t.callee.path.endswith('::index') and len(t.args) > 1:
            base = show(E.operand(t.args[0]))
            if msgs_param and msgs_param in base:
                r = E.operand(t.args[1])
                if isinstance(r, tuple) and r[0] == 'agg' and r[1].endswith('Range::Range') and len(r[2]) == 2:
                    ends.append(r[2][1])
                    end_sites.append((r[2][1], blk.i))
    # a chunk filtered by a private helper that returns (matches, new marker): the helper is judged by the same rule on the
    # marker component it returns, and a store of that component is then as good as the helper's own definitions
    faithful = {}
    n_helper_defs = 0
    for blk in b.calls():
        t = blk.term
        H = F.get(t.callee.resolved) if t.callee.resolved else F.get(t.callee.path)
        if H is None or H.kind == 'closure' or H.crate != 'lib' or H.path == b.path or not H.ret_type().startswith('('):
            continue
        hm = ho = None
        for i, a in enumerate(t.args):
            ea = E.operand(a)
            while isinstance(ea, tuple) and ea[0] == 'ref':
                ea = ea[1]
            if isinstance(ea, tuple) and ea[0] == 'place' and all(p_ == '*' for p_ in ea[2:]):
                ea = ('place', ea[1])
            if ea == ('place', msgs_param):
                hm = H.name_of(i + 1) or 'arg%d' % (i + 1)
            if ea == ('place', off_param):
                ho = H.name_of(i + 1) or 'arg%d' % (i + 1)
        if hm is None or ho is None:
            continue
        hcfg = CFG(H)
        hE = ExprBuilder(hcfg, fold_named=True)
        hends = []
        for hb in H.calls():
            ht = hb.term
            if ht.callee.path.endswith('::index') and len(ht.args) > 1 and hm in show(hE.operand(ht.args[0])):
                r = hE.operand(ht.args[1])
                if isinstance(r, tuple) and r[0] == 'agg' and r[1].endswith('Range::Range') and len(r[2]) == 2:
                    hends.append((r[2][1], hb.i))
        ok_all = bool(hends)
        ndefs = 0
        for (bi_, si_, d_) in hcfg.defs.get(0, []):
            if si_ == 'call' or d_.rv['k'] != 'agg' or d_.rv.get('ak') != 'tuple':
                ok_all = False
                continue
            for o in d_.rv['ops']:
                oo = Operand(o)
                if (oo.ty or '') != 'usize':
                    continue
                ndefs += 1
                e = hE.operand(oo)
                good = isinstance(e, tuple) and e[0] == 'bin' and e[1] == 'Add' and e[2] == ('place', ho) and any(e[3] == en and hcfg.dominates(eb, bi_) for (en, eb) in hends)
                good = good or (not show(e).startswith('Add(') and from_matcher_result(F, e, params=[H.name_of(i) or 'arg%d' % i for i in range(1, H.arg_count + 1)]))
                if not good:
                    ok_all = False
        if ok_all and ndefs:
            faithful[H.path] = ndefs
            ends += [en for (en, _b) in hends]
            n_helper_defs += ndefs
            G8.fn(H.path)
    G8.floor('slices of the new messages handed to the matcher', len(ends), 2)
    n = n_helper_defs
    for blk in b.blocks:
        if blk.cleanup:
            continue
        for s in blk.stmts:
            if s.k == 'assign' and any(e['k'] == 'f' and e['n'] == 'all_msgs_last_processed_len' and e.get('o') == SC for e in s.place.p):
                under = any(t is True and isinstance(c, tuple) and c[0] == 'place' and c[-1] == '.filters_active' for (c, t, D) in guards.known(cfg, E, blk.i))
                if not under:
                    continue
                # `marker = if fits { offset + end } else { first_unwanted }`: judge every definition of the stored temp
                vals = [(E.rvalue(s.rv), s, blk.i)]
                if s.rv['k'] == 'use':
                    o_ = Operand(s.rv['o'])
                    if o_.place is not None and o_.place.is_local and not o_.place.p and len(cfg.defs.get(o_.place.l, [])) > 1 and \
                            all(si_ != 'call' for (_b, si_, _d) in cfg.defs[o_.place.l]):
                        vals = [(E.rvalue(d_.rv), d_, _b) for (_b, si_, d_) in cfg.defs[o_.place.l]]
                for (e, s, at_) in vals:
                    n += 1
                    G8.sites += 1
                    ok = False
                    if isinstance(e, tuple) and e[0] == 'bin' and e[1] == 'Add' and e[2] == ('place', off_param) and \
                            any(e[3] == en and (cfg.dominates(eb, at_) or cfg.dominates(eb, blk.i)) for (en, eb) in end_sites):
                        ok = 'offset + end of the slice filtered on the way to this store'
                    se = show(e)
                    if not ok and not se.startswith('Add(') and from_matcher_result(F, e):
                        ok = 'index of the first unwanted match taken from the matcher result'
                    if not ok and isinstance(e, tuple) and e[0] == 'proj' and isinstance(e[1], tuple) and e[1][0] == 'call' and e[1][1] in faithful:
                        ok = 'marker component returned by %s, every definition of which is offset + end of the chunk it filtered or an element of the matcher result' % e[1][1].split('::')[-1]
                    if ok:
                        G8.ok(sample={'store_at': b.loc(s.sp), 'value': se[:110], 'why': ok})
                    else:
                        G8.violation(('progress-beyond-filtered', b.path, re.sub(r'[^A-Za-z_]+', '_', se)[:50]),
                                     'the index builder sets all_msgs_last_processed_len = %s at %s: not offset + end of a slice that was actually filtered (filtered slice ends: %s) - messages beyond the filtered chunk are marked processed and never reach the filtered index' %
                                     (se[:100], b.loc(s.sp), [show(x)[:50] for x in ends]), where=b.loc(s.sp))
    G8.floor('progress stores under filters_active in the index builder', n, 3)


def from_matcher_result(F, e, params=()):
    """is `e` an element of the index vector returned by the matcher: Index::index(&<call of a closure / crate function
    returning Vec<usize>>, ..)"""
    for x in walk(e):
        if isinstance(x, tuple) and x and x[0] == 'call' and x[1].endswith('Index::index') and x[2]:
            src = x[2][0]
            for _ in range(6):
                if isinstance(src, tuple) and src[0] in ('ref', 'cast'):
                    src = src[1]
                elif isinstance(src, tuple) and src[0] == 'proj' and (len(src) == 2 or all(p_ == '*' for p_ in src[2:])):
                    src = src[1]
            if isinstance(src, tuple) and src[0] == 'call':
                if src[1] in ('std::ops::Fn::call', 'std::ops::FnMut::call_mut') and '{closure#' in show(src):
                    return True
                if src[1] in ('std::ops::Fn::call', 'std::ops::FnMut::call_mut') and params and src[2]:
                    # the matcher handed in as a generic parameter of a helper
                    f_ = src[2][0]
                    while isinstance(f_, tuple) and (f_[0] == 'ref' or (f_[0] == 'proj' and len(f_) == 2)):
                        f_ = f_[1]
                    if isinstance(f_, tuple) and f_[0] == 'place' and f_[1] in params:
                        return True
                H = F.get(src[1])
                if H is not None and H.ret_type().startswith('std::vec::Vec<usize'):
                    return True
    return False


# ---------------------------------------------------------------------------------------------
# G11: lookups return the FIRST position not before the requested one

TIME_KEY = re.compile(r'(timestamp_us|reception_time_us|start_time|timestamp_dms|time_us)')


def lookup_functions(F):
    """lookup functions of the remote module (StreamContext + FileContext -> position) and the private position helpers of the
    module (.. &StreamContext .. -> usize) they call"""
    out = []
    for b in F.order:
        if b.crate != 'bin' or b.kind == 'closure' or not b.path.startswith('adlt_bin::remote::') or '::tests::' in b.path:
            continue
        if 'StreamContext' not in ' '.join(b.arg_types()) or 'FileContext' not in ' '.join(b.arg_types()):
            continue
        if not re.search(r'(^usize$|Result<usize)', b.ret_type()):
            continue
        out.append(b)
    work = list(out)
    while work:
        b = work.pop()
        for blk in b.calls():
            H = F.get(blk.term.callee.resolved) if blk.term.callee.resolved else F.get(blk.term.callee.path)
            if H is not None and H.kind != 'closure' and H.crate == 'bin' and H.path.startswith('adlt_bin::remote::') and H.ret_type() == 'usize' and \
                    'StreamContext' in ' '.join(H.arg_types()) and H not in out:
                out.append(H)
                work.append(H)
    return out


def check_lookup_primitives(F, G11):
    """"index/time lookups return the position of the first stream message not before the requested one".
    `binary_search_by(cmp)` returns *any* of several equal elements, so it is only acceptable for keys that are unique by
    construction (positions in all_msgs, msg.index in index order); a search keyed by a *time* (many messages share one)
    must use `partition_point` with the strict predicate `key < wanted` (first element for which it is false).
    Who-may-call + predicate-shape rule over the lookup functions of the remote module."""
    import comparators
    n = 0
    for b in lookup_functions(F):
        cfg = CFG(b)
        E = ExprBuilder(cfg, fold_named=True)
        for blk in b.calls():
            t = blk.term
            p = t.callee.path
            m = re.search(r'::(binary_search_by|binary_search_by_key|binary_search|partition_point)$', p)
            if not m:
                continue
            kind = m.group(1)
            n += 1
            G11.sites += 1
            G11.fn(b.path)
            cl = None
            for a in t.args:
                if '{closure@' in (a.ty or ''):
                    cl = comparators.closure_path_of(F, b, a)
            if kind == 'binary_search':
                key = show(ExprBuilder(cfg).operand(t.args[1])) if len(t.args) > 1 else ''
                coll = show(E.operand(t.args[0]))
                # filtered_msgs holds strictly increasing positions of all_msgs (built by process_stream_new_msgs, rule G8): unique keys
                if TIME_KEY.search(key) and 'filtered_msgs' not in coll:
                    G11.violation(('any-of-equal-times', b.path, kind), '%s searches a time with binary_search at %s: of several messages with the same time an arbitrary one is returned, not the first' % (b.path, b.loc(t.sp)), where=b.loc(t.sp))
                else:
                    G11.ok(sample={'function': b.path, 'at': b.loc(t.sp), 'primitive': 'binary_search', 'key': key[:50], 'unique_key': True})
                continue
            if cl is None:
                G11.violation(('lookup-closure-unresolved', b.path, kind), 'cannot resolve the closure given to %s at %s' % (kind, b.loc(t.sp)), where=b.loc(t.sp))
                continue
            ccfg = CFG(cl)
            cE = ExprBuilder(ccfg, fold_named=True)
            rets = []
            for (rb, rsi, rd) in ccfg.defs.get(0, []):
                if rsi == 'call':
                    rets.append(('call', rd.callee.path, tuple(cE.operand(a) for a in rd.args)))
                else:
                    rets.append(cE.rvalue(rd.rv))
            txt = ' ; '.join(show(r) for r in rets)
            # every time source read inside the closure
            reads_time = any(TIME_KEY.search(show(cE.operand(a))) for x in cl.calls() for a in x.term.args) or TIME_KEY.search(txt) is not None or \
                any(x.term.callee.path.endswith('::timestamp_us') for x in cl.calls())
            if kind.startswith('binary_search_by'):
                if reads_time:
                    G11.violation(('any-of-equal-times', b.path, kind), '%s looks a time up with %s at %s: several messages share one time and binary_search_by returns any of them, so the answer is not the first '
                                  'message not before the requested time (use partition_point with `key < wanted`)' % (b.path, kind, b.loc(t.sp)), where=b.loc(t.sp))
                else:
                    G11.ok(sample={'function': b.path, 'at': b.loc(t.sp), 'primitive': kind, 'key': txt[:60], 'unique_key': True})
            else:
                strict = rets and all(isinstance(r, tuple) and r[0] == 'bin' and r[1] == 'Lt' for r in rets)
                if strict:
                    G11.ok(sample={'function': b.path, 'at': b.loc(t.sp), 'primitive': 'partition_point', 'predicate': txt[:60], 'strict': True})
                else:
                    G11.violation(('partition-not-strict', b.path), '%s uses partition_point at %s with predicate %s: the first position *not before* the requested one needs the strict predicate `key < wanted` '
                                  '(with `<=` every message equal to the request is skipped)' % (b.path, b.loc(t.sp), txt[:80]), where=b.loc(t.sp))
    G11.floor('search primitives in the lookup functions', n, 3)


# ---------------------------------------------------------------------------------------------
# G14: the position a lookup returns is the one the search primitive found

ADJUST = re.compile(r'(cmp::min|cmp::max|Ord::min|Ord::max|Ord::clamp|::clamp|saturating_sub|saturating_add|checked_sub|checked_add|wrapping_sub|wrapping_add|::pow|abs_diff)$')


def check_lookup_result_unmodified(F, G14):
    """"lookups return the position of the first stream message not before the requested one" - which is the stream length when
    every stream message lies before it.  partition_point / binary_search(..).unwrap_or_else(|e| e) deliver exactly that
    position; anything applied to it afterwards (min(pos, len - 1), pos - 1, clamp ..) turns "behind the end" into a message
    that lies before the requested one.  For the lookup functions of the remote module and the private helpers they
    delegate the position to: no arithmetic and no min/max/clamp/saturating call in any definition of the returned position."""
    lookups = []
    for b in F.order:
        if b.crate != 'bin' or b.kind == 'closure' or not b.path.startswith('adlt_bin::remote::') or '::tests::' in b.path:
            continue
        if 'StreamContext' not in ' '.join(b.arg_types()) or 'FileContext' not in ' '.join(b.arg_types()):
            continue
        if not re.search(r'(^usize$|Result<usize)', b.ret_type()):
            continue
        lookups.append(b)
    G14.floor('lookup functions of the remote module (StreamContext + FileContext -> position)', len(lookups), 2)
    seen = set()
    work = list(lookups)
    n = 0
    while work:
        b = work.pop()
        if b.path in seen:
            continue
        seen.add(b.path)
        G14.fn(b.path)
        cfg = CFG(b)
        E = ExprBuilder(cfg, fold_named=True)
        vals = []
        for (bi, si, d) in cfg.defs.get(0, []):
            if si == 'call':
                vals.append((('call', d.callee.path, tuple(E.operand(a) for a in d.args)), d.sp))
                continue
            if d.rv['k'] == 'agg' and d.rv.get('variant') == 'Err':
                continue
            ops = [Operand(d.rv['o'])] if d.rv['k'] in ('use', 'cast') else [Operand(o) for o in d.rv.get('ops', [])]
            for o in ops:
                # every definition of a phi temp
                if o.place is not None and o.place.is_local and not o.place.p and len(cfg.defs.get(o.place.l, [])) > 1:
                    for (b2, s2, d2) in cfg.defs[o.place.l]:
                        vals.append(((('call', d2.callee.path, tuple(E.operand(a) for a in d2.args)) if s2 == 'call' else E.rvalue(d2.rv)), d2.sp))
                else:
                    vals.append((E.operand(o), d.sp))
        for (e, sp) in vals:
            n += 1
            G14.sites += 1
            bad = None
            for x in walk(e):
                if not (isinstance(x, tuple) and x):
                    continue
                if x[0] == 'bin' and x[1] in ('Add', 'Sub', 'Mul', 'Div', 'Rem', 'Shl', 'Shr') and 'PtrMetadata' not in show(x)[:14]:
                    bad = show(x)[:60]
                if x[0] == 'call' and ADJUST.search(x[1]):
                    bad = show(x)[:60]
                if x[0] == 'call':
                    H = F.get(x[1])
                    if H is not None and H.kind != 'closure' and H.crate == 'bin' and H.path.startswith('adlt_bin::remote::') and H.ret_type() == 'usize' and H.path not in seen:
                        work.append(H)
            if bad:
                G14.violation(('lookup-result-adjusted', b.path), '%s returns a position that was modified after the search (%s) at %s: "behind the last stream message" can become a message that lies before the requested one' % (b.path, bad, b.loc(sp)), where=b.loc(sp))
            else:
                G14.ok(sample={'function': b.path, 'returned_position': show(e)[:90], 'modified_after_search': False})
    G14.floor('returned positions of the lookup functions', n, 4)


# ---------------------------------------------------------------------------------------------
# G16: an output message is built from its own input message

def check_bin_msg_fields(F, G16):
    """"each delivered with index, times, ids, counter and payload text equal to the file's": the BinDltMsg for stream position i is
    built from all_msgs[idx(i)] alone.  Backward data provenance of every operand of a BinDltMsg construction in the remote
    module: it must contain no read of a field of another BinDltMsg (text / ids copied over from the previous output
    message "because it is the same anyway"), and the payload text must stem from DltMessage::payload_as_text."""
    from prov import Prov, calls_in
    n = 0
    for b in F.order:
        if b.crate != 'bin' or not b.path.startswith('adlt_bin::remote::') or '::tests::' in b.path:
            continue
        cfg = pr = None
        for blk in b.blocks:
            if blk.cleanup:
                continue
            for s in blk.stmts:
                if not (s.k == 'assign' and s.rv['k'] == 'agg' and (s.rv.get('adt') or '').endswith('::BinDltMsg')):
                    continue
                cfg = cfg or CFG(b)
                pr = pr or Prov(cfg)
                n += 1
                G16.fn(b.path)
                fields = s.rv.get('fields', [])
                bad = None
                for nm, o in zip(fields, s.rv['ops']):
                    G16.sites += 1
                    toks = pr.operand(Operand(o), at=blk.i)
                    if any(tk[0] == 'fld' and tk[1].endswith('::BinDltMsg') for tk in toks):
                        bad = (nm, 'a field of another BinDltMsg')
                    if nm == 'payload_as_text' and not any(c.endswith('DltMessage::payload_as_text') for c in calls_in(toks)):
                        bad = bad or (nm, 'something other than DltMessage::payload_as_text of the message')
                if bad:
                    G16.violation(('output-built-from-other-output', b.closure_of or b.path, bad[0]), 'the binary message built at %s takes `%s` from %s: a message can be delivered with the data of another one (e.g. the text decoded for the previous message with the other byte order)' %
                                  (b.loc(s.sp), bad[0], bad[1]), where=b.loc(s.sp))
                else:
                    G16.ok(sample={'built_at': b.loc(s.sp), 'fields': len(fields), 'each_from': 'the message at this stream position'})
    G16.floor('BinDltMsg constructions in the remote module', n, 1)
