#!/usr/bin/env python3
"""Debug helper: pretty-print the MIR facts of bodies whose path contains a substring.
usage: mirdump.py <factsdir> <substring> [--cleanup]"""
import sys
from facts import load, Operand, Place


def show_rv(body, rv):
    k = rv['k']
    if k == 'use':
        return Operand(rv['o']).show(body)
    if k == 'bin':
        return '%s(%s, %s)' % (rv['op'], Operand(rv['a']).show(body), Operand(rv['b']).show(body))
    if k == 'un':
        return '%s(%s)' % (rv['op'], Operand(rv['a']).show(body))
    if k == 'cast':
        return '%s as %s [%s]' % (Operand(rv['o']).show(body), rv['t'], rv['ck'][:24])
    if k in ('ref', 'rawptr'):
        return '&%s%s' % ('mut ' if rv['mut'] else '', Place(rv['p']).show(body))
    if k == 'discr':
        return 'discr(%s)' % Place(rv['p']).show(body)
    if k == 'agg':
        nm = rv.get('adt') or rv.get('closure') or rv['ak']
        if rv.get('variant'):
            nm += '::' + rv['variant']
        return '%s{%s}' % (nm, ', '.join(Operand(o).show(body) for o in rv['ops']))
    if k == 'repeat':
        return '[%s; %s]' % (Operand(rv['o']).show(body), rv['n'])
    return rv.get('s', k)


def dump(body, cleanup=False, out=sys.stdout):
    w = out.write
    w('=== %s [%s] %s:%s-%s args=%d\n' % (body.path, body.kind, body.file, body.line, body.line_hi, body.arg_count))
    for i, l in enumerate(body.locals):
        w('  let _%d: %s%s%s\n' % (i, l['t'], ('  // ' + l['n']) if l.get('n') else '', '  [cm]' if l['cm'] else ''))
    for u in body.d.get('upvars', []):
        w('  upvar %s = %s\n' % (u['name'], Place(u['p']).show(body)))
    for b in body.blocks:
        if b.cleanup and not cleanup:
            continue
        w(' bb%d%s:\n' % (b.i, ' (cleanup)' if b.cleanup else ''))
        for s in b.stmts:
            if s.k == 'assign':
                w('    %s = %s    // L%s\n' % (s.place.show(body), show_rv(body, s.rv), s.sp['l']))
            else:
                w('    setdiscr(%s, %s)\n' % (s.place.show(body), s.d['i']))
        t = b.term
        ln = t.sp['l'] if t.sp else '?'
        if t.k == 'call':
            c = t.callee
            nm = c.path if c else t.func.show(body)
            res = (' => ' + c.resolved) if c and c.resolved and c.resolved != c.path else ''
            w('    %s = call %s(%s)%s -> bb%s  // L%s\n' % (t.dest.show(body), nm, ', '.join(a.show(body) for a in t.args), res, t.d['t'], ln))
        elif t.k == 'switch':
            w('    switch %s [%s, else->bb%d]  // L%s\n' % (Operand(t.d['d']).show(body), ', '.join('%d->bb%d' % (v, tg) for v, tg in t.d['vals']), t.d['otherwise'], ln))
        elif t.k == 'drop':
            w('    drop(%s: %s)%s -> bb%d  // L%s\n' % (t.place.show(body), t.d['ty'], ' [cm]' if t.d['cm'] else '', t.d['t'], ln))
        elif t.k == 'assert':
            w('    assert(%s == %s, %s) -> bb%d  // L%s\n' % (Operand(t.d['cond']).show(body), t.d['expected'], t.d['ak'], t.d['t'], ln))
        elif t.k == 'goto':
            w('    goto bb%d\n' % t.d['t'])
        else:
            w('    %s\n' % t.k)


if __name__ == '__main__':
    f = load(sys.argv[1])
    sub = sys.argv[2]
    exact = '--exact' in sys.argv
    for b in f.order:
        if (b.path == sub) if exact else (sub in b.path):
            dump(b, '--cleanup' in sys.argv)
