"""Result collection, known-findings handling, evidence and replay files."""
import json, os, re, time, hashlib

VERIF = os.path.abspath(os.path.join(os.path.dirname(__file__), '..', '..'))


class RuleResult:
    def __init__(self, rid, title):
        self.rid = rid
        self.title = title
        self.obligations = 0
        self.discharged = 0
        self.sites = 0
        self.functions = set()
        self.paths = 0
        self.violations = []     # dicts: key, msg, where, witness
        self.samples = []
        self.notes = []

    def ok(self, n=1, sample=None):
        self.obligations += n
        self.discharged += n
        if sample is not None and len(self.samples) < 4:
            self.samples.append(sample)

    def violation(self, key, msg, where=None, witness=None):
        """key: stable tuple/str without line numbers"""
        self.obligations += 1
        if not isinstance(key, str):
            key = '|'.join(str(k) for k in key)
        key = self.rid + '|' + key
        for v in self.violations:
            if v['key'] == key:
                v['count'] += 1
                return
        self.violations.append({'key': key, 'msg': msg, 'where': where, 'witness': witness, 'count': 1})

    def floor(self, what, have, need):
        """fail closed when fewer instances than confirmed by hand were found"""
        if have < need:
            self.violation(('anchor-lost', what), 'rule %s found %d instance(s) of %s, expected at least %d (anchor lost: the rule would pass vacuously)' % (self.rid, have, what, need))
            return False
        return True

    def fn(self, path):
        self.functions.add(path)


class KnownFindings:
    def __init__(self, path=None):
        self.path = path or os.path.join(VERIF, 'known_findings.txt')
        self.findings = {}   # key -> (property, text)
        self.fixed = []
        if os.path.exists(self.path):
            for line in open(self.path):
                line = line.rstrip('\n')
                if not line.strip() or line.lstrip().startswith('#'):
                    continue
                if line.startswith('fixed:'):
                    self.fixed.append(line)
                    continue
                m = re.match(r'finding:\s+property=(\S+)\s+key=(\S+)\s+(.*)$', line)
                if m:
                    self.findings[m.group(2)] = (m.group(1), m.group(3))

    def lookup(self, prop, key):
        f = self.findings.get(key.replace(' ', '_'))
        if f and f[0] == prop:
            return f[1]
        return None


class Check:
    def __init__(self, prop, level, tier='quick'):
        self.prop = prop
        self.level = level
        self.tier = tier
        self.rules = []
        self.t0 = time.time()
        self.assumptions = []
        self.explanation = ''
        self.extra = {}
        self.selftest = None

    def rule(self, rid, title):
        r = RuleResult(rid, title)
        self.rules.append(r)
        return r

    def finish(self, facts_info, argv_cmd):
        kf = KnownFindings()
        n_viol = 0
        n_known = 0
        lines = []
        total_ob = total_dis = sites = paths = 0
        fns = set()
        samples = []
        per_rule = []
        for r in self.rules:
            total_ob += r.obligations
            total_dis += r.discharged
            sites += r.sites
            paths += r.paths
            fns |= r.functions
            status = 'ok'
            for v in r.violations:
                known = kf.lookup(self.prop, v['key'])
                if known is not None:
                    n_known += 1
                    lines.append('KNOWN-FINDING: property=%s %s %s' % (self.prop, v['key'].replace(' ', '_'), known))
                    status = 'known-finding'
                    v['known'] = True
                else:
                    n_viol += 1
                    rp = self._write_replay(v)
                    lines.append('  [%s] %s' % (r.rid, v['msg']))
                    if v.get('where'):
                        lines.append('      at %s' % v['where'])
                    lines.append('      key=%s' % v['key'].replace(' ', '_'))
                    lines.append('VIOLATION property=%s replay=%s' % (self.prop, rp))
                    status = 'VIOLATION'
            print('%-4s %-5s %-13s obligations=%d discharged=%d sites=%d fns=%d  %s' % (self.prop, r.rid, status, r.obligations, r.discharged, r.sites, len(r.functions), r.title))
            for n in r.notes:
                print('        note: %s' % n)
            for s in r.samples[:2]:
                samples.append({'rule': r.rid, 'obligation': s})
            per_rule.append({'rule': r.rid, 'title': r.title, 'obligations': r.obligations, 'discharged': r.discharged,
                             'sites': r.sites, 'functions': len(r.functions), 'paths_explored': r.paths,
                             'violations': [v['key'] for v in r.violations if not v.get('known')],
                             'known_findings_present': [v['key'] for v in r.violations if v.get('known')]})
        for l in lines:
            print(l)
        wall = time.time() - self.t0
        cov = {
            'obligations': total_ob,
            'discharged': total_dis,
            'checker_cmd': argv_cmd,
            'trusted_base': ['rustc nightly MIR construction, borrow check and drop elaboration (-Zmir-opt-level=0)',
                             'engine/mirfacts extractor', 'engine/rules/*.py rule code and idiom tables'],
            'evaluations': sites if sites > 0 else total_ob,
            'distinct_nontrivial': total_ob,
            'rule': 'every rule instance (obligation) is one structural fact of the current source decided on all normal CFG paths; sites = MIR call/statement sites examined',
            'explanation': self.explanation,
            'samples': samples if samples else [{'note': 'no sample recorded'}],
            'functions_analysed': len(fns),
            'paths_explored': paths,
            'rules': per_rule,
            'known_findings_present': n_known,
            'facts': facts_info,
            'exhaustive': True,
        }
        cov.update(self.extra)
        if self.selftest is not None:
            cov['selftest'] = self.selftest
        ev = {
            'property_id': self.prop,
            'tier': self.tier,
            'seed': int(os.environ.get('VERIF_SEED', '0') or 0),
            'level': self.level,
            'coverage': cov,
            'assumptions': self.assumptions,
            'wall_s': round(wall, 3),
            'violations': n_viol,
        }
        # runs against deliberately modified trees (seeded / benign variants: engine/seedcheck.sh, reseed.sh, benigncheck.sh)
        # set ADLT_VERIF_EVIDENCE_DIR so that the evidence of the real tree is not overwritten by theirs
        evdir = os.environ.get('ADLT_VERIF_EVIDENCE_DIR') or os.path.join(VERIF, 'evidence')
        os.makedirs(evdir, exist_ok=True)
        with open(os.path.join(evdir, self.prop + '.json'), 'w') as f:
            json.dump(ev, f, indent=1)
        return 1 if n_viol else 0

    def _write_replay(self, v):
        d = os.path.join(VERIF, 'replay', self.prop)
        os.makedirs(d, exist_ok=True)
        h = hashlib.sha1(v['key'].encode()).hexdigest()[:12]
        p = os.path.join(d, h + '.json')
        with open(p, 'w') as f:
            json.dump({'property': self.prop, 'key': v['key'], 'message': v['msg'], 'where': v.get('where'), 'witness': v.get('witness'),
                       'replay': './check %s --replay %s' % (self.prop, p)}, f, indent=1)
        return p
