"""C12 - filter sets (structural clauses).

Decided: K4 exactly one of kept/dropped counter per received message and a message is dropped only
when counted as filtered; L1/L2/L7 linearity of the stream filter; E1 no message field written; Q4 no
message container (nothing that could reorder); G3 every push into a filter-kind container is
guarded by `.enabled` of the pushed filter (or the pushed filter is built in place from a JSON
literal without an "enabled" key); G4 the Marker kind is never consulted by either implementation;
G6 the two selection closures of the stream filter test `enabled` and the right kind constant.
Not decided: the boolean formula itself for all filter sets."""
import re
import own, lin, effects, pairing, guards
from cfg import CFG
from expr import ExprBuilder, show, walk
from facts import Operand, Place

LEVEL = 'proof'
EXPLANATION = ('Path-sensitive linearity and counter pairing in filter_as_streams; dominance-based guard check of every push into a '
               'FilterKindContainer; who-may-use check of FilterKind::Marker in both matchers.')
ASSUMPTIONS = [
    'decides structural clauses only: equivalence of the two implementations as boolean formulas over all filter sets is NOT decided',
    'Filter::matches itself is the subject of C11',
]
MANIFEST = {'text': 'proof (all normal paths) of: per received message exactly one counter is incremented, a message is only dropped when counted as filtered, '
                    'otherwise sent unchanged and in order (no container, no write); disabled filters never enter a filter-kind container; Marker filters are never consulted.'
                    ' Added: selection closures admit exactly the kinds of their collection; both matchers quantify with `any` only; `filters_active` covers every kind match_filters consults. Added: once `.enabled` of a supplied filter held, the push into the filter set follows on every path. Added: the index builder of filtered streams marks as processed exactly what it handed to the filters.'}

FKC = 'adlt::filter::filter_impl::FilterKindContainer<'
FILTER = 'adlt::filter::filter_impl::Filter'


def stream_filter_bodies(F):
    out = []
    for b in F.order:
        if b.crate != 'lib' or b.kind == 'closure':
            continue
        at = b.arg_types()
        if any('std::sync::mpsc::Receiver<adlt::dlt::DltMessage>' in t for t in at) and any(t.startswith('&[adlt::filter::filter_impl::Filter]') for t in at):
            out.append(b)
    return out


def counter_locals(body):
    """locals returned as Ok((kept, dropped)): from the tuple aggregate flowing into _0"""
    cfg = CFG(body)
    for b in body.blocks:
        if b.cleanup:
            continue
        for s in b.stmts:
            if s.k == 'assign' and s.rv['k'] == 'agg' and s.rv.get('ak') == 'tuple' and len(s.rv['ops']) == 2 and s.place.t == '(usize, usize)':
                ops = [Operand(o) for o in s.rv['ops']]
                ls = []
                for o in ops:
                    p = cfg.origin_of_operand(o)
                    ls.append(p.l if p is not None and p.is_local else None)
                if None not in ls:
                    return ls
    return None


def run(F, chk):
    L1 = chk.rule('L1', 'stream filter: a message is dropped only when counted as filtered; nothing else message-carrying is dropped un-drained')
    L2 = chk.rule('L2', 'stream filter: no clone of a message')
    L7 = chk.rule('L7', 'stream filter: no lossy container operation / unclassified consumer')
    K4 = chk.rule('K4', 'stream filter: per received message exactly one of kept += 1 (after a successful send) / dropped += 1 (message not sent), or an error return')
    E1 = chk.rule('E1', 'stream filter writes no DltMessage field')
    Q4 = chk.rule('Q4', 'stream filter owns no container of messages (nothing that could reorder)')
    G3 = chk.rule('G3', 'every push into a FilterKindContainer is dominated by the true edge of `.enabled` of the pushed filter (or literal without "enabled")')
    G4 = chk.rule('G4', 'FilterKind::Marker is never used to select filters in either matcher')
    G6 = chk.rule('G6', 'selection closures of the stream filter test `enabled` and compare `kind` with Positive resp. Negative')

    sf = stream_filter_bodies(F)
    L1.floor('stream filter functions (anchor: &[Filter] + Receiver<DltMessage> params)', len(sf), 1)
    for b in sf:
        cl = counter_locals(b)
        K4.fn(b.path)
        if cl is None:
            K4.violation(('anchor-lost', 'counters', b.path), 'cannot find the (kept, dropped) counters returned by ' + b.path)
            continue
        kept, dropped = cl

        def is_inc(s, body, which):
            if s.k != 'assign' or not s.place.is_local or s.place.l != which:
                return False
            rv = s.rv
            # x = move (_t.0) where _t = AddWithOverflow(x, 1)
            return rv['k'] == 'use' and Operand(rv['o']).place is not None and Operand(rv['o']).place.p and not Operand(rv['o']).is_const
        spec = own.OwnSpec(
            allow_drop=[(lambda p, ty: ty == 'adlt::dlt::DltMessage', 'dropped_inc', 'message filtered out and counted as dropped')],
            stmt_facts=[(lambda s, body: is_inc(s, body, dropped), 'dropped_inc')],
            stmt_counts=[(lambda s, body: is_inc(s, body, dropped), 'c_dropped'), (lambda s, body: is_inc(s, body, kept), 'c_kept')],
            per_msg_facts=['dropped_inc', 'c_dropped', 'c_kept'],
            track_msg_events=True)
        res = lin.run_linearity(b, spec, L1, L2, L7, min_recv=1, min_send=1, F=F)
        ex = res.explorer
        cfg = res.cfg
        K4.paths += ex.n_states
        # per-message accounting at the next receive and at every return
        checkpoints = [(bi, 'next receive') for bi in res.take_info] + [(rb, 'return') for rb in cfg.exits]
        n = 0
        for (bi, what) in checkpoints:
            for st in ex.states.get(bi, ()):
                facts = st[1]
                if ('recvd',) not in facts:
                    continue
                n += 1
                ck, cd, sent = pairing.count(facts, 'c_kept'), pairing.count(facts, 'c_dropped'), pairing.count(facts, 'sent')
                senderr = ('senderr',) in facts
                ok = (ck + cd == 1 and ((ck == 1 and sent == 1 and not senderr) or (cd == 1 and sent == 0))) or (senderr and ck == 0 and cd == 0 and what == 'return')
                if ok:
                    K4.ok(sample={'function': b.path, 'at': what, 'kept_inc': ck, 'dropped_inc': cd, 'sent': sent, 'send_error': senderr})
                else:
                    K4.violation(('counter-pairing', b.path, what, 'kept%d' % ck, 'dropped%d' % cd, 'sent%d' % sent, 'err%d' % senderr),
                                 'a received message reaches the %s with kept+=%d, dropped+=%d, sends=%d, send error=%s in %s' % (what, ck, cd, sent, senderr, b.path),
                                 where=b.loc(None), witness={'block_path': ex.witness(bi, st)})
        K4.floor('per-message checkpoint states in ' + b.path, n, 2)
        effects.check_may_write(F, E1, b.path, set(), what='the stream filter')
        # Q4
        Q4.fn(b.path)
        conts = [l['t'] for l in b.locals if l['cm'] and re.match(r'^(std::collections::|std::vec::Vec<)', l['t'])]
        if conts:
            Q4.violation(('container', b.path, lin.short_ty(conts[0])), 'the stream filter holds a container of messages (%s): order is no longer structurally guaranteed' % conts[0], where=b.loc(None))
        else:
            Q4.ok(sample={'function': b.path, 'message_containers': 0})
        check_selection_closures(F, b, G6)
    G14 = chk.rule('G15', 'once `.enabled` of a supplied filter held, nothing else decides whether it joins the filter set (the push follows on every path)')
    check_pushes(F, G3, G14)
    import c16
    G8 = chk.rule('G8', 'index builder of filtered streams: the processed marker advances exactly to the end of what was handed to the filters (no message is marked processed without having been matched)')
    c16.check_builder_progress(F, G8)
    check_marker(F, G4, sf)
    G9 = chk.rule('G9', 'both matchers quantify over a filter collection only with `any` (some positive / no negative / some event filter matches), never all/find/count')
    check_quantifiers(F, G9, sf)
    G10 = chk.rule('G10', '`filters_active` (the gate in front of match_filters for remote streams) is computed from every filter kind that match_filters consults')
    check_active_shortcut(F, G10)
    G12 = chk.rule('G12', 'stream filter: a message is counted as filtered out only on a path that evaluated a quantification over a filter collection with Filter::matches')
    check_drop_needs_verdict(F, sf, G12)
    G13 = chk.rule('G13', 'filters are never removed from a Vec<Filter> by predicate or position (push / pop of the last pushed only)')
    check_filter_set_maintenance(F, G13)


ALL_KINDS = frozenset(['Positive', 'Negative', 'Marker', 'Event'])

def closure_predicate(F, cl):
    """(requires_enabled, admitted kinds) of a tiny selection closure over a filter reference, or None if not recognised.
    Recognised shapes: f.enabled / f.kind == K / f.kind != K / f.enabled && f.kind (==|!=) K."""
    cfg = CFG(cl)
    E = ExprBuilder(cfg)
    en_switch = None
    rets = []
    for b in cl.blocks:
        if b.cleanup:
            continue
        if b.term.k == 'switch':
            c = show(E.switch_cond(b))
            if c.endswith('.enabled'):
                en_switch = b
            else:
                return None
        for s in b.stmts:
            if s.k == 'assign' and s.place.is_local and s.place.l == 0:
                rets.append((b, E.rvalue(s.rv)))
        if b.term.k == 'call' and b.term.dest.is_local and b.term.dest.l == 0:
            rets.append((b, ('call', b.term.callee.path, tuple(E.operand(a) for a in b.term.args))))
    req_en = False
    kinds = ALL_KINDS
    seen_kind = False
    for (b, e) in rets:
        if e == ('const', 0):
            # must be the false edge of the enabled switch
            if en_switch is None:
                return None
            req_en = True
            continue
        if isinstance(e, tuple) and e[0] == 'place' and show(e).endswith('.enabled'):
            req_en = True
            continue
        if isinstance(e, tuple) and e[0] == 'call' and (e[1].endswith('PartialEq::eq') or e[1].endswith('PartialEq::ne')):
            txt = ' '.join(show(x) for x in e[2])
            if '.kind' not in txt:
                return None
            ks = [k for k in ALL_KINDS if 'FilterKind::%s{' % k in txt]
            if len(ks) != 1:
                return None
            seen_kind = True
            kinds = frozenset(ks) if e[1].endswith('::eq') else ALL_KINDS - frozenset(ks)
            continue
        return None
    if not rets:
        return None
    return (req_en, kinds)


def chain_predicates(F, body, E, expr, out_index=None):
    """walk an iterator chain expression backwards: returns (requires_enabled, kinds) admitted into the collection"""
    req, kinds = False, ALL_KINDS
    cur = expr
    depth = 0
    first = True
    while isinstance(cur, tuple) and cur[0] == 'call' and depth < 8:
        depth += 1
        nm = cur[1]
        args = cur[2]
        if nm.endswith('Iterator::filter') or nm.endswith('Iterator::partition'):
            clo = args[1] if len(args) > 1 else None
            pred = None
            if isinstance(clo, tuple) and clo[0] == 'agg':
                cb = F.get(clo[1])
                if cb is not None:
                    pred = closure_predicate(F, cb)
            if pred is None:
                return None
            pr, pk = pred
            if nm.endswith('partition') and out_index == 1:
                if pr:
                    return None      # negation of (enabled && ..) admits disabled filters
                pk = ALL_KINDS - pk
                pr = False
            req = req or pr
            kinds = kinds & pk
            cur = args[0]
        elif nm.endswith('::iter') or nm.endswith('IntoIterator::into_iter') or nm.endswith('Iterator::collect') or nm.endswith('::copied') or nm.endswith('::by_ref'):
            cur = args[0] if args else None
        else:
            break
    return (req, kinds)


def check_selection_closures(F, body, G6):
    """every collection of filters the stream filter consults admits exactly one kind (one Positive, one Negative
    collection) and only enabled filters - derived from the filter/partition closures of the iterator chain"""
    cfg = CFG(body)
    E = ExprBuilder(cfg)
    G6.fn(body.path)
    found = []
    for blk in body.calls():
        t = blk.term
        p = t.callee.path
        if p.endswith('Iterator::collect') and FILTER in t.dest.t and 'Vec<' in t.dest.t:
            chain = E.operand(t.args[0])
            found.append((blk, chain_predicates(F, body, E, ('call', p, (chain,))), 'collect'))
        if p.endswith('Iterator::partition') and FILTER in t.dest.t:
            chain = ('call', p, tuple(E.operand(a) for a in t.args))
            found.append((blk, chain_predicates(F, body, E, chain, 0), 'partition.0'))
            found.append((blk, chain_predicates(F, body, E, chain, 1), 'partition.1'))
    G6.sites += len(found)
    got = []
    for (blk, pred, how) in found:
        if pred is None:
            G6.violation(('selection-unrecognised', body.path, how), 'a filter collection built at %s (%s) uses a selection that is not of the form enabled && kind ==/!= K (or would admit disabled filters)' % (body.loc(blk.term.sp), how), where=body.loc(blk.term.sp))
            continue
        req, kinds = pred
        got.append((req, tuple(sorted(kinds))))
        if req and len(kinds) == 1:
            G6.ok(sample={'collection_built_at': body.loc(blk.term.sp), 'via': how, 'admits_kinds': sorted(kinds), 'only_enabled': req})
        else:
            G6.violation(('selection', body.path, how, '+'.join(sorted(kinds)), 'enabled%s' % req),
                         'the filter collection built at %s (%s) admits kinds %s (only enabled: %s): it must admit exactly one kind (Positive resp. Negative) and only enabled filters - marker/event/disabled filters would influence the selection' %
                         (body.loc(blk.term.sp), how, sorted(kinds), req), where=body.loc(blk.term.sp))
    want = sorted([(True, ('Negative',)), (True, ('Positive',))])
    if sorted(got) == want:
        G6.ok(sample={'function': body.path, 'collections': 'one Positive and one Negative, enabled only'})
    elif all(r and len(k) == 1 for r, k in got) or not got:
        G6.violation(('selection-kinds', body.path, ','.join('+'.join(k) for r, k in sorted(got))), 'the stream filter builds collections for kinds %s (expected exactly one Positive and one Negative)' % [k for r, k in sorted(got)], where=body.loc(None))


def check_pushes(F, G3, G14=None):
    n = 0
    for body in F.order:
        sites = []
        for blk in body.calls():
            t = blk.term
            if t.callee.path in ('std::vec::Vec::<T, A>::push', 'std::vec::Vec::<T, A>::insert', 'std::iter::Extend::extend', 'std::vec::Vec::<T, A>::append') \
                    and t.args and FILTER in (t.args[-1].ty or ''):
                sites.append(blk)
        if not sites:
            continue
        cfg = CFG(body)
        E = ExprBuilder(cfg)
        for blk in sites:
            t = blk.term
            tgt = ExprBuilder(cfg, fold_named=True).operand(t.args[0])     # `let slot = &mut c[kind]; slot.push(f)` pushes into the slot too
            if not any(isinstance(x, tuple) and x[0] == 'call' and x[1].endswith('IndexMut::index_mut') and FKC in (argty(body, cfg, x) or FKC) for x in walk(tgt)):
                # not a push into a FilterKindContainer slot (plain Vec<Filter>)
                if 'index_mut' not in show(tgt):
                    continue
            n += 1
            G3.fn(body.path)
            G3.sites += 1
            val = E.operand(t.args[-1])
            known = guards.known(cfg, E, blk.i)
            guarded = False
            guard_block = None
            if isinstance(val, tuple) and val[0] == 'place':
                want = val + ('.enabled',)
                for (e, truth, D) in known:
                    if truth is True and e == want:
                        guarded = True
                        guard_block = D
            literal = False
            if not guarded:
                literal = built_from_literal_without_enabled(body, cfg, E, blk, val)
            if guarded and G14 is not None and guard_block is not None:
                # the converse: once `.enabled` held, nothing else may decide whether the filter joins the set - from the true edge
                # of the test every path reaches the push before it reaches what follows the push (rest of the iteration, loop
                # head, a normal return)
                S = [tg for (Dd, tg, v, allv) in guards.dominating_edges(cfg, blk.i) if Dd == guard_block]
                hd = None
                for h, lb in sorted(cfg.loops().items(), key=lambda kv: len(kv[1])):
                    if blk.i in lb:
                        hd = h
                        break
                after = cfg.reachable_from(blk.i, avoid={hd} if hd is not None else set()) - {blk.i}
                G14.sites += 1
                G14.fn(body.path)
                skip = None
                if S:
                    R = cfg.reachable_from(S[0], avoid={blk.i} | ({hd} if hd is not None else set()))
                    for x in R:
                        if x in after and not body.blocks[x].cleanup:
                            skip = x
                        if hd is not None and hd in cfg.succ[x] and x != blk.i:
                            skip = x
                        if x in cfg.exits:
                            skip = x
                if skip is None:
                    G14.ok(sample={'function': body.path, 'push_at': body.loc(t.sp), 'always_pushed_once_enabled': True})
                else:
                    G14.violation(('enabled-filter-not-pushed', body.path), 'in %s an enabled filter can bypass the push at %s (a further condition decides between the `.enabled` test and the push): '
                                  'the filter set used for matching is not the set of enabled filters that was supplied' % (body.path, body.loc(t.sp)), where=body.loc(body.blocks[skip].term.sp))
            if guarded:
                G3.ok(sample={'function': body.path, 'push_at': body.loc(t.sp), 'guard': show(val) + '.enabled == true'})
            elif literal:
                G3.ok(sample={'function': body.path, 'push_at': body.loc(t.sp), 'guard': 'filter built in place from a JSON literal without an "enabled" key (default: enabled)'})
            else:
                G3.violation(('unguarded-push', body.path, show(val)), 'a filter (%s) is pushed into a filter-kind container without a dominating `.enabled` test in %s' % (show(val), body.path),
                             where=body.loc(t.sp))
    G3.floor('pushes into FilterKindContainer slots', n, 5)


def argty(body, cfg, x):
    return None


def built_from_literal_without_enabled(body, cfg, E, blk, val):
    """the pushed value comes from Filter::from_json(json!({..}).to_string()) and no "enabled" key
    literal appears in a json! expansion within the lines of this push statement"""
    # find the from_json call feeding the value
    src = None
    for x in walk(val if not (isinstance(val, tuple) and val[0] == 'place') else resolve_named(body, cfg, E, val)):
        if isinstance(x, tuple) and x[0] == 'call' and x[1].endswith('Filter::from_json'):
            src = x
    if src is None:
        return False
    line = blk.term.sp['l']
    # nearest dominating from_json call: the JSON literal is built between it and the push
    first = None
    for b in body.blocks:
        if not b.cleanup and b.term.k == 'call' and b.term.callee.path.endswith('Filter::from_json') and cfg.dominates(b.i, blk.i):
            l = b.term.sp['l']
            if l <= line and (first is None or l > first):
                first = l
    if first is None:
        return False
    strs = []
    for b in body.blocks:
        if b.cleanup:
            continue
        items = [(s.sp, s.rv_operands()) for s in b.stmts if s.k == 'assign'] + ([(b.term.sp, b.term.args)] if b.term.k == 'call' else [])
        for sp, ops in items:
            if not sp or not sp.get('m') or not any('json' in m for m in sp['m']):
                continue
            if not (first - 1 <= sp["l"] <= max(line, first) + 4):
                continue
            for o in ops:
                if o.is_const and o.const_str():
                    strs.append(o.const_str())
    if not strs:
        return False
    return not any('"enabled"' in s_ for s_ in strs)


def resolve_named(body, cfg, E, val):
    """a named local with a single definition: expression of its definition"""
    name = val[1]
    ls = body.locals_named(name)
    for l in ls:
        sd = cfg.single_def(l)
        if sd is not None:
            if sd[1] == 'call':
                t = sd[2]
                return ('call', t.callee.path, tuple(E.operand(a) for a in t.args))
            return E.rvalue(sd[2].rv)
    return val


def check_marker(F, G4, sf):
    """FilterKind::Marker must not appear in the matchers (stream filter + its closures, match_filters)"""
    targets = []
    for b in sf:
        targets.append(b)
        targets += F.closures_of(b.path)
    for b in F.order:
        if b.crate == 'lib' and b.kind != 'closure' and any(t.startswith('&' + FKC) for t in b.arg_types()) and b.ret_type() == 'bool':
            targets.append(b)
            targets += F.closures_of(b.path)
    n_set_matchers = sum(1 for b in targets if b.kind != 'closure') - len(sf)
    G4.floor('set matcher functions (anchor: fn(&DltMessage, &FilterKindContainer<Vec<Filter>>) -> bool)', n_set_matchers, 1)
    for b in targets:
        G4.fn(b.path)
        cfg = CFG(b)
        E = ExprBuilder(cfg)
        kinds = set()
        for blk in b.blocks:
            if blk.cleanup:
                continue
            exprs = [E.rvalue(s.rv) for s in blk.stmts if s.k == 'assign']
            if blk.term.k == 'call':
                exprs += [E.operand(a) for a in blk.term.args]
            for e in exprs:
                for x in walk(e):
                    if isinstance(x, tuple) and x[0] == 'agg' and 'FilterKind::' in x[1]:
                        kinds.add(x[1].split('::')[-1])
        G4.sites += 1
        if 'Marker' in kinds:
            G4.violation(('marker-used', b.path), 'FilterKind::Marker is consulted in %s: marker filters must have no effect on selection' % b.path, where=b.loc(None))
        else:
            G4.ok(sample={'function': b.path, 'kinds_consulted': sorted(kinds)})


QUANT = re.compile(r'Iterator::(any|all|find|find_map|position|rposition|count|filter|filter_map|fold|try_fold|for_each|map|max_by\w*|min_by\w*|nth|last|skip\w*|take\w*|step_by|rev|next|sum|product|reduce|partition|collect|enumerate)$')


def check_quantifiers(F, G9, sf):
    targets = []
    for b in sf:
        targets.append(b)
    for b in F.order:
        if b.crate == 'lib' and b.kind != 'closure' and any(t.startswith('&' + FKC) for t in b.arg_types()) and b.ret_type() == 'bool':
            targets.append(b)
    n = 0
    # quantifications may sit in local closures of the deciding function (`let any_matches = |fs| fs.iter().any(..)`)
    owners = {}
    expanded = []
    for b in targets:
        expanded.append(b)
        owners[b.path] = b.path
        stack = [b]
        while stack:
            x = stack.pop()
            for cl in F.closures_of(x.path):
                if cl.path not in owners:
                    owners[cl.path] = b.path
                    expanded.append(cl)
                    stack.append(cl)
    deciding = set()
    for b in expanded:
        cfg = CFG(b)
        E = ExprBuilder(cfg, fold_named=True)
        G9.fn(b.path)
        for blk in b.calls():
            t = blk.term
            p = t.callee.path
            if not QUANT.search(p) or not t.args:
                continue
            a0 = t.args[0].ty or ''
            if FILTER not in a0 or 'slice::Iter<' not in a0:
                continue
            m = QUANT.search(p).group(1)
            # only quantifications whose closure consults Filter::matches are decisions about messages
            decides = False
            for a in t.args[1:]:
                if '{closure@' in (a.ty or ''):
                    import comparators
                    cl = comparators.closure_path_of(F, b, a)
                    if cl is not None and any(x.term.callee.path.endswith('Filter::matches') for x in cl.calls()):
                        decides = True
            if not decides:
                continue
            n += 1
            deciding.add(owners[b.path])
            G9.sites += 1
            src = show(E.operand(t.args[0]))
            kind = re.search(r'FilterKind::(\w+)\{', src)
            if m == 'any':
                G9.ok(sample={'function': b.path, 'at': b.loc(t.sp), 'quantifier': 'any', 'over': kind.group(1) if kind else src[:50]})
            else:
                G9.violation(('quantifier', b.path, m, kind.group(1) if kind else 'x'),
                             '%s decides with `%s(matches)` over the %s filters at %s: the specified rule is "some filter of the kind matches" (any), `%s` changes the decision as soon as several filters of that kind exist' %
                             (b.path, m, kind.group(1) if kind else 'selected', b.loc(t.sp), m), where=b.loc(t.sp))
    G9.floor('quantifications over filter collections with Filter::matches', n, 2)
    G9.floor('deciding functions (filter stage, match_filters) containing such a quantification', len(deciding), 2)


# ---------------------------------------------------------------------------------------------
# G10: the "any filter active" shortcut covers every kind the matcher consults

def kinds_indexed(F, b, E, only_blocks=None):
    """FilterKind constants used to index a FilterKindContainer in body b (and its closures): {kind: block}"""
    out = {}
    bodies = [b] + list(F.closures_of(b.path))
    for x in bodies:
        Ex = E if x is b else ExprBuilder(CFG(x), fold_named=True)
        for blk in x.calls():
            t = blk.term
            if re.search(r'::(index|index_mut)$', t.callee.path) and len(t.args) > 1 and FKC in (t.args[0].ty or ''):
                m = re.search(r'FilterKind::(\w+)\{', show(Ex.operand(t.args[1])))
                if m:
                    out.setdefault(m.group(1), []).append((x, blk))
    return out


def check_active_shortcut(F, G10):
    """remote streams call match_filters only when `filters_active`; so that flag must be computed from (at least) every
    filter kind that match_filters consults, otherwise a filter set consisting only of the forgotten kind is ignored"""
    from prov import Prov
    mf = F.get('adlt::utils::remote_utils::match_filters')
    if mf is None:
        G10.violation(('anchor-lost', 'match_filters'), 'match_filters not found')
        return
    G10.fn(mf.path)
    consulted = set(kinds_indexed(F, mf, ExprBuilder(CFG(mf), fold_named=True)).keys())
    G10.floor('filter kinds consulted by match_filters', len(consulted), 3)
    n = 0
    for b in F.order:
        if b.crate != 'lib' or b.kind == 'closure':
            continue
        stores = []
        for blk in b.blocks:
            if blk.cleanup:
                continue
            for s in blk.stmts:
                if s.k != 'assign':
                    continue
                if s.place.is_local and b.name_of(s.place.l) == 'filters_active':
                    stores.append((blk, s))
        # `let filters_active = [kinds..].iter().any(|k| !filters[*k].is_empty())`: the flag is the result of a call
        call_defs = [blk for blk in b.calls() if blk.term.dest.is_local and not blk.term.dest.p and b.name_of(blk.term.dest.l) == 'filters_active']
        if not stores and not call_defs:
            continue
        cfg = CFG(b)
        E = ExprBuilder(cfg, fold_named=True)
        pr = Prov(cfg)
        idx = kinds_indexed(F, b, E)
        for blk in call_defs:
            n += 1
            G10.sites += 1
            G10.fn(b.path)
            txt = ' '.join(show(E.operand(a)) for a in blk.term.args)
            used = set(re.findall(r'FilterKind::(\w+)\{', txt))
            for a in blk.term.args:
                if (a.ty or '').startswith('{closure@'):
                    import comparators
                    cl = comparators.closure_path_of(F, b, a)
                    if cl is not None:
                        used |= set(kinds_indexed(F, cl, ExprBuilder(CFG(cl), fold_named=True)).keys())
            missing = consulted - used
            if not missing:
                G10.ok(sample={'function': b.path, 'flag': 'filters_active', 'computed_from_kinds': sorted(used), 'match_filters_consults': sorted(consulted)})
            else:
                G10.violation(('active-flag-misses-kind', b.path, '+'.join(sorted(missing))),
                              '%s computes `filters_active` at %s from the %s filters only, but match_filters also consults the %s filters: a stream whose filter set has only %s filters is treated as unfiltered' %
                              (b.path, b.loc(blk.term.sp), '/'.join(sorted(used)) or 'no', '/'.join(sorted(missing)), '/'.join(sorted(missing))), where=b.loc(blk.term.sp))
        # kinds whose indexed collection flows into the stored flag
        # `a || b || c` stores the flag once per arm: the kinds tested on the way to any store of the flag belong to its computation
        cond_kinds = set()
        if len(stores) > 1:
            import guards as _g
            for (blk, s) in stores:
                for (c, truth, D) in _g.known(cfg, E, blk.i):
                    cond_kinds |= set(k for k in idx if ('FilterKind::%s{' % k) in show(c))
        for (blk, s) in stores:
            if s.rv['k'] == 'use' and Operand(s.rv['o']).is_const:
                continue
            n += 1
            G10.sites += 1
            G10.fn(b.path)
            toks = set()
            for o in s.rv_operands():
                toks |= pr.operand(o, at=blk.i)
            # the Index::index results are call dests: match provenance by the kinds whose index call block is an ancestor
            import guards
            base_known = set(show(c) for (c, truth, D) in guards.known(cfg, E, blk.i))

            def collect(rv, at, depth, seen):
                # kinds mentioned by the value and - for short-circuit / phi forms - by the definitions of the bool temps it is
                # built from and the conditions under which those are stored (conditions already known at the flag's own
                # store do not belong to its computation)
                ks = set(k for k in idx if ('FilterKind::%s{' % k) in show(E.rvalue(rv)))
                if depth > 4:
                    return ks
                for o in ([Operand(rv['o'])] if rv['k'] in ('use', 'cast') else [Operand(rv[x]) for x in ('a', 'b') if x in rv]):
                    if o.place is None or not o.place.is_local or o.place.l in seen:
                        continue
                    ds = cfg.defs.get(o.place.l, [])
                    if len(ds) < 2 or b.lty(o.place.l) != 'bool':
                        continue
                    seen.add(o.place.l)
                    for (bi, si, d) in ds:
                        for (c, truth, D) in guards.known(cfg, E, bi):
                            sc = show(c)
                            if sc not in base_known:
                                ks |= set(k for k in idx if ('FilterKind::%s{' % k) in sc)
                        if si != 'call':
                            ks |= collect(d.rv, bi, depth + 1, seen)
                        else:
                            ctxt = ' '.join(show(E.operand(a)) for a in d.args)
                            ks |= set(k for k in idx if ('FilterKind::%s{' % k) in ctxt)
                return ks
            used = collect(s.rv, blk.i, 0, set()) | cond_kinds
            missing = consulted - used
            if not missing:
                G10.ok(sample={'function': b.path, 'flag': 'filters_active', 'computed_from_kinds': sorted(used), 'match_filters_consults': sorted(consulted)})
            else:
                G10.violation(('active-flag-misses-kind', b.path, '+'.join(sorted(missing))),
                              '%s computes `filters_active` at %s from the %s filters only, but match_filters also consults the %s filters: a stream whose filter set has only %s filters is treated as unfiltered' %
                              (b.path, b.loc(s.sp), '/'.join(sorted(used)) or 'no', '/'.join(sorted(missing)), '/'.join(sorted(missing))), where=b.loc(s.sp))
    G10.floor('computations of filters_active', n, 1)


# ---------------------------------------------------------------------------------------------
# G12: a message is only filtered out on the verdict of the filters

def check_drop_needs_verdict(F, sf, G12):
    """In the stream filter a message may be counted as filtered out only after at least one quantification over a filter
    collection with Filter::matches was evaluated for it (no positive filter matched / some negative filter matched).
    A path from the receive to `dropped += 1` that consults no filter decides on something else (a pre-filter on a
    field, a cache, ...) and disagrees with match_filters on the same filter set."""
    import comparators
    n = 0
    for b in sf:
        cl = counter_locals(b)
        if cl is None:
            continue
        kept, dropped = cl
        cfg = CFG(b)
        G12.fn(b.path)
        quants = set()
        for blk in b.calls():
            t = blk.term
            if not QUANT.search(t.callee.path) or not t.args:
                continue
            a0 = t.args[0].ty or ''
            if FILTER not in a0:
                continue
            for a in t.args[1:]:
                if '{closure@' in (a.ty or ''):
                    c2 = comparators.closure_path_of(F, b, a)
                    if c2 is not None and any(x.term.callee.path.endswith('Filter::matches') for x in c2.calls()):
                        quants.add(blk.i)
        # the decision may be delegated to a local closure / helper (`let passes = |m| ..any(matches)..`): calling it is the verdict
        def has_quant(x):
            for blk2 in x.calls():
                t2 = blk2.term
                if QUANT.search(t2.callee.path) and t2.args and FILTER in (t2.args[0].ty or ''):
                    for a2 in t2.args[1:]:
                        if '{closure@' in (a2.ty or ''):
                            c3 = comparators.closure_path_of(F, x, a2)
                            if c3 is not None and any(y.term.callee.path.endswith('Filter::matches') for y in c3.calls()):
                                return True
            return False
        for blk in b.calls():
            tgt = None
            if blk.term.callee.resolved:
                tgt = F.get(blk.term.callee.resolved)
            if tgt is None:
                tgt = F.get(blk.term.callee.path)
            if tgt is not None and tgt.path != b.path and (tgt.closure_of == b.path or tgt.path.startswith('adlt::filter::')) and tgt.ret_type() == 'bool' and has_quant(tgt):
                quants.add(blk.i)
                G12.fn(tgt.path)
        recvs = [blk.i for blk in b.calls() if re.search(r'mpsc::Receiver::<T>::(recv|recv_timeout|try_recv)$', blk.term.callee.path) or
                 (blk.term.callee.path == 'std::iter::Iterator::next' and 'mpsc::' in (blk.term.args[0].ty or ''))]
        drops = []
        for blk in b.blocks:
            if blk.cleanup:
                continue
            for s in blk.stmts:
                if s.k == 'assign' and s.place.is_local and s.place.l == dropped and s.rv['k'] == 'use' and Operand(s.rv['o']).place is not None and Operand(s.rv['o']).place.p:
                    drops.append(blk.i)
        G12.floor('quantifications with Filter::matches (or calls of a deciding closure/helper) in the stream filter', len(quants), 1)
        G12.floor('receive sites', len(recvs), 1)
        G12.floor('increments of the filtered-out counter', len(drops), 1)
        from paths import Explorer
        rset = set(recvs)

        def block_effect(blk, facts, quants=quants, rset=rset):
            if blk.i in rset:
                facts = frozenset(f for f in facts if f != ('verdict',))
            if blk.i in quants:
                facts = frozenset(facts | {('verdict',)})
            return facts
        # named bool locals with at least one constant definition (`found = if pos.is_empty() { true } else { pos.any(..) }`)
        xf = set()
        for l, ds in cfg.defs.items():
            if b.lty(l) == 'bool' and b.name_of(l) is not None and l > b.arg_count and \
                    any(si != 'call' and d.rv['k'] == 'use' and Operand(d.rv['o']).is_const for (bi, si, d) in ds):
                xf.add(l)
        grew = True
        while grew:
            grew = False
            for l, ds in cfg.defs.items():
                if l in xf or b.lty(l) != 'bool' or l <= b.arg_count:
                    continue
                for (bi, si, d) in ds:
                    if si != 'call' and d.rv['k'] == 'use':
                        o = Operand(d.rv['o'])
                        if o.place is not None and o.place.is_local and o.place.l in xf:
                            xf.add(l)
                            grew = True
                            break
        ex = Explorer(cfg, block_effect=block_effect, var_roots=set(), extra_flags=xf)    # propagates the bool flags (found = true ..)
        ex.run()
        G12.paths += ex.n_states
        for d in drops:
            n += 1
            G12.sites += 1
            sts = ex.states.get(d, ())
            bad = [st for st in sts if ('verdict',) not in st[1]]
            if sts and not bad:
                bad = None
            elif not sts:
                bad = None     # unreachable under flag propagation
            if bad is None:
                G12.ok(sample={'function': b.path, 'filtered_out_counted_at': b.loc(b.blocks[d].term.sp), 'only_after': 'a quantification over a filter collection with Filter::matches'})
            else:
                G12.violation(('dropped-without-verdict', b.path), '%s can count a message as filtered out at %s on a path from the receive that evaluates no filter at all: the decision is taken by something other than '
                              'the positive/negative filters' % (b.path, b.loc(b.blocks[d].term.sp)), where=b.loc(b.blocks[d].term.sp))
    G12.floor('filtered-out counter increments checked', n, 1)


# ---------------------------------------------------------------------------------------------
# G13: configured filters never leave a filter set

FILTER_VEC_OK = {'push': 'adds a filter', 'pop': 'removes the filter pushed last (the export plugin replaces its own internal lifecycle filter this way)',
                 'len': 'read-only', 'is_empty': 'read-only', 'iter': 'read-only', 'as_slice': 'read-only', 'deref': 'read-only', 'with_capacity': 'construction',
                 'new': 'construction', 'capacity': 'read-only', 'first': 'read-only', 'last': 'read-only', 'get': 'read-only', 'clone': 'copy', 'reserve': 'capacity only',
                 'extend': 'adds filters', 'append': 'adds filters', 'extend_from_slice': 'adds filters', 'iter_mut': 'in-place access'}
FILTER_VEC_BAD = {'retain': 'removes every filter the predicate rejects - also filters the user configured', 'retain_mut': 'removes filters by predicate',
                  'remove': 'removes a filter by position', 'swap_remove': 'removes a filter by position', 'clear': 'removes all filters', 'truncate': 'removes filters',
                  'drain': 'removes filters', 'split_off': 'removes filters', 'dedup': 'removes filters', 'dedup_by': 'removes filters', 'dedup_by_key': 'removes filters'}


def check_filter_set_maintenance(F, G13):
    """Once a filter set is built, an enabled negative filter keeps its veto (and every positive/event filter its say) for the
    whole run: code may add filters and may pop the one it pushed last, but never removes filters by predicate or position
    from a `Vec<Filter>` - that would silently drop filters the user configured.  Who-may-call rule over every operation
    on a Vec<Filter> in library and binary."""
    n = 0
    for b in F.order:
        if '::tests' in b.path:
            continue
        for blk in b.calls():
            t = blk.term
            if not t.args or not re.search(r'Vec<adlt::filter::(filter_impl::)?Filter>', t.args[0].ty or ''):
                continue
            m = re.match(r'std::vec::Vec::<T(, A)?>::(\w+)$', t.callee.path)
            if not m:
                continue
            op = m.group(2)
            n += 1
            G13.sites += 1
            G13.fn(b.closure_of or b.path)
            if op in FILTER_VEC_BAD:
                G13.violation(('filter-removed-from-set', b.closure_of or b.path, op), '%s calls Vec::%s on a filter collection at %s: %s' % (b.path, op, b.loc(t.sp), FILTER_VEC_BAD[op]), where=b.loc(t.sp))
            elif op in FILTER_VEC_OK:
                G13.ok(sample={'function': b.closure_of or b.path, 'operation': op, 'why_ok': FILTER_VEC_OK[op]})
            else:
                G13.violation(('filter-set-operation-unreviewed', b.closure_of or b.path, op), '%s calls Vec::%s on a filter collection at %s: not a reviewed operation' % (b.path, op, b.loc(t.sp)), where=b.loc(t.sp))
    G13.floor('operations on Vec<Filter> collections', n, 8)
