"""H1: header-layout table extraction (shared by C01 and C02).

Per optional header part (ECU id, session id, timestamp, extended header) extract from MIR
  * the htyp bit tested by DltStandardHeader::has_<x>()
  * the size contribution in std_ext_header_size()
  * the size contribution and the htyp bit OR-ed in DltStandardHeader::to_write(), and the emission order
  * the contribution to the timestamp offset in timestamp_dms()
and the slice expressions of the two parse functions relative to their framing constant."""
import re
from cfg import CFG
from expr import ExprBuilder, show, walk
from facts import Operand

HAS = {'has_ecu_id': 'ECU', 'has_session_id': 'SEID', 'has_timestamp': 'TMSP', 'has_ext_hdr': 'EXT'}
PARAM = {'ecu': 'ECU', 'session_id': 'SEID', 'timestamp': 'TMSP', 'ext_hdr': 'EXT'}
SH = 'adlt::dlt::DltStandardHeader::'


def fold(e):
    if not isinstance(e, tuple):
        return None
    if e[0] == 'const':
        return e[1]
    if e[0] == 'cast':
        return fold(e[1])
    if e[0] == 'bin':
        a, b = fold(e[2]), fold(e[3])
        if a is None or b is None:
            return None
        return {'Add': a + b, 'BitOr': a | b, 'Sub': a - b, 'Mul': a * b}.get(e[1])
    return None


def flag_of_cond(c):
    """which optional part does this switch condition test (true edge = present)"""
    if isinstance(c, tuple) and c[0] == 'call':
        nm = c[1].split('::')[-1]
        if nm in HAS and c[1].startswith(SH):
            return HAS[nm]
        if nm == 'is_some' and c[2]:
            s = show(c[2][0])
            m = re.match(r'&\(?\*?\(?\*?([a-z_]+)\)?\)?$', s.replace('(', '').replace(')', '').replace('*', '').replace('&', '&'))
            name = re.sub(r'[^a-z_]', '', s)
            if name in PARAM:
                return PARAM[name]
    if isinstance(c, tuple) and c[0] == 'discr' and isinstance(c[1], tuple) and c[1][0] == 'place':
        name = c[1][1]
        if name in PARAM:
            return PARAM[name]
    return None


def contributions(body, var_names):
    """flag -> {var: [('Add'|'BitOr', const)]} for statements in the true region of each flag test;
    also the initial values and the order of flag tests"""
    cfg = CFG(body)
    E = ExprBuilder(cfg)
    out = {}
    order = []
    init = {}
    for blk in body.blocks:
        if blk.cleanup:
            continue
        for s in blk.stmts:
            if s.k == 'assign' and s.place.is_local and body.name_of(s.place.l) in var_names:
                e = E.rvalue(s.rv)
                v = fold(e)
                if v is not None:
                    init.setdefault(body.name_of(s.place.l), []).append((blk.i, v))
        if blk.term.k != 'switch':
            continue
        c = E.switch_cond(blk)
        fl = flag_of_cond(c)
        if fl is None or (isinstance(c, tuple) and c[0] == 'discr'):
            continue
        true_t = blk.term.d['otherwise'] if [v for v, _ in blk.term.d['vals']] == [0] else None
        if true_t is None:
            continue
        order.append(fl)
        region = [x for x in range(cfg.n) if x in cfg.reach and cfg.dominates(true_t, x)]
        d = out.setdefault(fl, {})
        import guards
        for x in region:
            # an additional condition between the flag test and the statement makes the contribution conditional
            extra = [D for (D, S, v, allv) in guards.dominating_edges(cfg, x) if D in region]
            for s in body.blocks[x].stmts:
                if s.k == 'assign' and s.place.is_local and body.name_of(s.place.l) in var_names:
                    nm = body.name_of(s.place.l)
                    e = E.rvalue(s.rv)
                    if isinstance(e, tuple) and e[0] == 'bin' and e[1] in ('Add', 'BitOr') and e[2] == ('place', nm):
                        v = fold(e[3])
                        d.setdefault(nm, []).append((e[1] if not extra else 'Cond' + e[1], v))
                    else:
                        v = fold(e)
                        d.setdefault(nm, []).append(('Set', v))
    # initial value: the constant assignment(s) that are not inside any flag region
    regions = set()
    for blk in body.blocks:
        if blk.cleanup or blk.term.k != 'switch':
            continue
        c = E.switch_cond(blk)
        if flag_of_cond(c) is None or (isinstance(c, tuple) and c[0] == 'discr'):
            continue
        if [v for v, _ in blk.term.d['vals']] == [0]:
            tt = blk.term.d['otherwise']
            regions |= set(x for x in range(cfg.n) if x in cfg.reach and cfg.dominates(tt, x))
    init2 = {}
    for nm, lst in init.items():
        vals = sorted(set(v for (bi, v) in lst if bi not in regions))
        if len(vals) == 1:
            init2[nm] = vals[0]
    return out, order, init2


def has_constants(F):
    out = {}
    for nm, fl in HAS.items():
        b = F.get(SH + nm)
        if b is None:
            continue
        cfg = CFG(b)
        E = ExprBuilder(cfg)
        for blk in b.blocks:
            for s in blk.stmts:
                if s.k == 'assign' and s.place.is_local and s.place.l == 0:
                    e = E.rvalue(s.rv)
                    if isinstance(e, tuple) and e[0] == 'bin' and e[1] in ('Gt', 'Ne') and isinstance(e[2], tuple) and e[2][0] == 'bin' and e[2][1] == 'BitAnd' and show(e[2][2]).endswith('.htyp') and e[3] == ('const', 0):
                        out[fl] = fold(e[2][3])
    return out


def masked_table(body, var):
    """switch over BitAnd(htyp, MASK) whose arms assign constants to `var`: returns (mask, {key: const}, default const)"""
    cfg = CFG(body)
    E = ExprBuilder(cfg)
    for blk in body.blocks:
        if blk.cleanup or blk.term.k != 'switch':
            continue
        c = E.switch_cond(blk)
        if not (isinstance(c, tuple) and c[0] == 'bin' and c[1] == 'BitAnd' and show(c[2]).endswith('.htyp')):
            continue
        mask = fold(c[3])
        if mask is None:
            continue

        def const_in(target):
            for s in body.blocks[target].stmts:
                if s.k == 'assign' and s.place.is_local and body.name_of(s.place.l) == var:
                    return fold(E.rvalue(s.rv))
            return None
        table = {v: const_in(t) for v, t in blk.term.d['vals']}
        default = const_in(blk.term.d['otherwise'])
        return mask, table, default
    return None


def write_order(body):
    """sequence of labels of the write calls of to_write in dominance/CFG order"""
    cfg = CFG(body)
    E = ExprBuilder(cfg)
    writes = []
    import guards
    for blk in body.calls():
        p = blk.term.callee.path
        if p.endswith('Write::write_all') or p.endswith('DltExtendedHeader::to_write'):
            label = 'BASE'
            for (c, truth, D) in guards.known(cfg, E, blk.i):
                fl = flag_of_cond(c)
                if fl and isinstance(c, tuple) and c[0] == 'discr' and truth in (True, ('eq', 1)):
                    label = fl
                if isinstance(c, tuple) and c[0] == 'call' and c[1].endswith('is_empty') and 'payload' in show(c) and truth is False:
                    label = 'PAYLOAD'
            arg = show(E.operand(blk.term.args[1])) if len(blk.term.args) > 1 else ''
            if label == 'BASE' and 'payload' in arg:
                label = 'PAYLOAD'
            writes.append((blk.i, label, arg))
    # order by reachability: a before b if b reachable from a and not vice versa
    def before(a, b):
        return b in cfg.reachable_from(a) and a not in cfg.reachable_from(b)
    labels = []
    rest = list(writes)
    while rest:
        first = [w for w in rest if not any(before(o[0], w[0]) for o in rest if o is not w)]
        if not first:
            labels.append('?')
            break
        labels.append(first[0][1])
        rest.remove(first[0])
    return labels, writes


def check(F, H1, role='both'):
    """registers obligations in rule H1"""
    hc = has_constants(F)
    H1.sites += len(hc)
    want_bits = {'EXT': 1, 'ECU': 4, 'SEID': 8, 'TMSP': 16}
    if hc == want_bits:
        H1.ok(sample={'has_x_bits': hc})
    else:
        H1.violation(('flag-bits', str(sorted(hc.items()))), 'has_ext_hdr/has_ecu_id/has_session_id/has_timestamp test htyp bits %s (DLT: %s)' % (hc, want_bits))
    sz = F.get(SH + 'std_ext_header_size')
    tw = F.get(SH + 'to_write')
    ts = F.get(SH + 'timestamp_dms')
    ecu = F.get(SH + 'ecu')
    if None in (sz, tw, ts, ecu):
        H1.violation(('anchor-lost', 'DltStandardHeader methods'), 'std_ext_header_size/to_write/timestamp_dms/ecu not all found')
        return None
    for b in (sz, tw, ts, ecu):
        H1.fn(b.path)
    c_sz, o_sz, i_sz = contributions(sz, ('length',))
    c_tw, o_tw, i_tw = contributions(tw, ('len', 'htyp'))
    c_ts, o_ts, i_ts = contributions(ts, ('offset',))
    def total(lst):
        if any(op.startswith('Cond') for op, v in lst):
            return 'conditional'
        return sum(v for op, v in lst if op == 'Add' and v is not None)
    size_r = {fl: total(d.get('length', [])) for fl, d in c_sz.items()}
    # preferred: decide the reader side from the size / offset *tables* obtained by constant propagation over the 16 flag
    # valuations (independent of variable names and of the if/else, +=, match form the code uses)
    tabs = reader_tables(F, sz, ts, hc) if len(hc) == 4 else None
    if tabs is not None:
        sizes, offs = tabs
        base = sizes.get(())
        size_r = {fl: (sizes.get((fl,), 0) - base) for fl in ('ECU', 'SEID', 'TMSP', 'EXT')}
        nonadd = [k for k, v in sizes.items() if v != base + sum(size_r[f] for f in k)]
        if nonadd:
            for fl in ('ECU', 'SEID', 'TMSP', 'EXT'):
                if any(fl in k for k in nonadd):
                    size_r[fl] = 'nonadditive'
        i_sz = {'length': base}
        o_sz = ['ECU', 'SEID', 'TMSP', 'EXT']
    size_w = {fl: total(d.get('len', [])) for fl, d in c_tw.items()}
    bits_w = {fl: [v for op, v in d.get('htyp', []) if op == 'BitOr'] for fl, d in c_tw.items()}
    # preferred for the writer as well: the (htyp, length) table over all valuations - independent of whether the bits and
    # sizes are accumulated by `|=`/`+=` under ifs, computed by a helper, or summed from per-part expressions
    wt = writer_tables(F, tw, hc) if len(hc) == 4 else None
    if wt is not None:
        PARTS = ('ECU', 'SEID', 'TMSP', 'EXT')
        wbase = wt[(0, ())][1]
        size_w = {fl: wt[(0, (fl,))][1] - wbase for fl in PARTS}
        bits_w = {fl: [wt[(0, (fl,))][0] ^ wt[(0, ())][0]] for fl in PARTS}
        for (be, k), (h, ln, _n) in wt.items():
            if ln != wbase + sum(size_w[f] for f in k):
                for f in k:
                    size_w[f] = 'nonadditive'
            want_h = wt[(0, ())][0] | sum(bits_w[f][0] for f in k)
            if (h & ~2) != (want_h & ~2):
                for f in (k or PARTS):
                    bits_w[f] = bits_w[f] + ['inconsistent:%s' % '+'.join(k)]
        i_tw = {'len': wbase}
        H1.sample_writer_table = True
    want_size = {'ECU': 4, 'SEID': 4, 'TMSP': 4, 'EXT': 10}
    H1.sites += 8
    for fl in ('ECU', 'SEID', 'TMSP', 'EXT'):
        r, w, bw = size_r.get(fl), size_w.get(fl), bits_w.get(fl, [])
        if r == w == want_size[fl] and bw == [hc.get(fl)]:
            H1.ok(sample={'part': fl, 'size_in_reader': r, 'size_in_writer': w, 'htyp_bit_written': bw[0], 'htyp_bit_tested': hc.get(fl)})
        else:
            H1.violation(('layout', fl, 'r%s' % r, 'w%s' % w, 'bits%s' % bw), 'header part %s: std_ext_header_size adds %s, to_write adds %s and sets htyp bits %s, has_x tests bit %s (expected size %d in both and the same bit)' %
                         (fl, r, w, bw, hc.get(fl), want_size[fl]), where=sz.loc(None))
    if i_sz.get('length') == 4 and i_tw.get('len') == 4:
        H1.ok(sample={'base_header_size': 4})
    else:
        H1.violation(('layout', 'BASE', str(i_sz.get('length')), str(i_tw.get('len'))), 'base standard header size is %s in the reader and %s in the writer (expected 4)' % (i_sz.get('length'), i_tw.get('len')))
    # timestamp offset: ECU and SEID contribute their sizes, nothing else.  Two accepted idioms:
    #  (a) if-chain on has_ecu_id()/has_session_id() (contributions extracted above)
    #  (b) a switch over `htyp & MASK` whose arms assign constants: every key of the mask must map to the sum
    #      of the sizes of the parts whose bit is set in the key
    H1.sites += 1
    mt = masked_table(ts, 'offset')
    if tabs is not None:
        bad = []
        for k, v in sorted(offs.items()):
            want_off = 4 * ('ECU' in k) + 4 * ('SEID' in k)
            if 'TMSP' in k:
                if v != want_off:
                    bad.append(('+'.join(k), v, want_off))
            elif not (isinstance(v, tuple) and v[0] == 'no-read' and v[1] == 0):
                bad.append(('+'.join(k) or 'none', v, 'no read, 0'))
        if not bad:
            H1.ok(sample={'timestamp_offset_by_flags': {'+'.join(k): v for k, v in sorted(offs.items()) if 'TMSP' in k}, 'method': 'constant propagation over all 16 flag valuations'})
        else:
            H1.violation(('timestamp-offset-table' if mt is not None else 'timestamp-offset', ','.join('%s:%s' % (k, g) for k, g, w in bad)[:80]),
                         'timestamp_dms reads the timestamp at offset(s) %s for flag combination(s) %s but the layout (ECU id 4, session id 4 before it) requires %s' %
                         ([g for k, g, w in bad], [k for k, g, w in bad], [w for k, g, w in bad]), where=ts.loc(None))
    elif mt is not None:
        mask, table, default = mt
        bad = []
        size_by_bit = {hc.get('ECU'): 4, hc.get('SEID'): 4}
        keys = [k for k in range(mask + 1) if k & ~mask == 0]
        for k in keys:
            want_off = sum(sz for bit, sz in size_by_bit.items() if bit and (k & bit))
            got_off = table.get(k, default)
            if got_off != want_off:
                bad.append((k, got_off, want_off))
        if mask == (hc.get('ECU', 0) | hc.get('SEID', 0)) and not bad:
            H1.ok(sample={'timestamp_offset_table': {k: table.get(k, default) for k in keys}, 'mask': mask})
        else:
            H1.violation(('timestamp-offset-table', 'mask%d' % mask, ','.join('%d:%s' % (k, g) for k, g, w in bad)),
                         'timestamp_dms switches over htyp & %d: for flag combination(s) %s it uses offset(s) %s but the layout requires %s' %
                         (mask, [k for k, g, w in bad], [g for k, g, w in bad], [w for k, g, w in bad]), where=ts.loc(None))
    else:
        off = {}
        for fl, d in c_ts.items():
            vals = d.get('offset', [])
            if fl == 'TMSP':
                continue
            off[fl] = [v if op in ('Add', 'Set') else '%s:%s' % (op, v) for op, v in vals if v]
        # ECU contributes through `offset = if has_ecu {4} else {0}` (Set 4 in the true region)
        ok_ts = off.get('ECU') == [4] and off.get('SEID') == [4] and 'EXT' not in off
        if ok_ts:
            H1.ok(sample={'timestamp_offset': 'ECU:4 + SEID:4', 'agrees_with_sizes': True})
        else:
            H1.violation(('timestamp-offset', str(sorted(off.items()))), 'timestamp_dms computes its offset from %s; the header layout puts the timestamp after ECU id (4) and session id (4)' % off, where=ts.loc(None))
    # ecu at offset 0
    ce = CFG(ecu)
    Ee = ExprBuilder(ce)
    txt = ' '.join(show(Ee.operand(a)) for blk in ecu.calls() for a in blk.term.args)
    if 'Range::Range{0, 4}' in txt:
        H1.ok(sample={'ecu_id': 'bytes 0..4 of the additional header'})
    else:
        H1.violation(('ecu-offset', 'x'), 'DltStandardHeader::ecu no longer reads bytes 0..4 of the additional header', where=ecu.loc(None))
    labels, writes = write_order(tw)
    H1.sites += len(writes)
    if labels == ['BASE', 'ECU', 'SEID', 'TMSP', 'EXT', 'PAYLOAD']:
        H1.ok(sample={'emission_order': labels})
    else:
        H1.violation(('emission-order', '-'.join(labels)), 'to_write emits the header parts in order %s (DLT: BASE, ECU, SEID, TMSP, EXT, PAYLOAD)' % labels, where=tw.loc(None))
    if o_sz != ['ECU', 'SEID', 'TMSP', 'EXT']:
        H1.violation(('size-tests', '-'.join(o_sz)), 'std_ext_header_size tests %s (expected each of ECU, SEID, TMSP, EXT once)' % o_sz, where=sz.loc(None))
    # parsers
    for name, C in (('adlt::dlt::parse_dlt_with_storage_header', F.consts.get('adlt::dlt::DLT_STORAGE_HEADER_SIZE', {}).get('v')),
                    ('adlt::dlt::parse_dlt_with_serial_header', F.consts.get('adlt::dlt::DLT_SERIAL_HEADER_SIZE', {}).get('v'))):
        b = F.get(name)
        if b is None or C is None:
            H1.violation(('anchor-lost', name), '%s or its framing constant not found' % name)
            continue
        H1.fn(name)
        check_parser(b, C, H1, F)
    check_ecu_source(F, H1)
    return {'bits': hc, 'size_reader': size_r, 'size_writer': size_w}


def offset_bounded(cfg, Ef, at, S, is_end):
    """is offset expression S (used at block `at`) smaller than the end of the message: (a) produced by iterating `a..end`, or (b) behind
    a dominating guard `S < end`; `is_end(expr)` tells whether an expression denotes the end of the message"""
    import guards
    bounded = False
    top = S
    while isinstance(top, tuple) and top[0] in ('cast', 'ref'):
        top = top[1]
    if isinstance(top, tuple) and top[0] == 'proj' and isinstance(top[1], tuple) and top[1][0] == 'call' and top[1][1].endswith('Iterator::next') and tuple(top[2:4]) == ('@Some', '.0'):
        it = top[1][2][0]
        for _ in range(8):
            if isinstance(it, tuple) and it[0] == 'ref':
                it = it[1]
            elif isinstance(it, tuple) and it[0] == 'proj' and len(it) == 2:
                it = it[1]
            elif isinstance(it, tuple) and it[0] == 'call' and it[1].endswith('IntoIterator::into_iter') and it[2]:
                it = it[2][0]
        if isinstance(it, tuple) and it[0] == 'agg' and it[1].endswith('Range::Range') and len(it[2]) == 2 and is_end(it[2][1]):
            bounded = True
    if not bounded:
        for (c, truth, D) in guards.known(cfg, Ef, at):
            if truth in (True, False):
                c2, t2 = guards.normalise(c, truth)
                if t2 is True and isinstance(c2, tuple) and c2[0] == 'bin':
                    lo, hi = (c2[2], c2[3]) if c2[1] == 'Lt' else ((c2[3], c2[2]) if c2[1] == 'Gt' else (None, None))
                    if lo is not None and lo == S and is_end(hi):
                        bounded = True
    return bounded


def check_parser(b, C, H1, F=None):
    """name-independent shape check of one parse function with framing constant C"""
    cfg = CFG(b)
    Ef = ExprBuilder(cfg, fold_named=True)
    STD = r'DltStandardHeader::std_ext_header_size\([^()]*(\([^()]*(\([^()]*\)[^()]*)*\)[^()]*)*\)'
    probs = []
    payload = fh = stdh_from = fh_exprs = None
    consumed_local = None
    ok_ret = ok_block = None
    for blk in b.blocks:
        if blk.cleanup:
            continue
        if blk.term.k == 'call':
            p = blk.term.callee.path
            if p.endswith('DltMessage::from_headers'):
                fh = [show(Ef.operand(a)) for a in blk.term.args]
                fh_exprs = [Ef.operand(a) for a in blk.term.args]
            if p.endswith('DltStandardHeader::from_buf'):
                stdh_from = show(Ef.operand(blk.term.args[0]))
            if p.endswith('From::from') and 'Vec<u8>' in blk.term.dest.t:
                payload = Ef.operand(blk.term.args[0])
        for s in blk.stmts:
            if s.k == 'assign' and s.place.is_local and s.place.l == 0 and s.rv['k'] == 'agg' and s.rv.get('variant') == 'Ok':
                ok_ret = Ef.rvalue(s.rv)
                ok_block = blk.i
    H1.sites += 6

    def has_std(x):
        return 'std_ext_header_size(' in x
    # offsets are compared as linear forms over {framing constant, hdr = std_ext_header_size(), len = stdh.len, N = data.len()}:
    # `C + hdr + (len - hdr)`, `C + len`, a remaining-bytes counter decremented step by step and a value computed by a small
    # helper all denote the same offset
    import linform
    data_names = [b.name_of(i) or 'arg%d' % i for i, t in enumerate(b.arg_types(), start=1) if t == '&[u8]']
    dn = re.escape(data_names[0]) if data_names else 'data'
    atoms = [('hdr', lambda e, se: isinstance(e, tuple) and e[0] == 'call' and e[1].endswith('DltStandardHeader::std_ext_header_size')),
             ('len', lambda e, se: se.endswith('.len') and 'DltStandardHeader::from_buf(' in se),
             ('N', lambda e, se: re.match(r'^(slice::len\(&?\(?\*?%s\)?\)|PtrMetadata\([^,]*%s[^,]*\))$' % (dn, dn), se) is not None)]
    L = linform.Lin(F, b, cfg, atoms)
    want_start = {1: C, 'hdr': 1}
    want_end = {1: C, 'len': 1}
    rng = None
    if payload is not None:
        for x in walk(payload):
            if isinstance(x, tuple) and x and x[0] == 'agg' and x[1].endswith('Range::Range') and len(x[2]) == 2:
                rng = x
    if rng is None:
        probs.append(('payload-slice', 'payload is not taken from a slice data[a..b]'))
    else:
        A, Bend = rng[2]
        lA, lB = L.lin(A), L.lin(Bend)
        if lA != want_start:
            probs.append(('payload-offset', 'payload starts at %s (expected %d + std_ext_header_size())' % (linform.fmt(lA)[:80], C)))
        if lB != want_end:
            probs.append(('payload-size', 'payload ends at %s (expected %d + stdh.len, i.e. start + (stdh.len - std_ext_header_size()))' % (linform.fmt(lB)[:100], C)))
    ah_ok = False
    for a in (fh_exprs or []):
        for x in walk(a):
            if isinstance(x, tuple) and x and x[0] == 'agg' and x[1].endswith('Range::Range') and len(x[2]) == 2:
                if L.lin(x[2][0]) == {1: C + 4} and L.lin(x[2][1]) == want_start:
                    ah_ok = True
    if not ah_ok:
        probs.append(('additional-header-slice', 'from_headers gets %s (expected the slice [%d+4 .. %d+std_ext_header_size()])' % ([a[:80] for a in (fh or [])][2:3], C, C)))
    if not stdh_from or 'RangeFrom::RangeFrom{%d}' % C not in stdh_from:
        probs.append(('stdheader-offset', 'standard header parsed from %s (expected data[%d..])' % ((stdh_from or '')[:60], C)))
    # consumed = framing + len (however it is spelled: data.len() - remaining with remaining decremented by framing, headers and
    # payload; a local computed early; the second component returned by a helper)
    if ok_ret is None:
        probs.append(('ok-return', 'no Ok((consumed, msg)) return found'))
    else:
        tup = [x for x in walk(ok_ret) if isinstance(x, tuple) and x and x[0] == 'agg' and x[1] == 'tuple']
        cons = tup[0][2][0] if tup and tup[0][2] else None
        lc = L.lin(cons, at=ok_block) if cons is not None else None
        if lc != want_end:
            probs.append(('consumed', 'consumed bytes are %s (expected %d + stdh.len = the bytes of this message)' % (linform.fmt(lc) if lc is not None else '?', C)))
    # the "probably corrupt" heuristic (is a second frame marker hidden inside this message?) may only run when the bytes
    # that follow the message are visible: every use of the marker predicate is dominated by `remaining >= 4`.  Without
    # that look-ahead the absence of a following marker proves nothing and a well-formed last message of a buffer /
    # of an exported file is rejected.
    import guards
    Eg = ExprBuilder(cfg)
    marker_calls = [blk for blk in b.calls() if re.search(r'::is_(storage|serial)_header_pattern$', blk.term.callee.path)]
    H1.sites += len(marker_calls)
    def fresh(D, var, use_block):
        # no store to the tested variable on any path from the guard's taken edge to the use
        tgt = [S for (Dd, S, v, allv) in guards.dominating_edges(cfg, use_block) if Dd == D]
        if not tgt or not (isinstance(var, tuple) and var[0] == 'place' and len(var) == 2):
            return False
        ls_ = b.locals_named(var[1])
        fwd = cfg.reachable_from(tgt[0], avoid={D})
        for x in fwd:
            if x != use_block and use_block not in cfg.reachable_from(x, avoid={D}):
                continue
            if x == use_block:
                continue
            for s_ in b.blocks[x].stmts:
                if s_.k == 'assign' and s_.place.is_local and s_.place.l in ls_:
                    return False
        return True
    for blk in marker_calls:
        la = False
        for (c, truth, D) in guards.known(cfg, Eg, blk.i):
            if truth is True and isinstance(c, tuple) and c[0] == 'bin':
                k3, k2 = fold(c[3]), fold(c[2])
                var = None
                if c[1] == 'Ge' and k3 is not None and k3 >= 4 and k2 is None:
                    var = c[2]
                if c[1] == 'Gt' and k3 is not None and k3 >= 3 and k2 is None:
                    var = c[2]
                if c[1] == 'Le' and k2 is not None and k2 >= 4 and k3 is None:
                    var = c[3]
                if c[1] == 'Lt' and k2 is not None and k2 >= 3 and k3 is None:
                    var = c[3]
                if var is not None and fresh(D, var, blk.i):
                    la = True
        if not la:
            probs.append(('heuristic-without-lookahead', 'the frame-marker heuristic is evaluated at %s without a dominating `remaining >= 4`: a complete message at the end of the data (nothing visible behind it) '
                          'that contains the marker bytes is rejected as corrupt' % b.loc(blk.term.sp)))
            break
    # the scan for a second marker *inside* this message: every offset it probes lies before the end of the message
    # (start + stdh.len).  A probe at or behind that end finds the marker of the next message and rejects a valid one.
    loops_ = cfg.loops()
    for blk in marker_calls:
        if not any(blk.i in lb for lb in loops_.values()):
            continue
        arg = Ef.operand(blk.term.args[0])
        S = None
        top_ = arg
        for _ in range(6):
            if isinstance(top_, tuple) and top_[0] in ('ref', 'cast'):
                top_ = top_[1]
            elif isinstance(top_, tuple) and top_[0] == 'proj' and (len(top_) == 2 or all(p_ == '*' for p_ in top_[2:])):
                top_ = top_[1]
        if isinstance(top_, tuple) and top_[0] == 'call' and top_[1].endswith('::index') and len(top_[2]) > 1:
            r_ = top_[2][1]
            if isinstance(r_, tuple) and r_[0] == 'agg' and r_[1].endswith('RangeFrom::RangeFrom') and len(r_[2]) == 1:
                S = r_[2][0]
        if S is None:
            probs.append(('heuristic-scan-unbounded', 'the scan probes %s at %s: cannot see the offset it starts at' % (show(arg)[:60], b.loc(blk.term.sp))))
            continue
        bounded = offset_bounded(cfg, Ef, blk.i, S, lambda e_, at_=blk.i: L.lin(e_, at=at_) == want_end)
        if not bounded:
            probs.append(('heuristic-scan-unbounded', 'the scan for a second frame marker probes offset %s at %s without that offset being bounded by the end of this message (%d + stdh.len): '
                          'it can find the marker of the *next* message and reject a valid message as corrupt' % (show(S)[:50], b.loc(blk.term.sp), C)))
    # the scan moved into a private helper that gets the marker predicate as an argument
    # (`find_second_marker(data, to_consume, is_storage_header_pattern)`)
    for blk in (b.calls() if F is not None else []):
        t = blk.term
        H = F.get(t.callee.resolved) if t.callee.resolved else F.get(t.callee.path)
        if H is None or H.kind == 'closure' or H.crate != 'lib' or H.path == b.path:
            continue
        if not any(a.is_const and a.fn and re.search(r'::is_(storage|serial)_header_pattern$', a.fn.get('path', '')) for a in t.args):
            continue
        H1.fn(H.path)
        H1.sites += 1
        marker_calls = marker_calls or [blk]
        ends = [H.name_of(i + 1) or 'arg%d' % (i + 1) for i, a in enumerate(t.args) if not a.is_const and L.lin(Ef.operand(a), at=blk.i) == want_end]
        if not ends:
            probs.append(('heuristic-scan-unbounded', 'the scan helper %s is called at %s without an argument that is the end of this message (%d + stdh.len)' % (H.path.split('::')[-1], b.loc(t.sp), C)))
            continue
        hcfg = CFG(H)
        hE = ExprBuilder(hcfg, fold_named=True)
        hloops = hcfg.loops()
        probes = 0
        for hb in H.calls():
            ht = hb.term
            if ht.callee.path not in ('std::ops::Fn::call', 'std::ops::FnMut::call_mut', 'std::ops::FnOnce::call_once') or len(ht.args) < 2:
                continue
            if not any(hb.i in lb for lb in hloops.values()):
                continue
            S = None
            for x in walk(hE.operand(ht.args[1])):
                if S is None and isinstance(x, tuple) and x and x[0] == 'agg' and x[1].endswith('RangeFrom::RangeFrom') and len(x[2]) == 1:
                    S = x[2][0]
            if S is None:
                continue
            probes += 1
            if not offset_bounded(hcfg, hE, hb.i, S, lambda e_: isinstance(e_, tuple) and e_[0] == 'place' and len(e_) == 2 and e_[1] in ends):
                probs.append(('heuristic-scan-unbounded', 'the scan helper %s probes offset %s at %s without that offset being bounded by its end parameter: it can find the marker of the next message' % (H.path.split('::')[-1], show(S)[:40], H.loc(ht.sp))))
        if not probes:
            probs.append(('heuristic-scan-unbounded', 'cannot find the probes of the scan helper %s' % H.path))
    # NotEnoughData means "come back when more bytes are there": the iterator ends the stream on it.  A parser may answer so
    # only while the buffer holds less than this message: under a guard N < k (k <= framing + minimal standard header) or
    # N < framing + stdh.len.  Once the whole message is in the buffer the answer is the message (or InvalidData): a
    # NotEnoughData there (e.g. "the next marker is only partially visible") loses the last message of a stream that ends
    # with a few stray bytes.
    CMPS = {'Lt': (0, 0), 'Le': (0, 1), 'Gt': (1, 0), 'Ge': (1, 1)}     # (swap, non-strict)
    for blk in b.blocks:
        if blk.cleanup:
            continue
        if not any(s.k == 'assign' and s.rv['k'] == 'agg' and s.rv.get('adt', '').endswith('ErrorKind') and s.rv.get('variant') == 'NotEnoughData' for s in blk.stmts):
            continue
        H1.sites += 1
        seen = []
        good = False
        for (e, truth, D) in guards.known(cfg, Ef, blk.i):
            if truth is not True or not (isinstance(e, tuple) and e[0] == 'bin' and e[1] in CMPS):
                continue
            swap, nonstrict = CMPS[e[1]]
            la, lb = L.lin(e[2], at=D), L.lin(e[3], at=D)
            if swap:
                la, lb = lb, la
            f = linform.add(la, lb, -1)          # la - lb < 0   (or <= 0)
            if nonstrict:
                f = linform.add(f, {1: 1}, -1)
            seen.append(linform.fmt(f) + ' < 0')
            if f.get('N') != 1:
                continue
            rest = {k_: v_ for k_, v_ in f.items() if k_ != 'N'}
            if set(rest) <= {1} and 0 < -rest.get(1, 0) <= C + 4:
                good = True
            if rest == {1: -C, 'len': -1}:
                good = True
        if not good:
            probs.append(('not-enough-data-with-complete-message', 'NotEnoughData is returned at %s without a guard that says the buffer is shorter than this message (N < %d or N < %d + stdh.len; guards seen: %s): '
                          'a complete message can be answered with "wait for more data" and the stream ends before it' % (b.loc(blk.term.sp), C + 4, C, '; '.join(seen)[:160] or 'none')))
    if not marker_calls:
        probs.append(('heuristic-anchor', 'no use of is_*_header_pattern found (anchor lost)'))
    if probs:
        for k, pr in probs:
            H1.violation(('parser-layout', b.path, k), '%s: %s' % (b.path, pr), where=b.loc(None))
    else:
        H1.ok(n=6, sample={'parser': b.path, 'framing_bytes': C, 'payload': 'data[C+hdr .. C+hdr+(len-hdr)]', 'additional_header_slice': '[C+4 .. C+hdr]', 'consumed': 'data.len() - remaining'})


# ---------------------------------------------------------------------------------------------
# constant propagation per flag valuation (finite: 16 valuations of EXT/ECU/SEID/TMSP)

class Unknown(Exception):
    pass


def const_run(F, body, flags, bits, stop_at_index=False, max_steps=400):
    """Constant propagation through `body` under one valuation of the four header flags: has_<x>() calls return the
    valuation, reads of `.htyp` return the corresponding bit pattern, everything else must be computable from constants.
    Returns ('ret', value) at the return, or ('index', value) at the first slice bounds check when stop_at_index.
    Raises Unknown when a branch depends on anything else (the caller then falls back to the syntactic extraction).
    Not an execution of adlt: only integer/bool constants and the flag valuation flow; unknown values are tracked as None."""
    env = {}
    htyp = sum(bits[f] for f in bits if flags.get(f))

    def place_val(pl):
        p = pl.get('p', [])
        if p and p[-1].get('k') == 'f' and p[-1].get('n') == 'htyp':
            return htyp
        v = env.get(pl['l'])
        for e in p:
            if e['k'] == 'deref':
                continue
            if e['k'] == 'f' and isinstance(v, tuple) and e['i'] < len(v):
                v = v[e['i']]
            elif e['k'] == 'idx' and isinstance(v, tuple) and isinstance(env.get(e['l']), int) and 0 <= env.get(e['l']) < len(v):
                v = v[env.get(e['l'])]        # lookup table indexed by a propagated constant
            elif e['k'] == 'cidx' and isinstance(v, tuple):
                i_ = (len(v) - e['off']) if e.get('fe') else e['off']
                v = v[i_] if 0 <= i_ < len(v) else None
            else:
                return None
        return v

    def opval(o):
        if o['k'] == 'const':
            v = o.get('v')
            if v is None and o.get('s') and F is not None:
                arr = (F.consts.get(o['s']) or {}).get('arr')
                if arr:
                    return tuple(arr)
            return v
        return place_val(o['p'])

    def rv_val(rv):
        k = rv['k']
        if k == 'use':
            return opval(rv['o'])
        if k == 'cast':
            return opval(rv['o'])
        if k in ('ref', 'rawptr'):
            return place_val(rv['p']) if not rv['p'].get('p') or all(e['k'] == 'deref' for e in rv['p']['p']) else None
        if k == 'bin':
            a, b = opval(rv['a']), opval(rv['b'])
            op = rv['op']
            if a is None or b is None:
                return None
            base = op.replace('WithOverflow', '').replace('Unchecked', '')
            fn = {'Add': lambda: a + b, 'Sub': lambda: a - b, 'Mul': lambda: a * b, 'BitOr': lambda: a | b, 'BitAnd': lambda: a & b, 'BitXor': lambda: a ^ b,
                  'Shl': lambda: a << b, 'Shr': lambda: a >> b, 'Eq': lambda: int(a == b), 'Ne': lambda: int(a != b), 'Lt': lambda: int(a < b),
                  'Le': lambda: int(a <= b), 'Gt': lambda: int(a > b), 'Ge': lambda: int(a >= b)}.get(base)
            if fn is None:
                return None
            r = fn()
            if op.endswith('WithOverflow'):
                return (r, 0)
            return r
        if k == 'un':
            a = opval(rv['a'])
            if a is None:
                return None
            if rv['op'] == 'Not':
                return int(not a) if a in (0, 1) else None
            return None
        if k == 'agg' and rv.get('ak') == 'tuple':
            return tuple(opval(o) for o in rv['ops'])
        return None

    bi = 0
    for _ in range(max_steps):
        blk = body.blocks[bi]
        for s in blk.stmts:
            if s.k == 'assign':
                pl = s.d['p']
                if not pl.get('p'):
                    env[pl['l']] = rv_val(s.rv)
                # stores through projections are ignored (tracked values are whole locals only)
        t = blk.term
        if t.k == 'goto':
            bi = t.d['t']
        elif t.k == 'return':
            return ('ret', env.get(0))
        elif t.k == 'call':
            p = t.callee.path
            nm = p.split('::')[-1]
            val = None
            if p.startswith(SH) and nm in HAS:
                val = int(bool(flags.get(HAS[nm])))
            dest = t.d.get('dest')
            if dest is not None and not dest.get('p'):
                env[dest['l']] = val
            if t.d.get('t') is None:
                raise Unknown('diverging call')
            bi = t.d['t']
        elif t.k == 'switch':
            v = opval(t.d['d'])
            if v is None:
                raise Unknown('branch on a non-constant at %s' % body.loc(t.sp))
            nxt = t.d['otherwise']
            for (k_, tg) in t.d['vals']:
                if k_ == v:
                    nxt = tg
            bi = nxt
        elif t.k == 'assert':
            if stop_at_index and t.d['ak'] == 'BoundsCheck':
                iv = opval(t.d['ops'][1])
                if iv is None:
                    raise Unknown('non-constant index')
                return ('index', iv)
            bi = t.d['t']
        elif t.k == 'drop':
            bi = t.d['t']
        else:
            raise Unknown('terminator ' + t.k)
    raise Unknown('step limit')


def flag_valuations():
    out = []
    for m in range(16):
        out.append({'EXT': m & 1, 'ECU': (m >> 1) & 1, 'SEID': (m >> 2) & 1, 'TMSP': (m >> 3) & 1})
    return out


def reader_tables(F, sz, ts, bits):
    """(size table, timestamp-offset table) by constant propagation over all 16 flag valuations, or None if not computable"""
    sizes, offs = {}, {}
    try:
        for fl in flag_valuations():
            key = tuple(sorted(k for k, v in fl.items() if v))
            kind, v = const_run(F, sz, fl, bits)
            if kind != 'ret' or v is None:
                return None
            sizes[key] = v
            if fl['TMSP']:
                kind, v = const_run(F, ts, fl, bits, stop_at_index=True)
                if kind != 'index':
                    return None
                offs[key] = v
            else:
                kind, v = const_run(F, ts, fl, bits, stop_at_index=True)
                offs[key] = ('no-read', v) if kind == 'ret' else ('index', v)
    except Unknown:
        return None
    return sizes, offs


def writer_tables(F, tw, bits):
    """{(big_endian, flags present): (htyp byte, length field for an empty payload)} of DltStandardHeader::to_write by
    constant propagation over the 2 x 16 valuations of byte order and optional parts (helpers and closures are followed),
    read off the first four bytes handed to write_all: [htyp, mcnt, len_hi, len_lo].  None when not computable."""
    import cinterp
    out = {}
    try:
        for be in (0, 1):
            for fl in flag_valuations():
                key = tuple(sorted(k for k, v in fl.items() if v))
                trace = []

                def hooks(path, args, term, be=be, fl=fl, trace=trace):
                    nm = path.split('::')[-1]
                    if path.startswith(SH) and nm == 'is_big_endian':
                        return be
                    if path.startswith(SH) and nm in HAS:
                        return fl[HAS[nm]]
                    if nm == 'write_all':
                        trace.append(('write', args[1] if len(args) > 1 else None))
                        return cinterp.Variant(0)
                    if path.endswith('DltExtendedHeader::to_write'):
                        trace.append(('ext', None))
                        return cinterp.Variant(0)
                    return NotImplemented
                it = cinterp.Interp(F, hooks)
                args = []
                for i in range(1, tw.arg_count + 1):
                    nm = tw.name_of(i)
                    if nm in PARAM:
                        args.append(cinterp.Variant(fl[PARAM[nm]]))
                    elif tw.lty(i) in ('&[u8]', '&std::vec::Vec<u8>'):
                        args.append(cinterp.SliceOfLen(0))
                    else:
                        args.append(None)
                it.run(tw, args)
                w = [v for (k, v) in trace if k == 'write']
                if not w or not (isinstance(w[0], tuple) and len(w[0]) == 4 and all(isinstance(w[0][i], int) for i in (0, 2, 3))):
                    return None
                out[(be, key)] = (w[0][0], (w[0][2] << 8) | w[0][3], len(trace))
    except cinterp.Unknown:
        return None
    return out


# ---------------------------------------------------------------------------------------------
# the message ECU: standard-header id whenever present

def check_id_bytes_verbatim(F, R):
    """"any counter and id bytes": ECU id, APID and CTID are four arbitrary bytes.  Every reader builds them with
    DltChar4::from_buf, so that constructor must copy buf[0..4] verbatim and in order - a mapping of non-printable / non-ASCII
    bytes at construction (the display rule) changes the field, collapses distinct ids and is written back on export."""
    b = F.get('adlt::dlt::DltChar4::from_buf')
    if b is None:
        R.violation(('anchor-lost', 'DltChar4::from_buf'), 'DltChar4::from_buf not found')
        return
    R.fn(b.path)
    cfg = CFG(b)
    E = ExprBuilder(cfg, fold_named=True)
    R.sites += 1
    aggs = [s for blk in b.blocks if not blk.cleanup for s in blk.stmts if s.k == 'assign' and s.rv['k'] == 'agg' and s.rv.get('adt', '').endswith('dlt::DltChar4') and len(s.rv['ops']) == 1]
    if len(aggs) != 1:
        R.violation(('id-bytes-anchor', b.path), 'DltChar4::from_buf constructs %d DltChar4 values (expected one)' % len(aggs), where=b.loc(None))
        return
    op = Operand(aggs[0].rv['ops'][0])
    val = E.operand(op)
    sv = show(val)
    nm = b.name_of(1) or 'arg1'
    offs = None
    if isinstance(val, tuple) and val[0] == 'agg' and val[1] == 'array' and len(val[2]) == 4:
        offs = []
        pl0 = cfg.origin_of_operand(op)
        sd0 = cfg.single_def(pl0.l) if pl0 is not None and not pl0.p else None
        ops = sd0[2].rv['ops'] if sd0 is not None and sd0[1] != 'call' and sd0[2].rv['k'] == 'agg' and sd0[2].rv.get('ak') == 'array' else []
        for o in ops:
            eo = Operand(o)
            pl = cfg.origin_of_operand(eo) if eo.place is not None else None
            off = None
            if pl is not None and pl.l == 1 and len(pl.p) == 2 and pl.p[0]['k'] == 'deref':
                e = pl.p[1]
                if e['k'] == 'cidx' and not e.get('fe'):
                    off = e['off']
                elif e['k'] == 'idx':
                    sd = cfg.single_def(e['l'])
                    if sd is not None and sd[1] != 'call' and sd[2].rv['k'] == 'use' and Operand(sd[2].rv['o']).is_const:
                        off = Operand(sd[2].rv['o']).value
            offs.append(off)
        if offs == [0, 1, 2, 3]:
            R.ok(sample={'constructor': b.path, 'char4': '[buf[0], buf[1], buf[2], buf[3]] verbatim'})
            return
    elif re.match(r'^\{?(Result::unwrap|Result::expect|Option::unwrap)\((TryInto::try_into|TryFrom::try_from)\(', sv) and re.search(r'(^|[^A-Za-z0-9_])%s($|[^A-Za-z0-9_])' % re.escape(nm), sv) \
            and not re.search(r'Iterator::|::map\(', sv):
        R.ok(sample={'constructor': b.path, 'char4': 'slice of buf converted as a whole: %s' % sv[:70]})
        return
    R.violation(('id-bytes-not-verbatim', b.path), 'DltChar4::from_buf does not store buf[0], buf[1], buf[2], buf[3] verbatim (char4 = %s): ids with such bytes are changed by reading and distinct ids collapse' % sv[:120], where=b.loc(aggs[0].sp))


def check_ecu_source(F, H1):
    """DltMessage::from_headers takes the ECU id from the standard header whenever the WEID flag provides one and falls back to
    the storage header only when there is none - whatever the id bytes are.  Accepted forms: `std.ecu(buf).unwrap_or(storage.ecu)`
    (and unwrap_or_else / map_or), or a match in which the storage-header value is used only on the None edge."""
    import guards
    b = F.get('adlt::dlt::DltMessage::from_headers')
    if b is None:
        H1.violation(('anchor-lost', 'from_headers'), 'DltMessage::from_headers not found')
        return
    H1.fn(b.path)
    cfg = CFG(b)
    E = ExprBuilder(cfg, fold_named=True)
    E0 = ExprBuilder(cfg)
    H1.sites += 1
    ops = []
    for blk in b.blocks:
        if blk.cleanup:
            continue
        for s in blk.stmts:
            if s.k == 'assign' and s.rv['k'] == 'agg' and s.rv.get('adt', '').endswith('dlt::DltMessage') and 'ecu' in (s.rv.get('fields') or []):
                ops.append((blk, s, Operand(s.rv['ops'][s.rv['fields'].index('ecu')])))
    if not ops:
        H1.violation(('anchor-lost', 'DltMessage aggregate in from_headers'), 'cannot find the construction of the message in from_headers')
        return
    for (blk, s, o) in ops:
        e = E.operand(o)
        se = show(e)
        if re.match(r'Option::(unwrap_or|unwrap_or_else|map_or)\(DltStandardHeader::ecu\(', se) and 'storage_header' in se:
            H1.ok(sample={'message_ecu': 'standard_header.ecu(buf).unwrap_or(storage_header.ecu)'})
            continue
        # phi form
        if o.place is None or not o.place.is_local:
            H1.violation(('ecu-source', 'shape'), 'the ECU of the message is %s: cannot relate it to the standard/storage header ids' % se[:80], where=b.loc(s.sp))
            continue
        l = o.place.l
        sd = cfg.single_def(l)
        if sd is not None and sd[1] != 'call' and sd[2].rv['k'] == 'use' and Operand(sd[2].rv['o']).place is not None and Operand(sd[2].rv['o']).place.is_local:
            l = Operand(sd[2].rv['o']).place.l
        bad = None
        n_some = 0
        for (bi, si, d) in cfg.defs.get(l, []):
            if si == 'call':
                bad = 'result of %s' % d.callee.path
                continue
            val = show(E0.rvalue(d.rv))
            known = guards.known(cfg, E, bi)
            none_edge = any(show(c).startswith('discr(DltStandardHeader::ecu(') and t in (False, ('eq', 0)) for (c, t, D) in known)
            some_edge = any(show(c).startswith('discr(DltStandardHeader::ecu(') and t in (True, ('eq', 1)) for (c, t, D) in known)
            if 'storage_header' in val:
                if not none_edge:
                    bad = 'the storage-header id is used on an edge other than "standard header has no ECU id" (%s)' % b.loc(d.sp)
            elif some_edge:
                n_some += 1
            else:
                bad = 'value %s' % val[:60]
        if bad is None and n_some >= 1:
            H1.ok(sample={'message_ecu': 'standard-header id on the Some edge, storage-header id on the None edge only'})
        else:
            H1.violation(('ecu-source', 'fallback'), 'from_headers: %s - a message whose standard header carries an ECU id (WEID) must keep exactly that id' % (bad or 'the standard-header id is never used'), where=b.loc(s.sp))
