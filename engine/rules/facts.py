"""Fact loader: wraps the JSON emitted by engine/mirfacts into small helper classes."""
import json, os, re

MSG = 'adlt::dlt::DltMessage'


class Place:
    __slots__ = ('l', 'p', 't')

    def __init__(self, d):
        self.l = d['l']
        self.p = d['p']
        self.t = d['t']

    @property
    def is_local(self):
        return not self.p

    def fields(self):
        """names of Field projections in order"""
        return [e['n'] for e in self.p if e['k'] == 'f']

    def key(self):
        """hashable move-path key: local + projections (deref kept)"""
        out = [self.l]
        for e in self.p:
            k = e['k']
            if k == 'f':
                out.append(('f', e['i']))
            elif k == 'dc':
                out.append(('dc', e['i']))
            elif k == 'deref':
                out.append(('*',))
            elif k == 'idx':
                out.append(('idx', e['l']))
            elif k == 'cidx':
                out.append(('cidx', e['off'], e['fe']))
            else:
                out.append((k,))
        return tuple(out)

    def has_deref(self):
        return any(e['k'] == 'deref' for e in self.p)

    def show(self, body=None):
        s = body.lname(self.l) if body is not None else '_%d' % self.l
        for e in self.p:
            k = e['k']
            if k == 'f':
                s = '%s.%s' % (s, e['n'])
            elif k == 'deref':
                s = '(*%s)' % s
            elif k == 'dc':
                s = '(%s as %s)' % (s, e['n'])
            elif k == 'idx':
                s = '%s[%s]' % (s, body.lname(e['l']) if body is not None else '_%d' % e['l'])
            elif k == 'cidx':
                s = '%s[%s%d]' % (s, '-' if e['fe'] else '', e['off'])
            elif k == 'sub':
                s = '%s[%d..%s%d]' % (s, e['from'], '-' if e['fe'] else '', e['to'])
            else:
                s = '%s.<%s>' % (s, k)
        return s


class Operand:
    __slots__ = ('k', 'place', 'd')

    def __init__(self, d):
        self.k = d['k']
        self.d = d
        self.place = Place(d['p']) if 'p' in d else None

    @property
    def is_const(self):
        return self.k == 'const'

    @property
    def is_move(self):
        return self.k == 'move'

    @property
    def value(self):
        return self.d.get('v')

    @property
    def ty(self):
        return self.d.get('t') if self.k == 'const' else self.place.t

    @property
    def fn(self):
        return self.d.get('fn')

    def const_str(self):
        return self.d.get('s')

    def show(self, body=None):
        if self.k in ('copy', 'move'):
            return ('move ' if self.k == 'move' else '') + self.place.show(body)
        if self.k == 'const':
            if 'fn' in self.d:
                return 'fn ' + self.d['fn']['path']
            if 'v' in self.d:
                return 'const %s' % self.d['v']
            return 'const ' + (self.d.get('s') or self.d.get('closure') or '?')[:60]
        return '?'


class Callee:
    __slots__ = ('d',)

    def __init__(self, d):
        self.d = d or {}

    @property
    def path(self):
        return self.d.get('path', '')

    @property
    def path_args(self):
        return self.d.get('path_args', '')

    @property
    def resolved(self):
        return self.d.get('resolved')

    @property
    def trait(self):
        return self.d.get('trait')

    @property
    def self_ty(self):
        return self.d.get('self_ty')

    @property
    def is_dyn(self):
        return bool(self.d.get('is_dyn'))

    @property
    def krate(self):
        return self.d.get('krate')

    @property
    def target(self):
        """best known body path: resolved impl if any, else declared path"""
        return self.d.get('resolved') or self.d.get('path', '')

    def __bool__(self):
        return bool(self.d)


class Stmt:
    __slots__ = ('k', 'place', 'rv', 'sp', 'd')

    def __init__(self, d):
        self.k = d['k']
        self.d = d
        self.place = Place(d['p'])
        self.rv = d.get('rv')
        self.sp = d.get('sp')

    def rv_operands(self):
        rv = self.rv
        if rv is None:
            return []
        k = rv['k']
        if k in ('use', 'repeat', 'cast'):
            return [Operand(rv['o'])]
        if k == 'bin':
            return [Operand(rv['a']), Operand(rv['b'])]
        if k == 'un':
            return [Operand(rv['a'])]
        if k == 'agg':
            return [Operand(o) for o in rv['ops']]
        return []

    def rv_place(self):
        rv = self.rv
        if rv is not None and rv['k'] in ('ref', 'rawptr', 'discr'):
            return Place(rv['p'])
        return None


class Term:
    __slots__ = ('k', 'd', 'sp')

    def __init__(self, d, sp):
        self.k = d['k']
        self.d = d
        self.sp = sp

    @property
    def callee(self):
        if self.k != 'call':
            return Callee(None)
        return Callee(self.d['f'].get('fn'))

    @property
    def func(self):
        return Operand(self.d['f'])

    @property
    def args(self):
        return [Operand(a) for a in self.d['args']]

    @property
    def dest(self):
        return Place(self.d['dest']) if 'dest' in self.d else None

    @property
    def place(self):
        return Place(self.d['p']) if 'p' in self.d else None

    def succs(self, unwind=False):
        k = self.k
        d = self.d
        out = []
        if k == 'goto':
            out = [d['t']]
        elif k == 'switch':
            out = [t for _, t in d['vals']] + [d['otherwise']]
        elif k in ('drop', 'assert'):
            out = [d['t']]
        elif k == 'call':
            out = [d['t']] if d['t'] is not None else []
        if unwind and d.get('u') is not None:
            out.append(d['u'])
        return out


class Block:
    __slots__ = ('i', 'cleanup', 'stmts', 'term')

    def __init__(self, i, d):
        self.i = i
        self.cleanup = d['c']
        self.stmts = [Stmt(s) for s in d['s']]
        self.term = Term(d['t'], d.get('sp'))


class Body:
    def __init__(self, d, crate):
        self.d = d
        self.crate = crate
        self.path = d['path']
        self.kind = d['kind']
        self.locals = d['locals']
        self.arg_count = d['arg_count']
        self.closure_of = d.get('closure_of')
        self.impl_self = d.get('impl_self')
        self.impl_trait = d.get('impl_trait')
        self._blocks = None
        self.file = d['span']['f']
        self.line = d['span']['l']
        self.line_hi = d.get('line_hi')

    @property
    def blocks(self):
        if self._blocks is None:
            self._blocks = [Block(i, b) for i, b in enumerate(self.d['blocks'])]
        return self._blocks

    def promoted_body(self, i):
        ps = self.d.get('promoted') or []
        if i is None or i >= len(ps):
            return None
        d = dict(ps[i])
        d.update({'path': '%s::promoted[%d]' % (self.path, i), 'kind': 'promoted', 'arg_count': 0, 'span': self.d['span'], 'upvars': []})
        return Body(d, self.crate)

    def lname(self, l):
        n = self.locals[l].get('n')
        return '%s(_%d)' % (n, l) if n else '_%d' % l

    def lty(self, l):
        return self.locals[l]['t']

    def name_of(self, l):
        return self.locals[l].get('n')

    def locals_named(self, name):
        return [i for i, l in enumerate(self.locals) if l.get('n') == name]

    def arg_types(self):
        return [self.locals[i]['t'] for i in range(1, self.arg_count + 1)]

    def ret_type(self):
        return self.locals[0]['t']

    def upvar_name(self, field_index):
        for u in self.d.get('upvars', []):
            p = u['p']
            for e in p['p']:
                if e['k'] == 'f' and e['i'] == field_index:
                    return u['name']
        return None

    def calls(self, include_cleanup=False):
        for b in self.blocks:
            if b.cleanup and not include_cleanup:
                continue
            if b.term.k == 'call':
                yield b

    def loc(self, sp):
        if not sp:
            return '%s:%d' % (rel(self.file), self.line)
        return '%s:%d' % (rel(sp['f']), sp['l'])

    def short(self):
        return self.path


def rel(f):
    m = re.search(r'(src/.*)$', f or '')
    return m.group(1) if m else (f or '?')


class Facts:
    def __init__(self, d_lib, d_bin):
        self.lib = d_lib
        self.bin = d_bin
        self.bodies = {}
        self.order = []
        for crate, d in (('lib', d_lib), ('bin', d_bin)):
            for b in d['bodies']:
                body = Body(b, crate)
                # duplicate paths can happen for derive impls in anonymous consts; keep the first
                if body.path in self.bodies:
                    k = 2
                    while '%s#%d' % (body.path, k) in self.bodies:
                        k += 1
                    body.path = '%s#%d' % (body.path, k)
                self.bodies[body.path] = body
                self.order.append(body)
        self.adts = {a['path']: a for d in (d_lib, d_bin) for a in d['adts']}
        self.impls = [dict(i, crate=c) for c, d in (('lib', d_lib), ('bin', d_bin)) for i in d['impls']]
        self.consts = {c['path']: c for d in (d_lib, d_bin) for c in d['consts']}
        self.rustc = d_lib.get('rustc')
        self._closures = {}
        for b in self.order:
            if b.closure_of:
                self._closures.setdefault(b.closure_of, []).append(b)

    def get(self, path):
        return self.bodies.get(path)

    def find(self, pred):
        return [b for b in self.order if pred(b)]

    def by_suffix(self, suffix):
        return [b for b in self.order if b.path.endswith(suffix)]

    def closures_of(self, path):
        """all closure bodies (transitively nested) of a function"""
        return self._closures.get(path, [])

    def impls_of(self, trait_suffix):
        return [i for i in self.impls if i.get('trait', '').endswith(trait_suffix)]

    def n_bodies(self):
        return len(self.order)


def load(dirpath):
    with open(os.path.join(dirpath, 'lib.json')) as f:
        d_lib = json.load(f)
    with open(os.path.join(dirpath, 'bin.json')) as f:
        raw = f.read()
    # the binary sees library items under their visible (re-export) paths; map them to the real
    # definition paths the library facts use
    i = raw.rfind('"aliases":')
    if i > 0:
        try:
            aliases = json.loads(raw[i + len('"aliases":'):raw.rindex('}')])
        except ValueError:
            aliases = []
        amap = {}
        for vis, real in aliases:
            if vis != real and not real.startswith(vis + '::'):
                amap[vis] = real
        if amap:
            head = raw[:i]
            rx = re.compile('(?<![A-Za-z0-9_:])(' + '|'.join(re.escape(k) for k in sorted(amap, key=len, reverse=True)) + r')(?![A-Za-z0-9_])')
            head = rx.sub(lambda m: amap[m.group(1)], head)
            raw = head + raw[i:]
    d_bin = json.loads(raw)
    return Facts(d_lib, d_bin)
