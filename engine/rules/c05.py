"""C05 - lifecycle detection forwards every message once, in order, assigned (structural clauses).

Decided: L1 no loss, L2 no duplication, L7/Q1 FIFO-only queue API, Q2 exclusive hand-over (direct send
only when nothing is buffered, store otherwise), Q3 drain attempt after every un-buffering, A1 every
forwarded/stored message passed Lifecycle::new/update which must-write `lifecycle`, E1 the stage writes
nothing but `lifecycle`.  Not decided: that the id denotes a lifecycle of the message's own ECU."""
import re
import own, lin, effects, guards, pairing
from cfg import CFG
from expr import ExprBuilder, show
from paths import Explorer
from facts import Operand, Place
import lcstage

LEVEL = 'proof'
EXPLANATION = ('All normal CFG paths of the lifecycle stage (331 blocks) are explored with drop-flag/variant propagation; linearity, queue discipline, '
               'hand-over exclusivity, drain-after-unbuffer and assignment are typestate/dominance facts on those paths.')
ASSUMPTIONS = [
    'decides structural clauses only: that the assigned id belongs to a lifecycle of the message ECU (a data relation through ecu_map) is NOT decided',
    'in-order delivery rests on the data invariant "nothing buffered => queue empty"; only its structural half (Q2 + Q3) is decided',
    'VecDeque/mpsc from std keep FIFO order (trusted); unwinding paths are outside the rule',
]
MANIFEST = {'text': 'proof (all normal paths of the stage) of: no message-carrying value dropped un-drained, no clone, FIFO-only queue API, direct send and store on opposite edges of the '
                    'buffered-lifecycles test, a queue-drain test after every un-buffering, every message passes Lifecycle::new/update (which store `lifecycle` on every path) before it '
                    'is sent or queued, and the stage writes no other message field.'
                    ' Added: inside the receive loop a message leaves the queue only where its lifecycle is known not to be buffered. Added: a held-back lifecycle is un-buffered during a scan over the lifecycles only by conditions on time quantities of that lifecycle (the merge logic asserts that confirmation is monotone). Added: own ECU - every keyed access to the ECU -> lifecycles map uses the .ecu field of the message / lifecycle being filed, and Lifecycle::new copies its message\'s ECU. Added: a possibly confirmed lifecycle is merged away only behind the exact count `queued messages of it (+1) == nr_msgs` (shared with C07 P7); bulk removals from the queue inside the receive loop only with nothing buffered. Added: a lifecycle leaves the per-ECU working list only on a path that merged it away in the same pass of the receive loop.'}

QUEUE_OK = re.compile(r'::(with_capacity|new|push_back|pop_front|is_empty|len|iter|iter_mut|index|into_iter|front|capacity|get|back)$')


def run(F, chk):
    L1 = chk.rule('L1', 'no message-carrying value is dropped on a normal path of the lifecycle stage unless drained / consumer gone')
    L2 = chk.rule('L2', 'no clone of a message in the lifecycle stage')
    L7 = chk.rule('L7', 'no lossy container operation / unclassified consumer in the lifecycle stage')
    Q1 = chk.rule('Q1', 'the message queue is only used through FIFO-preserving methods')
    Q2 = chk.rule('Q2', 'direct send of the received message and its store into the queue are on opposite edges of one buffered_lcs.is_empty() test')
    Q3 = chk.rule('Q3', 'every path from an un-buffering (buffered_lcs.remove) to the next receive passes a drain decision (queue emptiness test or still-buffered test)')
    A1 = chk.rule('A1', 'every message passes Lifecycle::new/update before being sent or queued; both store `lifecycle` on every return path')
    E1 = chk.rule('E1', 'the stage (incl. closures, Lifecycle::new/update/merge) writes no DltMessage field other than `lifecycle`')
    P3 = chk.rule('P3', 'after every merge the whole queue and the current message are relabelled (no message keeps the id of an invalidated lifecycle)')
    stages = lcstage.find_stage(F)
    L1.floor('lifecycle stage functions (anchor: evmap::WriteHandle + Receiver<DltMessage> params)', len(stages), 1)
    for b in stages:
        res = lin.run_linearity(b, own.OwnSpec(), L1, L2, L7, min_recv=2, min_send=3, min_store=1, F=F)
        for cl in F.closures_of(b.path):
            if any(l['cm'] for l in cl.locals):
                lin.run_linearity(cl, own.OwnSpec(), L1, L2, L7, F=F)
        st = lcstage.Stage(F, b)
        check_queue_api(b, Q1)
        check_handover(st, Q2)
        check_drain(st, Q3)
        check_assigned(F, st, A1)
        effects.check_may_write(F, E1, b.path, {'lifecycle'}, what='the lifecycle stage')
        import c07
        c07.check_relabel(F, st, P3)
        Q5 = chk.rule('Q5', 'inside the receive loop a message leaves the queue only when its lifecycle is known not to be buffered (is_empty / !contains / equal to a just confirmed id)')
        check_queue_release(st, Q5)
        P7 = chk.rule('P7', 'a possibly confirmed (partly forwarded) lifecycle is merged away only when all of its messages are still queued (queued count == nr_msgs): forwarded messages never keep an id that no longer denotes a lifecycle (shared with C07)')
        c07.check_merge_needs_all_queued(st, P7)
        A3 = chk.rule('A3', 'a lifecycle leaves the per-ECU working list only on a path that merged it away in this pass of the receive loop (every publication looks lifecycles up in that list: one dropped from it while unconfirmed is never published although its messages are delivered)')
        check_lifecycle_removal(F, st, A3)
        A2 = chk.rule('A2', 'own ECU: every keyed access to the ECU -> lifecycles map uses the `.ecu` field of the very message (or table lifecycle) being filed; inside the receive loop that is the received message handed to Lifecycle::new/update')
        check_own_ecu(F, st, A2)
        Q6 = chk.rule('Q6', 'a held-back lifecycle is confirmed (un-buffered while scanning the lifecycles) by time quantities only - the merge logic relies on that')
        check_confirm_criteria(st, Q6)


ECU_MAP = re.compile(r'^(&mut |&)?std::collections::HashMap<adlt::dlt::DltChar4, std::vec::Vec<adlt::lifecycle::Lifecycle>')
KEYED = re.compile(r'::(entry|get|get_mut|insert|remove|remove_entry|contains_key|get_key_value|try_insert|get_or_insert_with|raw_entry_mut|entry_ref)$')


LC_LIST_REMOVE = re.compile(r'::(remove|pop|truncate|retain|retain_mut|drain|clear|swap_remove|split_off|dedup_by|dedup_by_key|pop_if)$')


def check_lifecycle_removal(F, st, A3):
    """"an id that denotes a lifecycle": the detector publishes lifecycles from its per-ECU lists (confirmation scan, regular
    refresh, end of stream).  The only legitimate way out of such a list is the merge into the previous lifecycle (whose id the
    messages are relabelled to).  Any other removal - a cap on the list length, an age limit - can hit a lifecycle that is
    still unconfirmed or has a refresh pending: it is then never (re)published, but its messages still carry its id."""
    from paths import Explorer
    body, cfg = st.body, st.cfg
    A3.fn(body.path)
    merges = set(st.blocks_with('MERGE'))
    recvs = set(st.blocks_with('RECV_IN'))
    sites = []
    for blk in body.calls():
        t = blk.term
        if t.args and re.match(r'^&mut std::vec::Vec<adlt::lifecycle::Lifecycle', t.args[0].ty or '') and LC_LIST_REMOVE.search(t.callee.path):
            sites.append(blk.i)
    A3.floor('removals from a per-ECU lifecycle list', len(sites), 1)

    def block_effect(blk, facts):
        if blk.i in recvs:
            facts = frozenset(f for f in facts if f != ('merged',))
        if blk.i in merges:
            facts = frozenset(facts | {('merged',)})
        return facts
    ex = Explorer(cfg, block_effect=block_effect, var_roots=set())
    ex.run()
    A3.paths += ex.n_states
    for bi in sites:
        A3.sites += 1
        states = ex.states.get(bi, set())
        bad = [s_ for s_ in states if ('merged',) not in s_[1]]
        where = body.loc(body.blocks[bi].term.sp)
        if bad:
            A3.violation(('lifecycle-dropped-without-merge', body.path, body.blocks[bi].term.callee.path.split('::')[-1]), 'a lifecycle is removed from its per-ECU list at %s on a path that did not merge it in this pass: if it is still unconfirmed (or a refresh is pending) '
                         'it is never published, while its messages are delivered with its id' % where, where=where, witness={'block_path': ex.witness(bi, bad[0])[-40:]})
        else:
            A3.ok(sample={'removal_at': where, 'only_after': 'Lifecycle::merge in the same pass', 'states': len(states)})


def check_own_ecu(F, st, A2):
    """"an id that denotes a lifecycle of its own ECU": the lifecycle lists are held per ECU; a message is matched against the
    list found under a key.  That key must be the message's own `ecu` field - a remembered ECU of an earlier message, a
    default, or the ECU of another map entry files the message under a foreign ECU and Lifecycle::update labels it with that
    ECU's lifecycle.  (The stage writes no message field but `lifecycle` (E1), so a copy of msg.ecu stays the message's ECU.)"""
    from cfg import CFG
    from facts import Operand
    b = st.body
    A2.fn(b.path)

    def key_origin(cfg, body, op, depth=0):
        pl = cfg.origin_of_operand(op)
        if pl is None:
            return None
        if pl.p and pl.p[-1]['k'] == 'f' and pl.p[-1].get('n') == 'ecu':
            return pl
        if depth < 6:
            sd = cfg.single_def(pl.l)
            if not pl.p and sd is not None and sd[1] != 'call' and sd[2].rv['k'] in ('use', 'cast'):
                o = Operand(sd[2].rv['o'])
                if o.place is not None:
                    return key_origin(cfg, body, o, depth + 1)
            # `let (id, ecu) = (m.lifecycle, m.ecu)`: component of a tuple temporary
            if sd is not None and sd[1] != 'call' and sd[2].rv['k'] == 'agg' and sd[2].rv.get('ak') == 'tuple' and len(pl.p) == 1 and pl.p[0]['k'] == 'f' and pl.p[0]['i'] < len(sd[2].rv['ops']):
                o = Operand(sd[2].rv['ops'][pl.p[0]['i']])
                if o.place is not None:
                    return key_origin(cfg, body, o, depth + 1)
        return pl

    n = 0
    for body in [b] + list(F.closures_of(b.path)):
        cfg = CFG(body)
        loops = cfg.loops() if body is b else {}
        labelled = set()
        for blk in body.calls():
            t = blk.term
            if re.search(r'lifecycle::Lifecycle::(new|update)$', t.callee.path):
                for a in t.args:
                    if 'DltMessage' in (a.ty or '') and a.place is not None:
                        o = cfg.origin_of_operand(a)
                        if o is not None:
                            labelled.add(o.l)
        for blk in body.calls():
            t = blk.term
            if not t.args or not ECU_MAP.match(t.args[0].ty or '') or not KEYED.search(t.callee.path) or len(t.args) < 2:
                continue
            n += 1
            A2.sites += 1
            pl = key_origin(cfg, body, t.args[1]) if t.args[1].place is not None else None
            last = pl.p[-1] if pl is not None and pl.p else None
            what = t.callee.path.split('::')[-1]
            if last is None or last['k'] != 'f' or last.get('n') != 'ecu' or last.get('o') not in ('adlt::dlt::DltMessage', 'adlt::lifecycle::Lifecycle'):
                kd = (body.name_of(pl.l) or '_%d' % pl.l) if pl is not None else 'a constant'
                A2.violation(('ecu-key-not-own', body.path, what), 'the ECU -> lifecycles map is accessed (%s) at %s with key `%s`, which is not the `.ecu` field of the message / lifecycle being filed: '
                             'a message can be matched against (and labelled with) the lifecycles of another ECU' % (what, body.loc(t.sp), kd), where=body.loc(t.sp))
                continue
            in_loop = any(blk.i in lb for lb in loops.values())
            if in_loop and labelled and last.get('o') == 'adlt::dlt::DltMessage' and pl.l not in labelled and what in ('entry', 'get_mut'):
                A2.violation(('ecu-key-not-own', body.path, what), 'inside the receive loop the ECU -> lifecycles map is accessed (%s) at %s with the ecu of `%s`, not of the message that is then labelled' %
                             (what, body.loc(t.sp), body.name_of(pl.l) or '_%d' % pl.l), where=body.loc(t.sp))
                continue
            A2.ok(sample={'map_access': what, 'at': body.loc(t.sp), 'key': '%s.ecu (%s)' % (body.name_of(pl.l) or '_%d' % pl.l, last.get('o').split('::')[-1])})
    A2.floor('keyed accesses to the ECU map', n, 3)
    # the lifecycle created for a message carries that message's ECU
    m = 0
    for nb in F.order:
        if not re.search(r'lifecycle::Lifecycle::new$', nb.path) or nb.crate != 'lib':
            continue
        cfg = CFG(nb)
        A2.fn(nb.path)
        for blk in nb.blocks:
            if blk.cleanup:
                continue
            for s_ in blk.stmts:
                if s_.k == 'assign' and s_.rv['k'] == 'agg' and s_.rv.get('adt') == 'adlt::lifecycle::Lifecycle' and 'ecu' in s_.rv.get('fields', []):
                    m += 1
                    A2.sites += 1
                    o = Operand(s_.rv['ops'][s_.rv['fields'].index('ecu')])
                    pl = key_origin(cfg, nb, o) if o.place is not None else None
                    last = pl.p[-1] if pl is not None and pl.p else None
                    if last is not None and last['k'] == 'f' and last.get('n') == 'ecu' and last.get('o') == 'adlt::dlt::DltMessage' and pl.l <= nb.arg_count:
                        A2.ok(sample={'constructor': nb.path, 'ecu': 'msg.ecu'})
                    else:
                        A2.violation(('new-lifecycle-ecu-not-own', nb.path), 'Lifecycle::new fills the `ecu` of the new lifecycle at %s from something else than the `.ecu` field of its message argument' % nb.loc(s_.sp), where=nb.loc(s_.sp))
    A2.floor('Lifecycle constructions in Lifecycle::new', m, 1)


def check_queue_api(body, Q1):
    Q1.fn(body.path)
    n = 0
    for blk in body.calls():
        t = blk.term
        if not t.args:
            continue
        a0 = t.args[0].ty or ''
        if re.match(r'^(&mut |&)?std::collections::VecDeque<adlt::dlt::DltMessage>', a0):
            n += 1
            Q1.sites += 1
            p = t.callee.path
            if QUEUE_OK.search(p) or p in ('std::iter::IntoIterator::into_iter', 'std::ops::Index::index'):
                Q1.ok(sample={'function': body.path, 'queue_call': p})
            else:
                Q1.violation(('queue-api', body.path, p), 'the message queue is used through %s which is not FIFO-preserving (allowed: push_back, pop_front, is_empty, len, iter, iter_mut, index, into_iter)' % p,
                             where=body.loc(t.sp))
    Q1.floor('calls on the message queue in ' + body.path, n, 8)


def is_lcs_empty_test(e):
    return isinstance(e, tuple) and e[0] == 'call' and e[1].endswith('HashSet::<T, S>::is_empty') or \
        (isinstance(e, tuple) and e[0] == 'call' and re.search(r'HashSet::<[^>]*>::is_empty$', e[1]) is not None)


def check_handover(st, Q2):
    body, cfg, E = st.body, st.cfg, st.E
    Q2.fn(body.path)
    stores = st.blocks_with('STORE')
    direct = [bi for bi in st.blocks_with('SEND') if st.info[bi].get('src') == 'direct']
    Q2.floor('store sites of the received message', len(stores), 1)
    Q2.floor('direct send sites of the received message', len(direct), 1)
    tests_store = set()
    tests_send = set()
    for bi in stores:
        ks = [(e, t, D) for (e, t, D) in guards.known(cfg, E, bi) if is_lcs_empty_test(e)]
        good = [D for (e, t, D) in ks if t is False]
        if good:
            tests_store |= set(good)
            Q2.ok(sample={'store_block': bi, 'guard': 'buffered_lcs.is_empty() == false'})
        else:
            Q2.violation(('store-unguarded', body.path), 'the received message is queued without a dominating `!buffered_lcs.is_empty()` test', where=body.loc(body.blocks[bi].term.sp))
    for bi in direct:
        ks = [(e, t, D) for (e, t, D) in guards.known(cfg, E, bi) if is_lcs_empty_test(e)]
        good = [D for (e, t, D) in ks if t is True]
        if good:
            tests_send |= set(good)
            Q2.ok(sample={'direct_send_block': bi, 'guard': 'buffered_lcs.is_empty() == true'})
        else:
            Q2.violation(('send-unguarded', body.path), 'the received message is sent directly without a dominating `buffered_lcs.is_empty()` test (it could overtake queued messages)',
                         where=body.loc(body.blocks[bi].term.sp))
    if stores and direct:
        if tests_store & tests_send:
            Q2.ok(sample={'same_test_block': sorted(tests_store & tests_send)})
        else:
            Q2.violation(('different-tests', body.path), 'store and direct send of the received message are not decided by the same buffered_lcs.is_empty() test', where=body.loc(None))


def check_drain(st, Q3):
    body, cfg = st.body, st.cfg
    Q3.fn(body.path)
    removes = set(st.blocks_with('LCS_REMOVE'))
    qtests = set(st.blocks_with('Q_IS_EMPTY'))
    lcs_tests = set(st.blocks_with('LCS_IS_EMPTY'))
    recvs = set(st.blocks_with('RECV_IN'))
    Q3.floor('un-buffering sites (buffered_lcs.remove)', len(removes), 3)
    Q3.floor('queue emptiness tests', len(qtests), 2)

    def block_effect(b, facts):
        if b.i in removes:
            facts = frozenset(facts | {('need_drain', b.i)})
        if b.i in qtests:
            facts = frozenset(f for f in facts if f[0] != 'need_drain')
        return facts

    def edge_effect(b, tgt, facts):
        # false edge of buffered_lcs.is_empty(): something is still buffered, no drain possible
        if b.term.k == 'switch' and any(f[0] == 'need_drain' for f in facts):
            from facts import Operand
            d = Operand(b.term.d['d'])
            if d.place is not None and d.place.is_local:
                sd = cfg.single_def(d.place.l)
                if sd is not None and sd[1] == 'call' and sd[0] in lcs_tests:
                    for v, t in b.term.d['vals']:
                        if v == 0 and t == tgt:
                            return frozenset(f for f in facts if f[0] != 'need_drain')
        return facts
    ex = Explorer(cfg, block_effect=block_effect, edge_effect=edge_effect, var_roots=set())
    ex.run()
    Q3.paths += ex.n_states
    bad = {}
    for rb in list(recvs) + cfg.exits:
        for s in ex.states.get(rb, ()):
            for f in s[1]:
                if f[0] == 'need_drain':
                    bad.setdefault(f[1], (rb, s))
    for r in sorted(removes):
        if r in bad:
            rb, s = bad[r]
            Q3.violation(('no-drain-after-unbuffer', body.path, 'site%d' % sorted(removes).index(r)),
                         'after buffered_lcs.remove at %s the next receive can be reached without any drain decision (queued messages could be overtaken or stay queued)' % body.loc(body.blocks[r].term.sp),
                         where=body.loc(body.blocks[r].term.sp), witness={'block_path': ex.witness(rb, s)[-50:]})
        else:
            Q3.ok(sample={'unbuffer_at': body.loc(body.blocks[r].term.sp), 'followed_by': 'queue emptiness / still-buffered test on all paths'})


def check_assigned(F, st, A1):
    body, cfg = st.body, st.cfg
    A1.fn(body.path)
    assign = set(st.blocks_with('LC_UPDATE')) | set(st.blocks_with('LC_NEW'))
    recvs = set(st.blocks_with('RECV_IN'))
    sinks = [bi for bi in st.blocks_with('STORE')] + [bi for bi in st.blocks_with('SEND') if st.info[bi].get('src') == 'direct']
    A1.floor('Lifecycle::new/update call sites in the stage', len(assign), 2)

    def block_effect(b, facts):
        if b.i in recvs:
            facts = frozenset(f for f in facts if f != ('assigned',))
        if b.i in assign:
            facts = frozenset(facts | {('assigned',)})
        return facts
    ex = Explorer(cfg, block_effect=block_effect, var_roots=set())
    ex.run()
    A1.paths += ex.n_states
    for bi in sinks:
        bad = [s for s in ex.states.get(bi, ()) if ('assigned',) not in s[1]]
        if bad:
            A1.violation(('unassigned', body.path, st.ev[bi][0]), 'the received message can reach %s without having passed Lifecycle::new/update' % st.ev[bi][0],
                         where=body.loc(body.blocks[bi].term.sp), witness={'block_path': ex.witness(bi, bad[0])[-50:]})
        else:
            A1.ok(sample={'sink': st.ev[bi][0], 'at': body.loc(body.blocks[bi].term.sp), 'assigned_on_all_paths': True})
    # must-write in Lifecycle::new / update
    for name in ('adlt::lifecycle::Lifecycle::new', 'adlt::lifecycle::Lifecycle::update'):
        lb = F.get(name)
        if lb is None:
            A1.violation(('anchor-lost', name), 'function %s not found' % name)
            continue
        A1.fn(name)
        c2 = CFG(lb)
        writes = set()
        for b in lb.blocks:
            if b.cleanup:
                continue
            for s in b.stmts:
                if s.k == 'assign' and effects.field_path(s.place) == 'lifecycle':
                    writes.add(b.i)
            if b.term.k == 'call' and b.term.callee.path == 'adlt::lifecycle::Lifecycle::new':
                writes.add(b.i)
        reach = c2.reachable_from(0, avoid=writes)
        esc = [e for e in c2.exits if e in reach]
        A1.sites += len(writes)
        if writes and not esc:
            A1.ok(sample={'function': name, 'lifecycle_store_or_new_sites': len(writes), 'must_write': True})
        else:
            A1.violation(('no-must-write', name), '%s can return without storing msg.lifecycle (or delegating to Lifecycle::new)' % name, where=lb.loc(None))


# ---------------------------------------------------------------------------------------------
# Q5: a queued message leaves the queue only when its lifecycle is known not to be buffered

def check_queue_release(st, Q5):
    """Every pop_front of the message queue inside the receive loop (the final flush after end-of-input publishes everything
    first and is decided by C06 T3) must be justified by what is known at that point:
      (a) buffered_lcs.is_empty()                         - nothing is unconfirmed, or
      (b) !buffered_lcs.contains(<id of the front msg>)   - this message's lifecycle is confirmed, or
      (c) <id of the front msg> == P  where every definition of the local P is the id of a lifecycle that was just removed
          from buffered_lcs (defined behind an un-buffering) or a value for which (b) held when it was stored.
    Otherwise a message of a still unconfirmed lifecycle is forwarded: after a later merge it carries an id that denotes no
    lifecycle, and it is delivered before its lifecycle is published."""
    body, cfg, E = st.body, st.cfg, st.E
    EF = ExprBuilder(cfg, fold_named=True)
    Q5.fn(body.path)
    pops = sorted(st.blocks_with('POP'))
    removes = set(st.blocks_with('LCS_REMOVE'))
    recvs = set(st.blocks_with('RECV_IN'))
    loops = cfg.loops()
    recv_loop = None
    for hd, lb in loops.items():
        if recvs & lb and (recv_loop is None or len(lb) > len(recv_loop)):
            recv_loop = lb
    Q5.floor('pop_front sites of the message queue', len(pops), 2)

    def facts_at(bi):
        out = []
        for (c, truth, D) in guards.known(cfg, E, bi):
            if isinstance(c, tuple) and c[0] == 'call':
                out.append((c[1].split('::')[-1], show(c), truth))
            elif isinstance(c, tuple) and c[0] == 'bin' and c[1] in ('Eq', 'Ne'):
                out.append((c[1], c, truth))
        return out

    def not_buffered_known(bi):
        for (kind, c, truth) in facts_at(bi):
            if kind == 'is_empty' and 'HashSet' in c and truth is True:
                return 'buffered_lcs.is_empty()'
            if kind == 'contains' and 'HashSet' in c and truth is False:
                return '!buffered_lcs.contains(..)'
        return None

    def local_justified(name):
        ls = body.locals_named(name)
        if len(ls) != 1:
            return None
        ds = cfg.defs.get(ls[0], [])
        if not ds:
            return None
        for (bi, si, d) in ds:
            if si == 'call':
                return None
            if not_buffered_known(bi):
                continue
            # defined behind an un-buffering of a lifecycle: some LCS_REMOVE block dominates the definition
            if any(cfg.dominates(r, bi) for r in removes) and ('.id' in show(E.rvalue(d.rv)) or '.id' in show(EF.rvalue(d.rv))):
                continue
            return None
        return 'every definition of `%s` is the id of a lifecycle just removed from buffered_lcs or of a lifecycle tested as not buffered' % name

    # bulk removals (drain / clear / ..) inside the receive loop release (or lose) whatever is queued: only with nothing buffered
    for bi in sorted(st.blocks_with('POPX')):
        if recv_loop is None or bi not in recv_loop:
            continue
        Q5.sites += 1
        why = not_buffered_known(bi)
        if why == 'buffered_lcs.is_empty()':
            Q5.ok(sample={'bulk_release_at': body.loc(body.blocks[bi].term.sp), 'justified_by': why})
        else:
            Q5.violation(('queue-bulk-release-while-buffered', body.path, st.info[bi].get('what')), 'inside the receive loop the message queue is emptied in bulk (%s) at %s without `buffered_lcs.is_empty()` being known: '
                         'messages of still unconfirmed (unpublished) lifecycles leave the queue' % (st.info[bi].get('what'), body.loc(body.blocks[bi].term.sp)), where=body.loc(body.blocks[bi].term.sp))
    # path-sensitive: the justification may sit on a branch that joins before the pop (`let site = if id == prune {1} else if
    # !contains(id) {2} else {break}; pop`): explore with one fact that the justifying *edges* set and every pop / receive clears
    from paths import Explorer
    from facts import Operand as _Op

    def edge_just(b2, tgt):
        if b2.term.k != 'switch':
            return None
        c = E.switch_cond(b2)
        vals = b2.term.d['vals']
        edge_true = None
        for v, t in vals:
            if t == tgt:
                edge_true = (v != 0)
        if edge_true is None and b2.term.d['otherwise'] == tgt and all(v == 0 for v, _ in vals):
            edge_true = True
        if edge_true is None:
            return None
        c2, t2 = guards.normalise(c, edge_true)
        if isinstance(c2, tuple) and c2[0] == 'call' and 'HashSet' in show(c2):
            nm = c2[1].split('::')[-1]
            if nm == 'is_empty' and t2 is True:
                return 'buffered_lcs.is_empty()'
            if nm == 'contains' and t2 is False:
                return '!buffered_lcs.contains(..)'
        if isinstance(c2, tuple) and c2[0] == 'bin' and c2[1] == 'Eq' and t2 is True:
            for side in (c2[2], c2[3]):
                if isinstance(side, tuple) and side[0] == 'place' and len(side) == 2:
                    jj = local_justified(side[1])
                    if jj:
                        return jj
        return None
    popset = set(pops)

    def block_effect(b2, facts):
        return facts

    inserts = set(st.blocks_with('LCS_INSERT'))

    def edge_effect(b2, tgt, facts):
        # knowledge about the front message dies with the pop (another message is in front then); the knowledge that nothing
        # is buffered lives until something is inserted into buffered_lcs
        if b2.i in popset or b2.i in recvs:
            facts = frozenset(f for f in facts if f[0] != 'just')
        if b2.i in inserts:
            facts = frozenset(f for f in facts if f[0] != 'none_buffered')
        why_ = edge_just(b2, tgt)
        if why_ == 'buffered_lcs.is_empty()':
            facts = frozenset(facts | {('none_buffered',)})
        elif why_:
            facts = frozenset([f for f in facts if f[0] != 'just'] + [('just', why_)])
        return facts
    ex = Explorer(cfg, block_effect=block_effect, edge_effect=edge_effect, var_roots=set())
    ex.run()
    Q5.paths += ex.n_states
    for p in pops:
        if recv_loop is not None and p not in recv_loop:
            continue     # final flush
        Q5.sites += 1
        sts = ex.states.get(p, ())
        bad = [st for st in sts if not any(f[0] in ('just', 'none_buffered') for f in st[1])]
        why = None
        if sts and not bad:
            ws = sorted(set(f[1] for st in sts for f in st[1] if f[0] == 'just'))
            why = ws[0] if ws else 'buffered_lcs.is_empty() (nothing inserted since)'
        if why:
            Q5.ok(sample={'pop_at': body.loc(body.blocks[p].term.sp), 'justified_by': why, 'path_states': len(sts)})
        else:
            Q5.violation(('queue-release-unjustified', body.path, 'site%d' % pops.index(p)),
                         'a message is taken out of the queue at %s (and forwarded) although, on some path, nothing shows that its lifecycle is no longer buffered '
                         '(no buffered_lcs.is_empty(), no !buffered_lcs.contains(id), no equality with the id of a just confirmed lifecycle since the previous pop)' % body.loc(body.blocks[p].term.sp),
                         where=body.loc(body.blocks[p].term.sp), witness={'block_path': ex.witness(p, bad[0])[-40:]} if bad else None)



# ---------------------------------------------------------------------------------------------
# Q6: confirmation is decided by times only

TIME_FIELDS = {'id', 'ecu', 'start_time', 'initial_start_time', 'min_timestamp_us', 'max_timestamp_us', 'last_reception_time', 'resume_lc'}
TIME_METHODS = {'end_time', 'is_resume', 'resume_start_time', 'resume_time'}


def check_confirm_criteria(st, Q6):
    """The merge code states a belief (`assert!(buffered_lcs.contains(&lc2.id))` when the previous lifecycle is still held back):
    a newer lifecycle of an ECU is never confirmed before an older one.  That follows from the confirmation criteria being
    monotone in time (start before the horizon, span longer than the maximum delay, end older than the maximum delay).  A
    criterion on anything else (message counts, ids, ..) can confirm the newest lifecycle first; the next merge then
    panics and nothing queued is ever forwarded.  Rule: in the loops that scan the lifecycles of an ECU and un-buffer one,
    the conditions that control the un-buffering read only time fields / time methods of the scanned lifecycle."""
    body, cfg = st.body, st.cfg
    E = ExprBuilder(cfg, fold_named=True)
    Q6.fn(body.path)
    loops = cfg.loops()
    n = 0
    for r in sorted(st.blocks_with('LCS_REMOVE')):
        inner = None
        for h, lb in sorted(loops.items(), key=lambda kv: len(kv[1])):
            if r in lb:
                inner = (h, lb)
                break
        if inner is None:
            continue
        h, lb = inner
        # the loop scans lifecycles: the iterator that drives it (its None edge leaves the loop) yields `&Lifecycle` items
        elem = None
        for x in lb:
            t = body.blocks[x].term
            if t.k == 'call' and t.callee.path == 'std::iter::Iterator::next' and 'adlt::lifecycle::Lifecycle' in (t.dest.t or '') and 'DltMessage' not in (t.dest.t or '') and t.dest.is_local:
                nxt = t.d.get('t')
                if nxt is None or not any(s_ not in lb for s_ in cfg.succ[nxt]):
                    continue
                for y in lb:
                    for s_ in body.blocks[y].stmts:
                        if s_.k == 'assign' and s_.place.is_local and body.name_of(s_.place.l) and s_.rv['k'] == 'use':
                            o_ = Operand(s_.rv['o'])
                            if o_.place is not None and o_.place.l == t.dest.l and [e_['k'] for e_ in o_.place.p] == ['dc', 'f']:
                                elem = body.name_of(s_.place.l)
        if elem is None:
            continue
        n += 1
        Q6.sites += 1
        bad = set()
        seen_f = set()
        E0 = ExprBuilder(cfg)
        for x in sorted(lb):
            blk = body.blocks[x]
            if blk.term.k != 'switch' or cfg.dominates(r, x):
                continue
            if r not in cfg.reachable_from(x, avoid={h}):
                continue
            sc = show(E0.switch_cond(blk))
            for m in re.finditer(r'\(\*%s\)\.(\w+)' % re.escape(elem), sc):
                seen_f.add(m.group(1))
                if m.group(1) not in TIME_FIELDS:
                    bad.add(m.group(1))
            for m in re.finditer(r'Lifecycle::(\w+)\(&?\(?\*?%s\b' % re.escape(elem), sc):
                seen_f.add(m.group(1) + '()')
                if m.group(1) not in TIME_METHODS:
                    bad.add(m.group(1) + '()')
        if bad:
            Q6.violation(('confirm-criterion-not-time', body.path, ','.join(sorted(bad))), 'a held-back lifecycle can be confirmed (buffered_lcs.remove at %s) depending on %s of the scanned lifecycle, which is not a time quantity: '
                         'a newer lifecycle can then be confirmed before an older one of the same ECU - the merge logic asserts the opposite, panics, and queued messages are never forwarded' %
                         (body.loc(body.blocks[r].term.sp), ', '.join(sorted(bad))), where=body.loc(body.blocks[r].term.sp))
        else:
            Q6.ok(sample={'unbuffer_at': body.loc(body.blocks[r].term.sp), 'lifecycle_quantities_in_its_conditions': sorted(seen_f)})
    Q6.floor('un-buffering sites inside a scan over lifecycles', n, 1)
