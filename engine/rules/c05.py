"""C05 - lifecycle detection forwards every message once, in order, assigned (structural clauses).

Decided: L1 no loss, L2 no duplication, L7/Q1 FIFO-only queue API, Q2 exclusive hand-over (direct send
only when nothing is buffered, store otherwise), Q3 drain attempt after every un-buffering, A1 every
forwarded/stored message passed Lifecycle::new/update which must-write `lifecycle`, E1 the stage writes
nothing but `lifecycle`.  Not decided: that the id denotes a lifecycle of the message's own ECU."""
import re
import own, lin, effects, guards, pairing
from cfg import CFG
from expr import ExprBuilder, show
from paths import Explorer
from facts import Operand, Place
import lcstage

LEVEL = 'proof'
EXPLANATION = ('All normal CFG paths of the lifecycle stage (331 blocks) are explored with drop-flag/variant propagation; linearity, queue discipline, '
               'hand-over exclusivity, drain-after-unbuffer and assignment are typestate/dominance facts on those paths.')
ASSUMPTIONS = [
    'decides structural clauses only: that the assigned id belongs to a lifecycle of the message ECU (a data relation through ecu_map) is NOT decided',
    'in-order delivery rests on the data invariant "nothing buffered => queue empty"; only its structural half (Q2 + Q3) is decided',
    'VecDeque/mpsc from std keep FIFO order (trusted); unwinding paths are outside the rule',
]
MANIFEST = {'text': 'proof (all normal paths of the stage) of: no message-carrying value dropped un-drained, no clone, FIFO-only queue API, direct send and store on opposite edges of the '
                    'buffered-lifecycles test, a queue-drain test after every un-buffering, every message passes Lifecycle::new/update (which store `lifecycle` on every path) before it '
                    'is sent or queued, and the stage writes no other message field.'
                    ' Added: inside the receive loop a message leaves the queue only where its lifecycle is known not to be buffered.'}

QUEUE_OK = re.compile(r'::(with_capacity|new|push_back|pop_front|is_empty|len|iter|iter_mut|index|into_iter|front|capacity|get|back)$')


def run(F, chk):
    L1 = chk.rule('L1', 'no message-carrying value is dropped on a normal path of the lifecycle stage unless drained / consumer gone')
    L2 = chk.rule('L2', 'no clone of a message in the lifecycle stage')
    L7 = chk.rule('L7', 'no lossy container operation / unclassified consumer in the lifecycle stage')
    Q1 = chk.rule('Q1', 'the message queue is only used through FIFO-preserving methods')
    Q2 = chk.rule('Q2', 'direct send of the received message and its store into the queue are on opposite edges of one buffered_lcs.is_empty() test')
    Q3 = chk.rule('Q3', 'every path from an un-buffering (buffered_lcs.remove) to the next receive passes a drain decision (queue emptiness test or still-buffered test)')
    A1 = chk.rule('A1', 'every message passes Lifecycle::new/update before being sent or queued; both store `lifecycle` on every return path')
    E1 = chk.rule('E1', 'the stage (incl. closures, Lifecycle::new/update/merge) writes no DltMessage field other than `lifecycle`')
    P3 = chk.rule('P3', 'after every merge the whole queue and the current message are relabelled (no message keeps the id of an invalidated lifecycle)')
    stages = lcstage.find_stage(F)
    L1.floor('lifecycle stage functions (anchor: evmap::WriteHandle + Receiver<DltMessage> params)', len(stages), 1)
    for b in stages:
        res = lin.run_linearity(b, own.OwnSpec(), L1, L2, L7, min_recv=2, min_send=3, min_store=1, F=F)
        for cl in F.closures_of(b.path):
            if any(l['cm'] for l in cl.locals):
                lin.run_linearity(cl, own.OwnSpec(), L1, L2, L7, F=F)
        st = lcstage.Stage(F, b)
        check_queue_api(b, Q1)
        check_handover(st, Q2)
        check_drain(st, Q3)
        check_assigned(F, st, A1)
        effects.check_may_write(F, E1, b.path, {'lifecycle'}, what='the lifecycle stage')
        import c07
        c07.check_relabel(F, st, P3)
        Q5 = chk.rule('Q5', 'inside the receive loop a message leaves the queue only when its lifecycle is known not to be buffered (is_empty / !contains / equal to a just confirmed id)')
        check_queue_release(st, Q5)


def check_queue_api(body, Q1):
    Q1.fn(body.path)
    n = 0
    for blk in body.calls():
        t = blk.term
        if not t.args:
            continue
        a0 = t.args[0].ty or ''
        if re.match(r'^(&mut |&)?std::collections::VecDeque<adlt::dlt::DltMessage>', a0):
            n += 1
            Q1.sites += 1
            p = t.callee.path
            if QUEUE_OK.search(p) or p in ('std::iter::IntoIterator::into_iter', 'std::ops::Index::index'):
                Q1.ok(sample={'function': body.path, 'queue_call': p})
            else:
                Q1.violation(('queue-api', body.path, p), 'the message queue is used through %s which is not FIFO-preserving (allowed: push_back, pop_front, is_empty, len, iter, iter_mut, index, into_iter)' % p,
                             where=body.loc(t.sp))
    Q1.floor('calls on the message queue in ' + body.path, n, 8)


def is_lcs_empty_test(e):
    return isinstance(e, tuple) and e[0] == 'call' and e[1].endswith('HashSet::<T, S>::is_empty') or \
        (isinstance(e, tuple) and e[0] == 'call' and re.search(r'HashSet::<[^>]*>::is_empty$', e[1]) is not None)


def check_handover(st, Q2):
    body, cfg, E = st.body, st.cfg, st.E
    Q2.fn(body.path)
    stores = st.blocks_with('STORE')
    direct = [bi for bi in st.blocks_with('SEND') if st.info[bi].get('src') == 'direct']
    Q2.floor('store sites of the received message', len(stores), 1)
    Q2.floor('direct send sites of the received message', len(direct), 1)
    tests_store = set()
    tests_send = set()
    for bi in stores:
        ks = [(e, t, D) for (e, t, D) in guards.known(cfg, E, bi) if is_lcs_empty_test(e)]
        good = [D for (e, t, D) in ks if t is False]
        if good:
            tests_store |= set(good)
            Q2.ok(sample={'store_block': bi, 'guard': 'buffered_lcs.is_empty() == false'})
        else:
            Q2.violation(('store-unguarded', body.path), 'the received message is queued without a dominating `!buffered_lcs.is_empty()` test', where=body.loc(body.blocks[bi].term.sp))
    for bi in direct:
        ks = [(e, t, D) for (e, t, D) in guards.known(cfg, E, bi) if is_lcs_empty_test(e)]
        good = [D for (e, t, D) in ks if t is True]
        if good:
            tests_send |= set(good)
            Q2.ok(sample={'direct_send_block': bi, 'guard': 'buffered_lcs.is_empty() == true'})
        else:
            Q2.violation(('send-unguarded', body.path), 'the received message is sent directly without a dominating `buffered_lcs.is_empty()` test (it could overtake queued messages)',
                         where=body.loc(body.blocks[bi].term.sp))
    if stores and direct:
        if tests_store & tests_send:
            Q2.ok(sample={'same_test_block': sorted(tests_store & tests_send)})
        else:
            Q2.violation(('different-tests', body.path), 'store and direct send of the received message are not decided by the same buffered_lcs.is_empty() test', where=body.loc(None))


def check_drain(st, Q3):
    body, cfg = st.body, st.cfg
    Q3.fn(body.path)
    removes = set(st.blocks_with('LCS_REMOVE'))
    qtests = set(st.blocks_with('Q_IS_EMPTY'))
    lcs_tests = set(st.blocks_with('LCS_IS_EMPTY'))
    recvs = set(st.blocks_with('RECV_IN'))
    Q3.floor('un-buffering sites (buffered_lcs.remove)', len(removes), 3)
    Q3.floor('queue emptiness tests', len(qtests), 2)

    def block_effect(b, facts):
        if b.i in removes:
            facts = frozenset(facts | {('need_drain', b.i)})
        if b.i in qtests:
            facts = frozenset(f for f in facts if f[0] != 'need_drain')
        return facts

    def edge_effect(b, tgt, facts):
        # false edge of buffered_lcs.is_empty(): something is still buffered, no drain possible
        if b.term.k == 'switch' and any(f[0] == 'need_drain' for f in facts):
            from facts import Operand
            d = Operand(b.term.d['d'])
            if d.place is not None and d.place.is_local:
                sd = cfg.single_def(d.place.l)
                if sd is not None and sd[1] == 'call' and sd[0] in lcs_tests:
                    for v, t in b.term.d['vals']:
                        if v == 0 and t == tgt:
                            return frozenset(f for f in facts if f[0] != 'need_drain')
        return facts
    ex = Explorer(cfg, block_effect=block_effect, edge_effect=edge_effect, var_roots=set())
    ex.run()
    Q3.paths += ex.n_states
    bad = {}
    for rb in list(recvs) + cfg.exits:
        for s in ex.states.get(rb, ()):
            for f in s[1]:
                if f[0] == 'need_drain':
                    bad.setdefault(f[1], (rb, s))
    for r in sorted(removes):
        if r in bad:
            rb, s = bad[r]
            Q3.violation(('no-drain-after-unbuffer', body.path, 'site%d' % sorted(removes).index(r)),
                         'after buffered_lcs.remove at %s the next receive can be reached without any drain decision (queued messages could be overtaken or stay queued)' % body.loc(body.blocks[r].term.sp),
                         where=body.loc(body.blocks[r].term.sp), witness={'block_path': ex.witness(rb, s)[-50:]})
        else:
            Q3.ok(sample={'unbuffer_at': body.loc(body.blocks[r].term.sp), 'followed_by': 'queue emptiness / still-buffered test on all paths'})


def check_assigned(F, st, A1):
    body, cfg = st.body, st.cfg
    A1.fn(body.path)
    assign = set(st.blocks_with('LC_UPDATE')) | set(st.blocks_with('LC_NEW'))
    recvs = set(st.blocks_with('RECV_IN'))
    sinks = [bi for bi in st.blocks_with('STORE')] + [bi for bi in st.blocks_with('SEND') if st.info[bi].get('src') == 'direct']
    A1.floor('Lifecycle::new/update call sites in the stage', len(assign), 2)

    def block_effect(b, facts):
        if b.i in recvs:
            facts = frozenset(f for f in facts if f != ('assigned',))
        if b.i in assign:
            facts = frozenset(facts | {('assigned',)})
        return facts
    ex = Explorer(cfg, block_effect=block_effect, var_roots=set())
    ex.run()
    A1.paths += ex.n_states
    for bi in sinks:
        bad = [s for s in ex.states.get(bi, ()) if ('assigned',) not in s[1]]
        if bad:
            A1.violation(('unassigned', body.path, st.ev[bi][0]), 'the received message can reach %s without having passed Lifecycle::new/update' % st.ev[bi][0],
                         where=body.loc(body.blocks[bi].term.sp), witness={'block_path': ex.witness(bi, bad[0])[-50:]})
        else:
            A1.ok(sample={'sink': st.ev[bi][0], 'at': body.loc(body.blocks[bi].term.sp), 'assigned_on_all_paths': True})
    # must-write in Lifecycle::new / update
    for name in ('adlt::lifecycle::Lifecycle::new', 'adlt::lifecycle::Lifecycle::update'):
        lb = F.get(name)
        if lb is None:
            A1.violation(('anchor-lost', name), 'function %s not found' % name)
            continue
        A1.fn(name)
        c2 = CFG(lb)
        writes = set()
        for b in lb.blocks:
            if b.cleanup:
                continue
            for s in b.stmts:
                if s.k == 'assign' and effects.field_path(s.place) == 'lifecycle':
                    writes.add(b.i)
            if b.term.k == 'call' and b.term.callee.path == 'adlt::lifecycle::Lifecycle::new':
                writes.add(b.i)
        reach = c2.reachable_from(0, avoid=writes)
        esc = [e for e in c2.exits if e in reach]
        A1.sites += len(writes)
        if writes and not esc:
            A1.ok(sample={'function': name, 'lifecycle_store_or_new_sites': len(writes), 'must_write': True})
        else:
            A1.violation(('no-must-write', name), '%s can return without storing msg.lifecycle (or delegating to Lifecycle::new)' % name, where=lb.loc(None))


# ---------------------------------------------------------------------------------------------
# Q5: a queued message leaves the queue only when its lifecycle is known not to be buffered

def check_queue_release(st, Q5):
    """Every pop_front of the message queue inside the receive loop (the final flush after end-of-input publishes everything
    first and is decided by C06 T3) must be justified by what is known at that point:
      (a) buffered_lcs.is_empty()                         - nothing is unconfirmed, or
      (b) !buffered_lcs.contains(<id of the front msg>)   - this message's lifecycle is confirmed, or
      (c) <id of the front msg> == P  where every definition of the local P is the id of a lifecycle that was just removed
          from buffered_lcs (defined behind an un-buffering) or a value for which (b) held when it was stored.
    Otherwise a message of a still unconfirmed lifecycle is forwarded: after a later merge it carries an id that denotes no
    lifecycle, and it is delivered before its lifecycle is published."""
    body, cfg, E = st.body, st.cfg, st.E
    EF = ExprBuilder(cfg, fold_named=True)
    Q5.fn(body.path)
    pops = sorted(st.blocks_with('POP'))
    removes = set(st.blocks_with('LCS_REMOVE'))
    recvs = set(st.blocks_with('RECV_IN'))
    loops = cfg.loops()
    recv_loop = None
    for hd, lb in loops.items():
        if recvs & lb and (recv_loop is None or len(lb) > len(recv_loop)):
            recv_loop = lb
    Q5.floor('pop_front sites of the message queue', len(pops), 2)

    def facts_at(bi):
        out = []
        for (c, truth, D) in guards.known(cfg, E, bi):
            if isinstance(c, tuple) and c[0] == 'call':
                out.append((c[1].split('::')[-1], show(c), truth))
            elif isinstance(c, tuple) and c[0] == 'bin' and c[1] in ('Eq', 'Ne'):
                out.append((c[1], c, truth))
        return out

    def not_buffered_known(bi):
        for (kind, c, truth) in facts_at(bi):
            if kind == 'is_empty' and 'HashSet' in c and truth is True:
                return 'buffered_lcs.is_empty()'
            if kind == 'contains' and 'HashSet' in c and truth is False:
                return '!buffered_lcs.contains(..)'
        return None

    def local_justified(name):
        ls = body.locals_named(name)
        if len(ls) != 1:
            return None
        ds = cfg.defs.get(ls[0], [])
        if not ds:
            return None
        for (bi, si, d) in ds:
            if si == 'call':
                return None
            if not_buffered_known(bi):
                continue
            # defined behind an un-buffering of a lifecycle: some LCS_REMOVE block dominates the definition
            if any(cfg.dominates(r, bi) for r in removes) and ('.id' in show(E.rvalue(d.rv)) or '.id' in show(EF.rvalue(d.rv))):
                continue
            return None
        return 'every definition of `%s` is the id of a lifecycle just removed from buffered_lcs or of a lifecycle tested as not buffered' % name

    # path-sensitive: the justification may sit on a branch that joins before the pop (`let site = if id == prune {1} else if
    # !contains(id) {2} else {break}; pop`): explore with one fact that the justifying *edges* set and every pop / receive clears
    from paths import Explorer
    from facts import Operand as _Op

    def edge_just(b2, tgt):
        if b2.term.k != 'switch':
            return None
        c = E.switch_cond(b2)
        vals = b2.term.d['vals']
        edge_true = None
        for v, t in vals:
            if t == tgt:
                edge_true = (v != 0)
        if edge_true is None and b2.term.d['otherwise'] == tgt and all(v == 0 for v, _ in vals):
            edge_true = True
        if edge_true is None:
            return None
        c2, t2 = guards.normalise(c, edge_true)
        if isinstance(c2, tuple) and c2[0] == 'call' and 'HashSet' in show(c2):
            nm = c2[1].split('::')[-1]
            if nm == 'is_empty' and t2 is True:
                return 'buffered_lcs.is_empty()'
            if nm == 'contains' and t2 is False:
                return '!buffered_lcs.contains(..)'
        if isinstance(c2, tuple) and c2[0] == 'bin' and c2[1] == 'Eq' and t2 is True:
            for side in (c2[2], c2[3]):
                if isinstance(side, tuple) and side[0] == 'place' and len(side) == 2:
                    jj = local_justified(side[1])
                    if jj:
                        return jj
        return None
    popset = set(pops)

    def block_effect(b2, facts):
        return facts

    inserts = set(st.blocks_with('LCS_INSERT'))

    def edge_effect(b2, tgt, facts):
        # knowledge about the front message dies with the pop (another message is in front then); the knowledge that nothing
        # is buffered lives until something is inserted into buffered_lcs
        if b2.i in popset or b2.i in recvs:
            facts = frozenset(f for f in facts if f[0] != 'just')
        if b2.i in inserts:
            facts = frozenset(f for f in facts if f[0] != 'none_buffered')
        why_ = edge_just(b2, tgt)
        if why_ == 'buffered_lcs.is_empty()':
            facts = frozenset(facts | {('none_buffered',)})
        elif why_:
            facts = frozenset([f for f in facts if f[0] != 'just'] + [('just', why_)])
        return facts
    ex = Explorer(cfg, block_effect=block_effect, edge_effect=edge_effect, var_roots=set())
    ex.run()
    Q5.paths += ex.n_states
    for p in pops:
        if recv_loop is not None and p not in recv_loop:
            continue     # final flush
        Q5.sites += 1
        sts = ex.states.get(p, ())
        bad = [st for st in sts if not any(f[0] in ('just', 'none_buffered') for f in st[1])]
        why = None
        if sts and not bad:
            ws = sorted(set(f[1] for st in sts for f in st[1] if f[0] == 'just'))
            why = ws[0] if ws else 'buffered_lcs.is_empty() (nothing inserted since)'
        if why:
            Q5.ok(sample={'pop_at': body.loc(body.blocks[p].term.sp), 'justified_by': why, 'path_states': len(sts)})
        else:
            Q5.violation(('queue-release-unjustified', body.path, 'site%d' % pops.index(p)),
                         'a message is taken out of the queue at %s (and forwarded) although, on some path, nothing shows that its lifecycle is no longer buffered '
                         '(no buffered_lcs.is_empty(), no !buffered_lcs.contains(id), no equality with the id of a just confirmed lifecycle since the previous pop)' % body.loc(body.blocks[p].term.sp),
                         where=body.loc(body.blocks[p].term.sp), witness={'block_path': ex.witness(p, bad[0])[-40:]} if bad else None)

