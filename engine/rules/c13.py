"""C13 - bounded channels and slow consumers never lose or reorder messages (structural clauses).

Decided: S1 try_send is only called inside the blocking helper; S2 the helper: Full(m) => blocking
send of the returned value whose result is the function result, Disconnected(m) => Err(SendError(m)),
Ok only on the Ok edge of try_send, no drop of T; S3 every outflow closure given to a stage in the
binary is exactly the helper or a blocking send of its argument; S4 every stage inspects the result of
each send; S5 stages contain no other blocking/sleeping call than inflow receive, outflow call;
L1/L2/L7 linearity of all four stages (the Full edge is in the CFG although no test ever takes it).
Not decided: schedule independence as such, liveness under all pacings."""
import re
import own, lin, stages
from cfg import CFG
from expr import ExprBuilder, show, walk
from paths import Explorer, analyse_switches, find_flag_locals, place_key
from facts import Operand

LEVEL = 'proof'
EXPLANATION = ('Who-may-call for try_send, exhaustive case analysis of the blocking-send helper on its MIR, shape check of every outflow closure built in the binary, '
               'send-result inspection and linearity of all four stages on all normal paths.')
ASSUMPTIONS = [
    'std mpsc channels are FIFO and lossless, send blocks while full (library contract, trusted)',
    'decides structural clauses only: equality of delivered sequences across schedules follows from them plus the channel contract and is NOT checked as a statement about schedules',
    'termination when the consumer disappears is argued from S4/S5 (sends fail fast, nothing else blocks) and the producer closing its end',
]
MANIFEST = {'text': 'proof (all normal paths) of the structural conditions under which a full channel can only delay: try_send exists only in the helper, the helper re-sends the very value returned by '
                    'Full with a blocking send, every pipeline outflow in the binary is that helper or a blocking send, each stage inspects send results, contains no other blocking call, and is linear in messages.'
                    ' Added: the lifecycle stage queues a received message without a send attempt only while a lifecycle is unconfirmed (so a vanished consumer is noticed). Added: the lifecycle stage hands no message to the outflow while the table has unrefreshed updates, and publishes after every un-buffering before any outflow call (what the next stage reads from the table does not depend on the pacing; same discipline as C06 T1/T2/T4). Added: the remote close drains the pipeline output until Disconnected before it joins any stage thread (shared with C15 R3). Added: every refresh of the lifecycle table gets its own stamp (shared with C07 P9), so a consumer that follows the table while the stage waits on a full channel misses no publication. Added: the remote consumer hands every message it takes from the pipeline output to the per-message accounting before its next receive (no receive as a mere disconnect probe).'}

TRY_SEND = re.compile(r'::try_send$')
BLOCKING = re.compile(r'^(std::thread::sleep|std::thread::park\w*|std::thread::JoinHandle::<T>::join|std::sync::Condvar::\w+|std::sync::Mutex::<T>::lock|std::sync::Barrier::wait|'
                      r'std::sync::mpsc::Receiver::<T>::(recv_timeout|try_recv|recv_deadline)|std::thread::yield_now|std::sync::mpsc::SyncSender::<T>::try_send)$')
HELPER_SIG = ('T', '&std::sync::mpsc::SyncSender<T>')
SEND_OK = ('adlt::utils::sync_sender_send_delay_if_full', 'std::sync::mpsc::Sender::<T>::send', 'std::sync::mpsc::SyncSender::<T>::send')


def check_consumer_keeps_received(F, S11):
    """The channel and the blocking-send helper deliver every message once; the last receiver must not lose it again.  A
    `try_recv()` used to ask "has the sender hung up?" returns Ok(msg) whenever a message arrived in the meantime - matched only
    against Err(Disconnected) that message is dropped, and whether one is there is pure pacing."""
    from cfg import CFG
    from facts import Operand
    b = F.get('adlt_bin::remote::process_file_context')
    if b is None:
        S11.violation(('anchor-lost', 'process_file_context'), 'remote consumer process_file_context not found')
        return
    S11.fn(b.path)
    cfg = CFG(b)
    bodies = [b] + list(F.closures_of(b.path))
    recvs = []
    for blk in b.calls():
        p = blk.term.callee.path
        a0 = (blk.term.args[0].ty or '') if blk.term.args else ''
        if re.search(r'^std::sync::mpsc::Receiver::<T>::(recv|try_recv|recv_timeout|recv_deadline)$', p) and 'adlt::dlt::DltMessage' in a0:
            recvs.append((blk, 0))          # Result: Ok = 0
        elif p == 'std::iter::Iterator::next' and re.search(r'mpsc::(TryIter|Iter|IntoIter)<.*DltMessage', a0):
            recvs.append((blk, 1))          # Option: Some = 1
    S11.floor('receives from the pipeline output in the remote consumer', len(recvs), 1)
    keep = set()
    for blk in b.calls():
        p = blk.term.callee.path
        if p.endswith('EacStats::add_msg'):
            keep.add(blk.i)
        elif p in ('std::ops::FnMut::call_mut', 'std::ops::Fn::call', 'std::ops::FnOnce::call_once') and blk.term.callee.resolved:
            cl = F.get(blk.term.callee.resolved)
            if cl is not None and any(x.term.callee.path.endswith('EacStats::add_msg') for x in cl.calls()):
                keep.add(blk.i)             # `let mut add_msg = |msg| { stats.add_msg(&msg); .. }`
    S11.floor('per-message accounting calls (EacStats::add_msg) in the remote consumer', len(keep), 1)
    rset = set(x.i for (x, _) in recvs)
    for (blk, okv) in recvs:
        S11.sites += 1
        t = blk.term
        nxt = t.d.get('t')
        if nxt is None:
            continue
        # the switch on the discriminant of the result
        sw = b.blocks[nxt]
        hops = 0
        while sw.term.k == 'goto' and hops < 3:
            sw = b.blocks[sw.term.d['t']]
            hops += 1
        ok_targets = []
        if sw.term.k == 'switch':
            for v, tg in sw.term.d['vals']:
                if v == okv:
                    ok_targets.append(tg)
            if not ok_targets and okv not in [v for v, _ in sw.term.d['vals']]:
                ok_targets.append(sw.term.d['otherwise'])
        else:
            ok_targets = [nxt]
        lost = None
        for tg in ok_targets:
            if tg in keep:
                continue
            region = cfg.reachable_from(tg, avoid=keep)
            hit = [x for x in region if x in rset or x in cfg.exits]
            if hit:
                lost = hit[0]
        if lost is not None:
            S11.violation(('received-message-not-kept', b.path, t.callee.path.split('::')[-1]), 'process_file_context takes a message from the pipeline with %s at %s and can reach %s without handing it to the per-message accounting: '
                          'a message that happens to be queued at that moment is dropped by the last consumer' % (t.callee.path.split('::')[-1], b.loc(t.sp), 'the next receive' if lost in rset else 'the return'), where=b.loc(t.sp))
        else:
            S11.ok(sample={'receive_at': b.loc(t.sp), 'ok_value': 'reaches EacStats::add_msg before the next receive / return'})


def find_helper(F):
    return [b for b in F.order if b.crate == 'lib' and b.kind == 'fn' and tuple(b.arg_types()) == HELPER_SIG and
            b.ret_type().startswith('std::result::Result<(), std::sync::mpmc::SendError<T>>')]


def run(F, chk):
    S1 = chk.rule('S1', 'SyncSender::try_send is called only inside the blocking-send helper')
    S2 = chk.rule('S2', 'helper: Full(m) => blocking send(m) whose result is returned; Disconnected(m) => Err(SendError(m)); Ok only on the Ok edge; no value of T is dropped')
    S3 = chk.rule('S3', 'every outflow closure handed to a stage by the binary is the helper or a blocking send of its argument, result returned')
    S4 = chk.rule('S4', 'every stage inspects the result of each outflow call (never dropped unread)')
    S5 = chk.rule('S5', 'stages contain no blocking/sleeping call other than the inflow receive and the outflow call')
    L1 = chk.rule('L1', 'all four stages: no message-carrying value dropped on a normal path unless drained / consumer gone / stage-specific allowed reason')
    L2 = chk.rule('L2', 'all four stages: no clone of a message')
    L7 = chk.rule('L7', 'all four stages: no lossy container operation / unclassified consumer')

    # S6: the lifecycle stage holds a received message back (stores it without any send attempt) only while some lifecycle
    # is unconfirmed.  Otherwise - after a drain loop was cut short by a send error - it would keep storing every further
    # message and never notice that the consumer is gone (no termination, unbounded queue).
    S6 = chk.rule('S6', 'lifecycle stage: a received message is queued (no send attempt) only under `!buffered_lcs.is_empty()`')
    import lcstage, c05
    from report import RuleResult
    for b in lcstage.find_stage(F):
        st = lcstage.Stage(F, b)
        tmp = RuleResult('Q2', 'scratch')
        c05.check_handover(st, tmp)
        S6.fn(b.path)
        bad = [v for v in tmp.violations if 'store-unguarded' in v['key']]
        S6.sites += len(st.blocks_with('STORE'))
        if bad:
            S6.violation(('store-without-buffered-lifecycle', b.path), 'the lifecycle stage queues the received message at %s without a dominating `!buffered_lcs.is_empty()` test: with the consumer gone (drain loops '
                         'stop at the first send error) every further message is queued and the stage never attempts a send again - it neither terminates nor bounds its queue' % bad[0]['where'], where=bad[0]['where'])
        else:
            S6.ok(sample={'stage': b.path, 'stores_of_the_received_message': len(st.blocks_with('STORE')), 'all_under': '!buffered_lcs.is_empty()'})
    S6.floor('lifecycle stage functions', len(lcstage.find_stage(F)), 1)
    # S7: pacing independence of what the next stage computes.  The sort stage reads the lifecycle table (start time of the
    # message's lifecycle) when a message arrives.  With a message handed over before its lifecycle is refreshed into the table,
    # whether the reader already sees the entry depends on how fast the consumer is and on the channel capacity: the sorted
    # sequence differs between bounded and unbounded channels.  Same table discipline as C06 (T1/T2/T4), decided here as well.
    import c06
    S7 = chk.rule('S7', 'lifecycle stage: no message is handed to the outflow while the lifecycle table has unrefreshed updates (what the next stage reads from the table does not depend on the pacing)')
    S8 = chk.rule('S8', 'lifecycle stage: after an un-buffering, update and refresh of the table happen before any outflow call')
    T3s = RuleResult('T3', 'scratch')
    T4s = RuleResult('T4', 'scratch')
    for b in lcstage.find_stage(F):
        c06.check_table_discipline(F, b, S7, S8, T3s, T4s)
        for v in T4s.violations:
            S7.violation(('closure-leaves-dirty',) + tuple(v['key'].split('|')[2:]), v['msg'], where=v.get('where'))
    S11 = chk.rule('S11', 'remote consumer: every message taken from the output channel of the pipeline (recv / try_recv / recv_timeout / iteration) reaches the per-message accounting (EacStats::add_msg) before the next receive or the return - no receive is used as a mere probe whose Ok value is thrown away')
    check_consumer_keeps_received(F, S11)
    S10 = chk.rule('S10', 'lifecycle stage: every refresh of the table gets its own stamp (refresh index incremented before the next publication / hand-over): a consumer following the table while the stage is held up by a full channel sees every publication (shared with C07 P9)')
    import c07
    for b in lcstage.find_stage(F):
        c07.check_refresh_stamp(F, lcstage.Stage(F, b), S10)
    # S9: "when the consumer disappears, every stage terminates" - the remote `close` is the consumer going away on purpose: it must
    # keep emptying the output channel until every sender is gone (Disconnected) and join the stage threads only afterwards
    S9 = chk.rule('S9', 'remote close: the pipeline output is drained in a loop left only on Disconnected, and no stage thread is joined before that (a stage blocked in a full bounded channel can only finish while someone still receives); same rule as C15 R3')
    import c15
    hh = F.get('adlt_bin::remote::process_incoming_text_message')
    if hh is None:
        S9.violation(('anchor-lost', 'process_incoming_text_message'), 'remote command handler not found')
    else:
        c15.check_close(F, hh, S9)
    helpers = find_helper(F)
    S2.floor('blocking-send helper (anchor: fn(T, &SyncSender<T>) -> Result<(), SendError<T>>)', len(helpers), 1)
    helper_paths = set(h.path for h in helpers)
    # S1
    n_try = 0
    for b in F.order:
        for blk in b.calls():
            p = blk.term.callee.path
            if TRY_SEND.search(p) and 'mpsc' in p:
                n_try += 1
                S1.sites += 1
                S1.fn(b.path)
                if b.path in helper_paths:
                    S1.ok(sample={'try_send_in': b.path, 'at': b.loc(blk.term.sp)})
                else:
                    S1.violation(('try_send-outside-helper', b.closure_of or b.path), 'try_send is called in %s: a full channel would make this site drop or mishandle the message' % b.path, where=b.loc(blk.term.sp))
    S1.floor('try_send call sites (positive control: the helper itself)', n_try, 1)
    for h in helpers:
        check_helper(h, S2)

    sts = stages.all_stages(F)
    L1.floor('pipeline stage functions', len(sts), 4)
    stage_paths = {s['body'].path: s for s in sts}
    for s in sts:
        b = s['body']
        res = lin.run_linearity(b, s['spec'], L1, L2, L7, min_recv=s['min_recv'], min_send=s['min_send'], F=F)
        check_inspected(b, res, S4)
        check_blocking(F, b, S5)
    check_outflows(F, stage_paths, helper_paths, S3)


def check_helper(h, S2):
    S2.fn(h.path)
    cfg = CFG(h)
    E = ExprBuilder(cfg, fold_named=True)
    trys = [b for b in h.calls() if TRY_SEND.search(b.term.callee.path)]
    if len(trys) != 1:
        S2.violation(('helper-shape', h.path, 'try_send%d' % len(trys)), 'helper has %d try_send calls (expected exactly 1)' % len(trys), where=h.loc(None))
        return
    tb = trys[0]
    res_local = tb.term.dest.l
    # the value given to try_send must be the parameter m
    a1 = cfg.origin_of_operand(tb.term.args[1])
    if a1 is not None and a1.is_local and a1.l == 1:
        S2.ok(sample={'try_send_argument': 'parameter m'})
    else:
        S2.violation(('helper-shape', h.path, 'try_send-arg'), 'try_send is not called with the helper\'s own value parameter', where=h.loc(tb.term.sp))
    # classify return definitions
    defs = []
    for b in h.blocks:
        if b.cleanup:
            continue
        for s in b.stmts:
            if s.k == 'assign' and s.place.is_local and s.place.l == 0:
                defs.append((b, E.rvalue(s.rv), s.sp))
        if b.term.k == 'call' and b.term.dest.is_local and b.term.dest.l == 0:
            defs.append((b, ('call', b.term.callee.path, tuple(E.operand(a) for a in b.term.args)), b.term.sp))
    res_name = '_%d' % res_local
    kinds = set()
    for (b, e, sp) in defs:
        s = show(e)
        conds = [(ce, t) for (ce, t, D) in __import__('guards').known(cfg, E, b.i)]
        if e[0] == 'agg' and e[1].endswith('Result::Ok'):
            ok = any(isinstance(c, tuple) and c[0] == 'discr' and isinstance(c[1], tuple) and c[1][0] == 'call' and TRY_SEND.search(c[1][1]) and t in (('eq', 0), ('ne', (1,))) for c, t in conds)
            kinds.add('ok')
            (S2.ok(sample={'return': 'Ok(())', 'only_when': 'try_send returned Ok'}) if ok else
             S2.violation(('helper-ok-unguarded', h.path), 'helper returns Ok(()) on a path where try_send did not return Ok', where=h.loc(sp)))
        elif e[0] == 'agg' and e[1].endswith('Result::Err'):
            good = '@Err.0@Disconnected.0' in s.replace(' ', '') and 'SendError' in s
            kinds.add('disc')
            (S2.ok(sample={'return': s, 'value': 'the message returned by Disconnected'}) if good else
             S2.violation(('helper-err-value', h.path), 'helper returns Err(%s): not the message handed back by TrySendError::Disconnected' % s, where=h.loc(sp)))
        elif e[0] == 'call' and e[1] == 'std::sync::mpsc::SyncSender::<T>::send':
            arg = show(e[2][1]).replace(' ', '')
            good = '@Err.0@Full.0' in arg
            kinds.add('full')
            (S2.ok(sample={'return': 'tx.send(%s)' % arg, 'value': 'the message returned by Full, blocking send, result returned'}) if good else
             S2.violation(('helper-full-value', h.path), 'on the Full edge the helper sends %s, not the message handed back by TrySendError::Full' % arg, where=h.loc(sp)))
        else:
            S2.violation(('helper-return', h.path, s[:40]), 'helper has an unexpected return definition %s' % s, where=h.loc(sp))
    for need, what in (('ok', 'Ok(()) on the Ok edge'), ('disc', 'Err(SendError(m)) on Disconnected'), ('full', 'blocking send on Full')):
        if need not in kinds:
            S2.violation(('helper-missing', h.path, need), 'helper lacks the case: ' + what, where=h.loc(None))
    # no drop of T-carrying values on reachable normal paths
    ex = Explorer(cfg, var_roots=None)
    ex.run()
    S2.paths += ex.n_states
    bad = 0
    for b in h.blocks:
        if b.cleanup or b.term.k != 'drop':
            continue
        ty = b.term.d['ty']
        if re.search(r'(^|[<( ,])T([>), ]|$)', ty) and ex.states.get(b.i):
            bad += 1
            S2.violation(('helper-drops-value', h.path, ty[:50]), 'helper can drop a value of type %s on a normal path (message lost)' % ty, where=h.loc(b.term.sp))
    if not bad:
        S2.ok(sample={'drops_of_T_on_normal_paths': 0})


def check_inspected(body, res, S4):
    S4.fn(body.path)
    cfg = res.cfg
    flags = find_flag_locals(cfg)
    sw = analyse_switches(cfg, flags)
    roots = set()
    for i in sw.values():
        roots |= set(i.var_roots)
    for bi in sorted(res.send_blocks):
        t = body.blocks[bi].term
        key = place_key(t.dest)
        S4.sites += 1
        if key in roots:
            S4.ok(sample={'stage': body.path, 'send_at': body.loc(t.sp), 'result': 'discriminant inspected (?, match, is_err ...)'})
        else:
            S4.violation(('send-result-ignored', body.path), 'the result of the outflow call at %s is never inspected: a disconnected consumer goes unnoticed' % body.loc(t.sp), where=body.loc(t.sp))


def check_blocking(F, body, S5):
    bodies = [body] + list(F.closures_of(body.path))
    n = 0
    for b in bodies:
        S5.fn(b.path)
        for blk in b.calls():
            p = blk.term.callee.path
            n += 1
            if BLOCKING.match(p):
                S5.violation(('blocking-call', body.path, p), 'stage %s calls %s: a stage must only block in its inflow receive and outflow call' % (b.path, p), where=b.loc(blk.term.sp))
            if p in ('std::sync::mpsc::Receiver::<T>::recv', 'std::iter::IntoIterator::into_iter') and 'Receiver<adlt::dlt::DltMessage>' in (blk.term.args[0].ty or ''):
                root = CFG(b).origin_of_operand(blk.term.args[0])
                if root is None or not (root.l <= b.arg_count):
                    S5.violation(('foreign-receive', body.path), 'stage %s receives from a channel that is not its inflow parameter' % b.path, where=b.loc(blk.term.sp))
    S5.sites += n
    S5.ok(sample={'stage': body.path, 'calls_examined': n, 'blocking_calls': 0})


def check_outflows(F, stage_paths, helper_paths, S3):
    n = 0
    for b in F.order:
        if b.crate != 'bin':
            continue
        for blk in b.calls():
            t = blk.term
            tgt = t.callee.path
            if tgt not in stage_paths:
                continue
            for a in t.args:
                ty = a.ty or ''
                if '{closure@' not in ty:
                    continue
                import comparators
                cl = comparators.closure_path_of(F, b, a)
                n += 1
                S3.sites += 1
                if cl is None:
                    S3.violation(('outflow-unresolved', b.closure_of or b.path, tgt), 'cannot resolve the outflow closure given to %s in %s' % (tgt, b.path), where=b.loc(t.sp))
                    continue
                S3.fn(cl.path)
                ok, why = outflow_ok(cl)
                if ok:
                    S3.ok(sample={'stage': tgt, 'outflow': cl.path, 'body': why})
                else:
                    S3.violation(('outflow-shape', b.closure_of or b.path, tgt.split('::')[-1]), 'the outflow closure %s given to %s is not a plain blocking send of its argument: %s' % (cl.path, tgt, why), where=cl.loc(None))
    S3.floor('outflow closures handed to stages in the binary', n, 7)


def outflow_ok(cl):
    cfg = CFG(cl)
    calls = [b for b in cl.calls()]
    if len(calls) != 1:
        return False, '%d calls in the closure body (expected exactly one send)' % len(calls)
    t = calls[0].term
    p = t.callee.path
    if p not in SEND_OK:
        return False, 'calls %s' % p
    if not (t.dest.is_local and t.dest.l == 0):
        return False, 'the send result is not the closure result'
    # the message argument must be the closure parameter (_2)
    msg_args = [a for a in t.args if (a.ty or '') == 'adlt::dlt::DltMessage']
    if len(msg_args) != 1:
        return False, 'no message argument'
    o = cfg.origin_of_operand(msg_args[0])
    if o is None or not o.is_local or o.l != 2:
        return False, 'sends something else than its argument'
    # no message-carrying drops
    for b in cl.blocks:
        if not b.cleanup and b.term.k == 'drop' and b.term.d['ty'] == 'adlt::dlt::DltMessage':
            return False, 'drops a message'
    return True, '%s(m, ..) returned' % p.split('::')[-1]
