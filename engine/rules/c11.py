"""C11 - a filter matches exactly the conjunction of its criteria, via every front-end (structural clauses).

Decided: F3 shape of Filter::matches (returns only false-if-disabled / negated / !negated; every
missing-extended-header edge returns `negated`); F1 field agreement matches-reads <= Serialize-reads
and JSON keys written <= keys read by from_json; F2 stated belief: the case-insensitive literal regex
is only built under the ignore-case flag, in every constructor.
Not decided: semantic equality of the four front-ends on all messages, regex semantics."""
import re
from cfg import CFG
from expr import ExprBuilder, show, walk
from facts import Operand, Place
import guards

LEVEL = 'other'
EXPLANATION = ('Return-value census and edge analysis of Filter::matches; read-set/JSON-key agreement between matches, Serialize and from_json; '
               'control-dependence of every store of the literal-regex cache on the ignore-case flag.')
ASSUMPTIONS = [
    'decides structural clauses only: that the four front-ends decide identically on all messages and regex semantics are NOT decided',
    'F1/F2 are agreement/deviance rules: exact about the construct they point at, not proofs of equivalence',
]
MANIFEST = {'text': 'structural necessary conditions: matches() can only return false (disabled), negated or !negated and treats a missing extended header as a failed criterion; '
                    'every criterion field matched on is serialised and every serialised key is parsed back; the case-insensitive literal matcher exists only under the ignore-case flag.'
                    ' Added: no default is substituted for an unspecified criterion; the short JSON form of the message-type criterion is written only for the mask it is reloaded with; scratch buffers of the text front-ends are re-initialised between two ids. Added: text taken from the input reaches the filter verbatim in every front-end (no trim / case folding / replace in the provenance of a text sink). Added: the compiled matcher of a literal ignore-case payload is built from regex::escape(text).',
            'technique': 'static analysis: MIR return-value census, read-set / string-key table agreement, control-dependence (dominating guard) check Added: list criteria (lifecycles) are tested by order-independent membership in matches() (no binary search / first / last on a list whose order the configuration decides). Added: the regex-character predicate shared by all auto-detecting front-ends answers true for every operator of the regex syntax (decided by constant interpretation per character). Added: the payload criterion is decided on the decoded text only - matches() reads the raw payload of the message nowhere. Added: an auto-detected regex flag is computed per id text (a flag local fed by contains_regex_chars is not carried from one ECU / APID / CTID part to the next).'}

FILTER = 'adlt::filter::filter_impl::Filter'
DERIVED = {'payload_as_regex': 'cache derived from payload + ignore_case_payload'}
HDR_ACCESSORS = ('adlt::dlt::DltMessage::apid', 'adlt::dlt::DltMessage::ctid', 'adlt::dlt::DltMessage::verb_mstp_mtin')


def self_fields(body, E, only_first_arg=True):
    """Filter fields read through `self`"""
    out = {}
    for b in body.blocks:
        if b.cleanup:
            continue
        places = []
        for s in b.stmts:
            if s.k == 'assign':
                for o in s.rv_operands():
                    if o.place is not None:
                        places.append((o.place, s.sp))
                rp = s.rv_place()
                if rp is not None:
                    places.append((rp, s.sp))
        if b.term.k == 'switch':
            o = Operand(b.term.d['d'])
            if o.place is not None:
                places.append((o.place, b.term.sp))
        for (p, sp) in places:
            if p.l == 1:
                for e in p.p:
                    if e['k'] == 'f' and e.get('o') == FILTER:
                        out.setdefault(e['n'], body.loc(sp))
                        break
    return out


def run(F, chk):
    F3 = chk.rule('F3', 'Filter::matches returns only {false under !enabled, negated, !negated}; each missing-extended-header edge returns negated')
    F1 = chk.rule('F1', 'fields read by matches are read by Serialize (except derived caches); JSON keys written by Serialize are read by from_json')
    F2 = chk.rule('F2', 'every store of Some(..) into the literal-regex cache `payload_as_regex` is control-dependent on the ignore-case flag')
    m = F.get('adlt::filter::filter_impl::Filter::matches')
    ser = [b for b in F.order if (b.impl_self or '') == FILTER and (b.impl_trait or '').endswith('::Serialize') and b.path.endswith('::serialize')]
    fj = F.get('adlt::filter::filter_impl::Filter::from_json')
    if m is None or not ser or fj is None:
        F3.violation(('anchor-lost', 'Filter::matches/Serialize/from_json'), 'cannot find Filter::matches, impl Serialize for Filter or Filter::from_json')
        return
    del HELPERS_OF_MATCHES[:]
    for blk in m.calls():
        tgt = F.get(blk.term.callee.path)
        if tgt is not None and tgt.crate == 'lib' and tgt.path.startswith('adlt::filter::') and tgt.kind != 'closure' and tgt.path != m.path:
            HELPERS_OF_MATCHES.append(tgt)
    check_matches_shape(m, F3)
    F4 = chk.rule('F4', 'matches() never substitutes a default for an unspecified criterion (no unwrap_or/map_or on a criterion option)')
    check_no_defaults(m, F4)
    check_field_agreement(m, ser[0], fj, F1, F)
    check_regex_cache(F, F2)
    F5 = chk.rule('F5', 'a short JSON form (key that carries no mask) is written by Serialize only under `mask == the constant from_json reloads it with`')
    check_short_forms(ser[0], fj, F5)
    F6 = chk.rule('F6', 'text front-ends: a [u8; N] scratch buffer is re-initialised on every path between two consumptions (no bytes of the previous id leak)')
    check_scratch_buffers(F, F6)
    F7 = chk.rule('F7', 'text front-ends: criterion text taken from the input reaches the filter verbatim (no trim / case folding / replace on the way)')
    check_verbatim_text(F, F7)
    F8 = chk.rule('F8', 'front-ends: the regex auto-detection decides only when the explicit is-regex flag is absent (an explicit false is honoured)')
    check_autodetect_only_when_absent(F, F8)
    F9 = chk.rule('F9', 'the regex compiled for a *literal* payload (ignore-case matcher `payload_as_regex`) is built from regex::escape(text)')
    check_literal_regex_escaped(F, F9)
    F13 = chk.rule('F13', 'front-ends: an auto-detected regex flag belongs to the one id text it was computed from - a flag local fed by contains_regex_chars is (re)initialised inside the loop pass that uses it (not carried from an earlier ECU / APID / CTID part to a later one)')
    check_regex_flag_scope(F, F13)
    F12 = chk.rule('F12', 'matches() decides the payload criterion on the decoded text (payload_as_text / payload_text) only: it never looks at the raw payload bytes or their length (the decoded text of numbers, control messages, non-verbose data is longer than the bytes)')
    check_payload_on_text(F, m, F12)
    F11 = chk.rule('F11', 'regex auto-detection: the predicate all front-ends use to decide "this id / payload text is a regular expression" answers true for every operator of the regex syntax ( \\ . + * ? ( ) | [ ] { } ^ $ ), decided by constant interpretation of the predicate for each character')
    check_regex_char_predicate(F, F11)
    F10 = chk.rule('F10', 'matches() tests a list criterion (lifecycles) by order-independent membership: no binary search / partition / first / last on a list of the filter (its order is whatever the configuration gave)')
    check_list_membership(F, m, F10)


HELPERS_OF_MATCHES = []

ORDER_ASSUMING = re.compile(r'::(binary_search|binary_search_by|binary_search_by_key|partition_point|first|last|split_first|split_last|is_sorted|is_sorted_by|is_sorted_by_key|dedup)$')
MEMBERSHIP = re.compile(r'::(contains|iter|is_empty|len|into_iter|as_slice|deref|as_ref|any|all)$')


def check_regex_flag_scope(F, F13):
    """"decides identically whether it was loaded from JSON .. or an ECU:APID:CTID expression": each id of the expression is a
    literal or a regex on its own.  When the parts are handled in a loop with one `is_regex` local that is only ever set, a
    regex in the ECU part makes the later literal APID / CTID unanchored regexes (`AP` then matches `XAP1`)."""
    from prov import Prov, calls_in
    n = 0
    for b in F.order:
        if b.crate not in ('lib', 'bin') or '::tests::' in b.path:
            continue
        calls = [blk for blk in b.calls() if blk.term.callee.path.endswith('Char4OrRegex::from_str') and len(blk.term.args) >= 2]
        if not calls:
            continue
        cfg = CFG(b)
        pr = None
        loops = cfg.loops()
        for blk in calls:
            n += 1
            F13.sites += 1
            F13.fn(b.path)
            flag = blk.term.args[1]
            bad = None
            if flag.place is not None and flag.place.is_local and not flag.place.p:
                # follow plain copies to the named flag local
                l = flag.place.l
                for _ in range(4):
                    sd = cfg.single_def(l)
                    if sd is not None and sd[1] != 'call' and sd[2].rv['k'] == 'use' and Operand(sd[2].rv['o']).place is not None and not Operand(sd[2].rv['o']).place.p:
                        l = Operand(sd[2].rv['o']).place.l
                    else:
                        break
                defs = cfg.defs.get(l, [])
                inner = [lb for lb in loops.values() if blk.i in lb]
                if len(defs) > 1 and inner:
                    lb = min(inner, key=len)
                    pr = pr or Prov(cfg)
                    fed = any(c.endswith('contains_regex_chars') for c in calls_in(pr.operand(flag, at=blk.i))) or \
                        any(any(c_[0] is not None and 'contains_regex_chars' in show(c_[0]) for c_ in guards.known(cfg, ExprBuilder(cfg, fold_named=True), bi)) for (bi, si, d) in defs)
                    outside = [bi for (bi, si, d) in defs if bi not in lb]
                    if fed and outside:
                        bad = b.loc(b.blocks[outside[0]].term.sp)
            if bad:
                F13.violation(('regex-flag-carried-across-ids', b.closure_of or b.path), '%s passes to Char4OrRegex::from_str at %s a flag that is fed by contains_regex_chars inside the loop but initialised outside it (%s): once one id part looks like a regex every later literal part is compiled as an unanchored regex' %
                              (b.path, b.loc(blk.term.sp), bad), where=b.loc(blk.term.sp))
            else:
                F13.ok(sample={'from_str_at': b.loc(blk.term.sp), 'flag': 'computed per id'})
    F13.floor('Char4OrRegex::from_str calls in the front-ends', n, 4)


def check_payload_on_text(F, m, F12):
    """"payload substring": the criterion is defined on the text the message renders to.  A shortcut on the raw bytes (`payload.len()
    < needle.len()` cannot match) is wrong for every message whose text is longer than its bytes - 4 raw bytes render as
    "4294967295", a 12 byte control response as "[get_software_version ok] ..".  Who-may-read rule: matches() and its
    helpers read the DltMessage field `payload` nowhere."""
    import json
    n = 0
    bodies = [m] + list(HELPERS_OF_MATCHES) + list(F.closures_of(m.path))
    textual = 0
    for b in bodies:
        F12.fn(b.path)
        for blk in b.blocks:
            if blk.cleanup:
                continue
            for s_ in blk.stmts:
                if s_.k == 'assign' and re.search(r'"n": "payload", "o": "adlt::dlt::DltMessage"', json.dumps(s_.d)):
                    n += 1
                    F12.violation(('payload-criterion-on-raw-bytes', b.path), '%s reads the raw payload of the message at %s: the payload criterion holds or fails by the decoded text, whose length and content differ from the bytes' % (b.path, b.loc(s_.sp)), where=b.loc(s_.sp))
            if blk.term.k == 'call':
                if any(re.search(r'"n": "payload", "o": "adlt::dlt::DltMessage"', json.dumps(a.d)) for a in blk.term.args if hasattr(a, 'd')):
                    n += 1
                    F12.violation(('payload-criterion-on-raw-bytes', b.path), '%s hands the raw payload of the message to %s at %s' % (b.path, blk.term.callee.path, b.loc(blk.term.sp)), where=b.loc(blk.term.sp))
                if blk.term.callee.path.endswith('DltMessage::payload_as_text'):
                    textual += 1
    F12.sites += textual + n
    F12.floor('payload_as_text() calls in matches()', textual, 1)
    if n == 0:
        F12.ok(sample={'payload_criterion': 'decided on payload_as_text() only', 'payload_as_text_calls': textual})


REGEX_OPERATORS = '\\.+*?()|[]{}^$'


def check_regex_char_predicate(F, F11):
    """"literal 4-byte id or regular expression": without an explicit flag the front-ends (JSON, DLF, ECU:APID:CTID) ask one
    predicate whether a text contains regex characters.  If the predicate misses an operator of the regex syntax, a pattern
    whose only special character is that operator is stored as a literal id: it selects nothing (negated: everything) and
    disagrees with the same filter given with the explicit flag.  The character domain is finite: the closure (or the function
    of one character) is interpreted with each operator as a constant input."""
    import cinterp
    b = F.get('adlt::utils::contains_regex_chars')
    if b is None:
        F11.violation(('anchor-lost', 'contains_regex_chars'), 'the regex character predicate adlt::utils::contains_regex_chars was not found')
        return
    F11.fn(b.path)
    preds = [c for c in F.closures_of(b.path) if len(c.arg_types()) == 2 and c.arg_types()[1] in ('char', 'u8', '&char', '&u8') and c.ret_type() == 'bool']
    # string constants of the function (`"^$*+?..".contains(c)` / a table): the fallback when the predicate is not interpretable
    import json
    consts = ''.join(re.findall(r'"s": "((?:[^"\\\\]|\\\\.)*)"', json.dumps([blk.term.d for x in [b] + list(F.closures_of(b.path)) for blk in x.blocks] + [s_.d for x in [b] + list(F.closures_of(b.path)) for blk in x.blocks for s_ in blk.stmts])))
    # .. and the text of named string constants the function refers to (`const REGEX_CHARS: &str = ".."`)
    local_consts = set(k for k in F.consts if k.startswith(b.path + '::'))      # constants declared inside the predicate (a promoted `&TABLE` does not name them)
    mod_prefix = b.path.rsplit('::', 1)[0] + '::'
    if re.search(r'promoted\[', json.dumps([s_.d for x in [b] + list(F.closures_of(b.path)) for blk in x.blocks for s_ in blk.stmts])):
        # a promoted reference hides which table is meant: the character tables of the predicate's module
        local_consts |= set(k for k, ce in F.consts.items() if k.startswith(mod_prefix) and '::' not in k[len(mod_prefix):] and re.match(r'^\[(char|u8); \d+\]$', ce.get('t', '')))
    for ref in local_consts | set(re.findall(r'"s": "(adlt::[\w:]+)"', json.dumps([blk.term.d for x in [b] + list(F.closures_of(b.path)) for blk in x.blocks] + [s_.d for x in [b] + list(F.closures_of(b.path)) for blk in x.blocks for s_ in blk.stmts]))):
        ce = F.consts.get(ref) or {}
        if isinstance(ce.get('str'), str):
            consts += ce['str']
        if isinstance(ce.get('arr'), list) and re.match(r'^\[(char|u8); \d+\]$', ce.get('t', '')):
            consts += ''.join(chr(v) for v in ce['arr'] if isinstance(v, int) and 0 < v < 0x110000)      # `const TABLE: [char; N]`
    missing = []
    how = None
    if len(preds) == 1:
        I = cinterp.Interp(F)
        try:
            for ch in REGEX_OPERATORS:
                F11.sites += 1
                r = I.run(preds[0], [None, ord(ch)])
                if r[1] not in (0, 1):
                    raise cinterp.Unknown('the predicate calls something the interpreter does not model')
                if r[1] != 1:
                    missing.append(ch)
            how = 'constant interpretation of %s for each operator' % preds[0].path
        except cinterp.Unknown as e:
            how = None
    if how is None:
        F11.sites += len(REGEX_OPERATORS)
        missing = [ch for ch in REGEX_OPERATORS if ch not in consts and json.dumps(ch)[1:-1] not in consts]
        how = 'operators listed in the string constants of the predicate'
        if len(missing) == len(REGEX_OPERATORS):
            F11.violation(('regex-predicate-undecided', b.path), 'cannot decide which characters %s treats as regex characters (no one-character predicate to interpret, no operator in its constants)' % b.path, where=b.loc(None))
            return
    if missing:
        F11.violation(('regex-operator-not-detected', b.path, ''.join(missing)), 'contains_regex_chars answers false for the regex operator(s) %s: an id or payload pattern whose only special character is one of them is auto-detected as a literal by every front-end without an explicit regex flag '
                      '- the filter selects nothing (negated: everything) and disagrees with the same filter given as regex' % ' '.join(missing), where=b.loc(None))
    else:
        F11.ok(n=len(REGEX_OPERATORS), sample={'predicate': b.path, 'operators_detected': REGEX_OPERATORS, 'decided_by': how})
    # the front-ends must use it
    users = set()
    for x in F.order:
        if x.crate in ('lib', 'bin'):
            for blk in x.calls():
                if blk.term.callee.path == b.path:
                    users.add((x.closure_of or x.path))
    F11.floor('front-end functions asking the predicate', len(users), 2)


def check_list_membership(F, m, F10):
    """"the lifecycle is a member of the list": the list is public data filled in configuration order (from_json keeps the order
    of the JSON array).  A test that is only correct on sorted input (binary_search, partition_point) or looks at one end of the
    list reports members of an unsorted list as missing - the decision then depends on the spelling of the filter, not on its
    meaning, and survives the JSON round trip."""
    n = 0
    for b in [m] + list(HELPERS_OF_MATCHES) + [c for c in F.closures_of(m.path)]:
        cfg = CFG(b)
        F10.fn(b.path)
        for blk in b.calls():
            t = blk.term
            if not t.args or t.args[0].place is None:
                continue
            ty = t.args[0].ty or ''
            if not re.match(r'^&(mut )?(\[|std::vec::Vec<)', ty):
                continue
            pl = cfg.origin_of_operand(t.args[0])
            fl = [e for e in (pl.p if pl is not None else []) if e['k'] == 'f']
            if not fl or not any(e.get('o') == FILTER for e in fl):
                continue
            n += 1
            F10.sites += 1
            fld = [e['n'] for e in fl if e.get('o') == FILTER][-1]
            nm = t.callee.path.split('::')[-1]
            if ORDER_ASSUMING.search(t.callee.path):
                F10.violation(('list-criterion-order-dependent', fld, nm), 'matches() applies %s to the filter list `%s` at %s: the result depends on the order of the list, which is whatever the configuration gave - members of an unsorted list are reported missing' % (nm, fld, b.loc(t.sp)), where=b.loc(t.sp))
            else:
                F10.ok(sample={'list': fld, 'operation': nm, 'at': b.loc(t.sp)})
    F10.floor('operations on list criteria in matches()', n, 1)


def check_matches_shape(m, F3):
    cfg = CFG(m)
    E = ExprBuilder(cfg, fold_named=True)
    F3.fn(m.path)
    n_neg = n_not = n_false = 0
    negated = None
    for b in m.blocks:
        if b.cleanup:
            continue
        for s in b.stmts:
            if s.k == 'assign' and s.place.is_local and s.place.l == 0:
                F3.sites += 1
                e = E.rvalue(s.rv)
                if e == ('const', 0):
                    n_false += 1
                    ok = any(truth is False and isinstance(c, tuple) and c[0] == 'place' and c[1] == 'self' and c[-1] == '.enabled' for (c, truth, D) in guards.known(cfg, E, b.i))
                    if ok:
                        F3.ok(sample={'return': 'false', 'guard': '!self.enabled'})
                    else:
                        F3.violation(('returns-constant', m.path, 'false'), 'matches() returns constant false outside the `!self.enabled` branch (a negated filter would be inverted wrongly)', where=m.loc(s.sp))
                elif isinstance(e, tuple) and e[0] == 'place' and e[1] == 'self' and e[-1] == '.negate_match':
                    n_neg += 1
                elif isinstance(e, tuple) and e[0] == 'un' and e[1] == 'Not' and isinstance(e[2], tuple) and e[2][0] == 'place' and e[2][-1] == '.negate_match':
                    n_not += 1
                    F3.ok(sample={'return': '!negated', 'at': m.loc(s.sp)})
                else:
                    F3.violation(('returns-other', m.path, show(e)[:40]), 'matches() returns %s (allowed: false if disabled, negated, !negated)' % show(e), where=m.loc(s.sp))
        if b.term.k == 'call' and b.term.dest.is_local and b.term.dest.l == 0:
            F3.violation(('returns-call', m.path, b.term.callee.path), 'matches() returns the result of %s' % b.term.callee.path, where=m.loc(b.term.sp))
    F3.ok(sample={'negated_returns': n_neg, 'not_negated_returns': n_not, 'false_returns': n_false})
    F3.floor('`negated` return sites', n_neg, 8)
    F3.floor('`!negated` return sites', n_not, 1)
    F3.floor('`false` return sites', n_false, 1)
    if n_not > 1:
        F3.violation(('multiple-pass-returns', m.path), 'matches() has %d `!negated` returns (expected exactly one, after all criteria)' % n_not, where=m.loc(None))
    # None edges of the header accessors
    n_acc = 0
    for b in m.blocks:
        if b.cleanup or b.term.k != 'call' or b.term.callee.path not in HDR_ACCESSORS:
            continue
        n_acc += 1
        nxt = m.blocks[b.term.d['t']]
        # find the switch on the discriminant of the result
        sw = nxt
        hops = 0
        while sw.term.k == 'goto' and hops < 3:
            sw = m.blocks[sw.term.d['t']]
            hops += 1
        if sw.term.k != 'switch':
            F3.violation(('header-accessor-unswitched', m.path, b.term.callee.path.split('::')[-1]), 'result of %s is not matched on directly' % b.term.callee.path, where=m.loc(b.term.sp))
            continue
        none_t = None
        for v, t in sw.term.d['vals']:
            if v == 0:
                none_t = t
        if none_t is None and all(v == 1 for v, _ in sw.term.d['vals']):
            none_t = sw.term.d['otherwise']
        ok = False
        if none_t is not None:
            # walk forward from the None edge with the constants it stores (`None => false` .. `if !matched { return negated }`)
            cur = m.blocks[none_t]
            env = {}
            for _ in range(14):
                done = False
                for s in cur.stmts:
                    if s.k != 'assign' or not s.place.is_local or s.place.p:
                        continue
                    if s.place.l == 0:
                        e = E.rvalue(s.rv)
                        ok = isinstance(e, tuple) and e[0] == 'place' and e[-1] == '.negate_match'
                        done = True
                        break
                    rv = s.rv
                    val = None
                    if rv['k'] in ('use', 'cast'):
                        o = Operand(rv['o'])
                        if o.is_const and isinstance(o.value, (int, bool)):
                            val = int(o.value)
                        elif o.place is not None and o.place.is_local and not o.place.p:
                            val = env.get(o.place.l)
                    elif rv['k'] == 'un' and rv['op'] == 'Not':
                        o = Operand(rv['a'])
                        v0 = env.get(o.place.l) if (o.place is not None and o.place.is_local and not o.place.p) else (int(o.value) if o.is_const and isinstance(o.value, (int, bool)) else None)
                        val = (1 - v0) if v0 in (0, 1) else None
                    if val is None:
                        env.pop(s.place.l, None)
                    else:
                        env[s.place.l] = val
                if done:
                    break
                if cur.term.k == 'goto':
                    cur = m.blocks[cur.term.d['t']]
                elif cur.term.k == 'switch':
                    o = Operand(cur.term.d['d'])
                    v0 = env.get(o.place.l) if (o.place is not None and o.place.is_local and not o.place.p) else None
                    if v0 is None:
                        break
                    nt = cur.term.d['otherwise']
                    for v, t in cur.term.d['vals']:
                        if v == v0:
                            nt = t
                    cur = m.blocks[nt]
                elif cur.term.k == 'drop':
                    cur = m.blocks[cur.term.d['t']]
                else:
                    break
        if ok:
            F3.ok(sample={'accessor': b.term.callee.path.split('::')[-1], 'at': m.loc(b.term.sp), 'None_edge': 'returns negated'})
        else:
            F3.violation(('missing-header-passes', m.path, b.term.callee.path.split('::')[-1]),
                         'when %s() is None (message without extended header) the criterion at %s does not return `negated`: such a message could pass an apid/ctid/type/level criterion' % (b.term.callee.path.split('::')[-1], m.loc(b.term.sp)),
                         where=m.loc(b.term.sp))
    # criteria checks may live in private helpers of the filter module (`fn msg_matches_verb_mstp_mtin(..)`): count their
    # accessor calls as well so that extracting a helper does not look like a lost anchor
    n_helper = 0
    try:
        import facts as _f
    except Exception:
        _f = None
    for hb in HELPERS_OF_MATCHES:
        n_helper += sum(1 for x in hb.calls() if x.term.callee.path in HDR_ACCESSORS)
    F3.floor('extended-header accessor calls in matches() and its helpers', n_acc + n_helper, 5)


def json_keys(body, callee_suffix, argidx, _F=None, _depth=0):
    cfg = CFG(body)
    E = ExprBuilder(cfg)
    keys = {}
    for b in body.calls():
        t = b.term
        if t.callee.path.endswith(callee_suffix) and len(t.args) > argidx:
            e = E.operand(t.args[argidx])
            for x in walk(e):
                if isinstance(x, tuple) and x and x[0] == 'str':
                    mm = re.search(r'"([^"]*)"', x[1])
                    if mm:
                        keys.setdefault(mm.group(1), body.loc(t.sp))
        # keys handed to a private helper of the crate that looks them up (`char4_or_regex_from_json(&v, "ecu", "ecuIsRegex")`):
        # a string constant passed for a parameter that the helper uses as the key of the same kind of lookup
        elif _F is not None and (t.callee.path.startswith('adlt::') or (t.callee.path in ('std::ops::Fn::call', 'std::ops::FnMut::call_mut', 'std::ops::FnOnce::call_once') and t.callee.resolved)) and _depth < 2:
            H = _F.get(t.callee.resolved) if t.callee.resolved else _F.get(t.callee.path)
            if H is None:
                continue
            if H.kind == 'closure':
                # `let attr = |key, flag_key| .. v[key] ..; attr("ecu", "ecuIsRegex")`: the arguments arrive as one tuple
                hcfg = CFG(H)
                hE = ExprBuilder(hcfg)
                used = set()
                for hb in H.calls():
                    ht = hb.term
                    if ht.callee.path.endswith(callee_suffix) and len(ht.args) > argidx:
                        for x in walk(hE.operand(ht.args[argidx])):
                            if isinstance(x, tuple) and x and x[0] == 'place' and len(x) >= 2:
                                used.add(x[1])
                tup = E.operand(t.args[1]) if len(t.args) > 1 else None
                if isinstance(tup, tuple) and tup[0] == 'agg' and tup[1] == 'tuple':
                    for i, a in enumerate(tup[2]):
                        pn = H.name_of(i + 2) or 'arg%d' % (i + 2)
                        if pn in used:
                            for x in walk(a):
                                if isinstance(x, tuple) and x and x[0] == 'str':
                                    mm = re.search(r'"([^"]*)"', x[1])
                                    if mm:
                                        keys.setdefault(mm.group(1), body.loc(t.sp))
                continue
            hcfg = CFG(H)
            hE = ExprBuilder(hcfg)
            used = set()
            for hb in H.calls():
                ht = hb.term
                if ht.callee.path.endswith(callee_suffix) and len(ht.args) > argidx:
                    for x in walk(hE.operand(ht.args[argidx])):
                        if isinstance(x, tuple) and x and x[0] == 'place' and len(x) >= 2:
                            used.add(x[1])
            for i, a in enumerate(t.args):
                pn = H.name_of(i + 1) or 'arg%d' % (i + 1)
                if pn in used:
                    for x in walk(E.operand(a)):
                        if isinstance(x, tuple) and x and x[0] == 'str':
                            mm = re.search(r'"([^"]*)"', x[1])
                            if mm:
                                keys.setdefault(mm.group(1), body.loc(t.sp))
    return keys


def check_field_agreement(m, ser, fj, F1, F=None):
    Em = ExprBuilder(CFG(m))
    Es = ExprBuilder(CFG(ser))
    F1.fn(m.path); F1.fn(ser.path); F1.fn(fj.path)
    mr = self_fields(m, Em)
    sr = self_fields(ser, Es)
    F1.floor('Filter fields read by matches()', len(mr), 10)
    F1.floor('Filter fields read by Serialize', len(sr), 10)
    for fld, loc in sorted(mr.items()):
        F1.sites += 1
        if fld in sr:
            F1.ok(sample={'field': fld, 'matched_on': True, 'serialised': True})
        elif fld in DERIVED:
            F1.ok(sample={'field': fld, 'derived': DERIVED[fld]})
        else:
            F1.violation(('matched-not-serialised', fld), 'Filter.%s is a matching criterion (read at %s) but impl Serialize never reads it: to_json() -> from_json() drops this criterion' % (fld, loc), where=loc)
    written = json_keys(ser, '::serialize_field', 1)
    read = json_keys(fj, 'Index::index', 1, _F=F)
    F1.floor('JSON keys written by Serialize', len(written), 12)
    F1.floor('JSON keys read by from_json', len(read), 12)
    for k, loc in sorted(written.items()):
        F1.sites += 1
        if k in read:
            F1.ok(sample={'json_key': k, 'written': True, 'parsed': True})
        else:
            F1.violation(('key-written-not-parsed', k), 'Serialize writes JSON key "%s" (at %s) which from_json never looks up' % (k, loc), where=loc)


def check_regex_cache(F, F2):
    n = 0
    for body in F.order:
        if body.crate != 'lib':
            continue
        hits = []
        cand = []
        for b in body.blocks:
            if b.cleanup:
                continue
            for s in b.stmts:
                if s.k != 'assign':
                    continue
                fl = [e for e in s.place.p if e['k'] == 'f']
                direct = bool(fl) and fl[-1]['n'] == 'payload_as_regex' and fl[-1].get('o') == FILTER
                local_named = s.place.is_local and body.name_of(s.place.l) == 'payload_as_regex'
                if direct or local_named:
                    cand.append((b, s))
        if not cand:
            continue
        cfg = CFG(body)
        E = ExprBuilder(cfg)
        for (b, s) in cand:
            e = E.rvalue(s.rv)
            if isinstance(e, tuple) and e[0] == 'agg' and e[1].endswith('Option::Some'):
                hits.append((b, s))
        for (b, s) in hits:
            n += 1
            F2.fn(body.path)
            F2.sites += 1
            ok = False
            for (c, truth, D) in guards.known(cfg, E, b.i):
                if truth is True and 'ignore_case_payload' in show(c) and not show(c).startswith('Not'):
                    ok = True
            if ok:
                F2.ok(sample={'function': body.path, 'store_at': body.loc(s.sp), 'guard': 'ignore_case_payload == true'})
            else:
                F2.violation(('regex-cache-unguarded', body.path), 'the case-insensitive literal matcher `payload_as_regex` is built at %s without a dominating test of the ignore-case flag: '
                             'matches() uses it whenever present, so a literal payload filter from this front-end always matches case-insensitively' % body.loc(s.sp), where=body.loc(s.sp))
    F2.floor('stores of Some(..) into payload_as_regex', n, 2)


DEFAULTING = re.compile(r'Option::<T>::(unwrap_or|unwrap_or_default|unwrap_or_else|map_or|map_or_else|is_none_or|is_some_and|get_or_insert\w*|or|or_else|xor|zip)$')


def check_no_defaults(m, F4):
    """an unspecified criterion must be skipped, not replaced by a default bound/value"""
    cfg = CFG(m)
    E = ExprBuilder(cfg, fold_named=True)
    F4.fn(m.path)
    n = 0
    bad = 0
    for blk in m.calls():
        t = blk.term
        n += 1
        if DEFAULTING.search(t.callee.path) and t.args:
            a0 = show(E.operand(t.args[0]))
            if '(*self).' in a0 or 'self.' in a0:
                fld = re.search(r'\(\*self\)\.([a-z_]+)', a0)
                bad += 1
                F4.violation(('criterion-default', m.path, fld.group(1) if fld else 'x', t.callee.path.split('::')[-1]),
                             'matches() applies %s to the optional criterion %s at %s: an unspecified criterion then acts like a specified one (e.g. a hidden upper bound)' % (t.callee.path.split('::')[-1], a0[:60], m.loc(t.sp)),
                             where=m.loc(t.sp))
    F4.sites += n
    if not bad:
        F4.ok(sample={'calls_examined': n, 'defaulting_combinators_on_criteria': 0})


# ---------------------------------------------------------------------------------------------
# F5: short JSON forms agree between Serialize and from_json

def const_eval(e):
    """value of a constant expression (ints, Shl/Shr/BitAnd/BitOr/Add of constants, casts), else None"""
    if isinstance(e, int):
        return e
    if not isinstance(e, tuple):
        try:
            return int(str(e), 0)
        except ValueError:
            return None
    if e[0] == 'const':
        try:
            return int(str(e[1]).split('_')[0], 0)
        except ValueError:
            return None
    if e[0] == 'cast':
        return const_eval(e[1])
    if e[0] == 'bin':
        a, b = const_eval(e[2]), const_eval(e[3])
        if a is None or b is None:
            return None
        op = e[1]
        return {'Shl': lambda: a << b, 'Shr': lambda: a >> b, 'BitAnd': lambda: a & b, 'BitOr': lambda: a | b, 'Add': lambda: a + b,
                'Sub': lambda: a - b, 'Mul': lambda: a * b}.get(op, lambda: None)()
    return None


def check_short_forms(ser, fj, F5):
    """The message-type criterion is a pair (value, mask).  from_json builds the pair from one of several JSON keys; for a key
    whose pair has a *constant* mask (the short "mstp" form), Serialize may write that key only under the condition
    `mask == that constant` - otherwise to_json() -> from_json() changes which messages match."""
    F5.fn(ser.path); F5.fn(fj.path)
    cfj = CFG(fj)
    Ef = ExprBuilder(cfj, fold_named=True)
    masks = {}      # key -> ('const', value) | ('dyn', text)
    for b in fj.blocks:
        if b.cleanup:
            continue
        for s in b.stmts:
            if s.k == 'assign' and s.rv['k'] == 'agg' and s.rv.get('ak') == 'tuple' and (s.place.t or '') == '(u8, u8)':
                e = Ef.rvalue(s.rv)
                first, second = e[2][0], e[2][1]
                keys = [x[1] for x in walk(first) if isinstance(x, tuple) and x and x[0] == 'str']
                for k in keys:
                    k = k.strip('"')
                    v = const_eval(second)
                    masks[k] = ('const', v) if v is not None else ('dyn', show(second))
    F5.floor('JSON keys from which from_json builds the (value, mask) message-type pair', len(masks), 2)
    cs = CFG(ser)
    Es = ExprBuilder(cs, fold_named=True)
    n = 0
    for blk in ser.calls():
        t = blk.term
        if not t.callee.path.endswith('::serialize_field') or len(t.args) < 3:
            continue
        key = show(Es.operand(t.args[1])).strip('"')
        if key not in masks:
            continue
        n += 1
        F5.sites += 1
        kind, mv = masks[key]
        conds = [(c, truth) for (c, truth, D) in guards.known(cs, Es, blk.i) if isinstance(c, tuple) and 'verb_mstp_mtin' in show(c) and show(c).count('.1')]
        if kind == 'const':
            ok = False
            for (c, truth) in conds:
                if isinstance(truth, tuple) and truth[0] == 'eq' and truth[1] == mv and show(c).endswith('.1'):
                    ok = True       # `match mask { 14 => .. }`
                if c[0] == 'bin' and c[1] == 'Eq' and truth is True:
                    for side, other in ((c[2], c[3]), (c[3], c[2])):
                        if const_eval(other) == mv and show(side).endswith('.1') and 'verb_mstp_mtin' in show(side):
                            ok = True
            if ok:
                F5.ok(sample={'json_key': key, 'from_json_mask': mv, 'serialize_guard': 'mask == %d' % mv})
            else:
                F5.violation(('short-form-guard', key), 'Serialize writes the short JSON key "%s" (which carries no mask; from_json reloads it with mask %#x) at %s without a dominating `mask == %#x` test '
                             '(conditions on the mask here: %s): a filter with another mask changes its meaning in a to_json -> from_json round trip'
                             % (key, mv, ser.loc(t.sp), mv, '; '.join('%s is %s' % (show(c), truth) for (c, truth) in conds) or 'none'), where=ser.loc(t.sp))
        else:
            F5.ok(sample={'json_key': key, 'from_json_mask': 'derived from the value: ' + mv[:60], 'serialize_guard': [show(c) for (c, _) in conds][:2]})
    F5.floor('Serialize sites writing a message-type key', n, 2)


# ---------------------------------------------------------------------------------------------
# F6: scratch buffers of the text front-ends are re-initialised between two ids

def check_scratch_buffers(F, F6):
    """The dlt-convert list front-end assembles each 4-character id in a local `[u8; 4]` scratch buffer that is partially
    overwritten (up to the '-' padding) and then handed to Char4OrRegex::from_buf.  Typestate of the buffer:
    initialised -> (partially) filled -> consumed; a second consumption needs a new whole-buffer initialisation on every
    path, otherwise the bytes of the previous id leak into a shorter next id (the filter then differs from the same
    filter given as JSON / DLF / ECU:APID:CTID)."""
    from paths import Explorer
    n = 0
    for b in F.order:
        if b.crate != 'lib' or not b.path.startswith('adlt::filter::') or '::tests::' in b.path:
            continue
        arrays = [l for l in range(1, len(b.locals)) if re.match(r'\[u8; \d+\]$', b.lty(l) or '') and l > b.arg_count]
        if not arrays:
            continue
        cfg = CFG(b)
        for L in arrays:
            inits = set(bi for (bi, si, d) in cfg.defs.get(L, []) if si != 'call' and d.rv['k'] in ('agg', 'repeat', 'use'))
            reads = {}
            for blk in b.calls():
                for a in blk.term.args:
                    if a.place is None or not a.place.is_local:
                        continue
                    sd = cfg.single_def(a.place.l)
                    for _ in range(6):      # &buf -> reborrow &*r -> unsize cast -> move
                        if sd is not None and sd[1] != 'call' and sd[2].rv['k'] in ('use', 'cast'):
                            o2 = Operand(sd[2].rv['o'])
                            sd = cfg.single_def(o2.place.l) if o2.place is not None and o2.place.is_local else None
                        elif sd is not None and sd[1] != 'call' and sd[2].rv['k'] == 'ref' and sd[2].rv['p'].get('p') and \
                                all(e['k'] == 'deref' for e in sd[2].rv['p']['p']) and not sd[2].rv.get('mut'):
                            sd = cfg.single_def(sd[2].rv['p']['l'])
                        else:
                            break
                    if sd is not None and sd[1] != 'call' and sd[2].rv['k'] == 'ref':
                        pl = sd[2].rv['p']
                        if pl['l'] == L and not pl.get('p') and not sd[2].rv.get('mut') and not re.search(r'(::iter|::iter_mut|::len|::as_ptr|Debug|fmt::)', blk.term.callee.path):
                            reads[blk.i] = blk.term.callee.path
            if not reads or not inits:
                continue

            def block_effect(blk, facts, inits=inits, reads=reads):
                if blk.i in inits:
                    facts = frozenset(facts | {('fresh',)})
                return facts
            # the read consumes the freshness *after* the block: model by an edge effect out of the read block
            def edge_effect(blk, tgt, facts, reads=reads):
                if blk.i in reads:
                    return frozenset(f for f in facts if f != ('fresh',))
                return facts
            ex = Explorer(cfg, block_effect=block_effect, edge_effect=edge_effect, var_roots=set())
            ex.run()
            F6.paths += ex.n_states
            for bi, callee in sorted(reads.items()):
                n += 1
                F6.sites += 1
                F6.fn(b.path)
                sts = ex.states.get(bi, ())
                stale = [st for st in sts if ('fresh',) not in st[1] and bi not in inits]
                if stale:
                    F6.violation(('scratch-buffer-reused', b.path, callee.split('::')[-1]),
                                 '%s hands the scratch buffer `%s` to %s at %s although, on some path, it has not been re-initialised since it was last consumed: bytes of the previous id leak into a shorter id' %
                                 (b.path, b.name_of(L) or '_%d' % L, callee, b.loc(b.blocks[bi].term.sp)), where=b.loc(b.blocks[bi].term.sp), witness={'block_path': ex.witness(bi, stale[0])[-40:]})
                else:
                    F6.ok(sample={'function': b.path, 'buffer': b.name_of(L) or '_%d' % L, 'consumed_by': callee.split('::')[-1], 'at': b.loc(b.blocks[bi].term.sp), 'initialised_since_last_consumption': True})
    # ids built by a helper that returns a fresh array per call (`from_buf(&char4_at(buf, offset))`) have no shared scratch
    # buffer at all; what must not get lost is the anchor: the front-ends still build ids from byte buffers
    nid = 0
    for b in F.order:
        if b.crate == 'lib' and b.path.startswith('adlt::filter::functions::') and '::tests::' not in b.path:
            nid += sum(1 for blk in b.calls() if blk.term.callee.path.endswith('Char4OrRegex::from_buf'))
    if n == 0 and nid >= 2:
        F6.ok(sample={'scratch_buffers': 'none shared: every id is built from a fresh value', 'from_buf_calls': nid})
    F6.floor('ids built from byte buffers (Char4OrRegex::from_buf) in the filter front-ends', nid, 2)


# ---------------------------------------------------------------------------------------------
# F7: the front-ends keep criterion text verbatim

NORMALISE = re.compile(r'(str::<impl str>::(trim|trim_start|trim_end|trim_matches|trim_start_matches|trim_end_matches|trim_left|trim_right|to_lowercase|to_uppercase|'
                       r'to_ascii_lowercase|to_ascii_uppercase|replace|replacen|strip_prefix|strip_suffix|split_whitespace)|'
                       r'char::methods::<impl char>::to_(ascii_)?(lower|upper)case|slice::<impl \[u8\]>::(trim_ascii\w*|to_ascii_\w+)|AsciiExt::\w+)$')


def check_verbatim_text(F, F7):
    """"a filter ... decides identically whether loaded via JSON, DLF or the convert options": payload text, ids and regex
    sources are whitespace- and case-significant, so every front-end has to hand the text it read to the filter unchanged.
    Sinks in the front-end functions (those of adlt::filter returning Filter / Vec<Filter>, and their closures): the value
    stored into the attribute map, every store into a field of Filter, and the text arguments of the criterion constructors
    (Char4OrRegex::from_str, Regex::new).  The backward data provenance of a sink value must not contain a normalising
    str/char method."""
    from prov import Prov, calls_in
    fronts = [b for b in F.order if b.crate == 'lib' and b.path.startswith('adlt::filter::') and '::tests' not in b.path and b.kind != 'closure' and
              re.search(r'filter_impl::Filter\b', b.ret_type()) and b.arg_count >= 1]
    F7.floor('front-end functions (adlt::filter::* returning Filter / Vec<Filter> from an input)', len(fronts), 4)
    n = 0
    for f in fronts:
        for b in [f] + list(F.closures_of(f.path)):
            F7.fn(b.path)
            cfg = pr = None
            for blk in b.blocks:
                if blk.cleanup:
                    continue
                sinks = []
                t = blk.term
                if t.k == 'call':
                    p = t.callee.path
                    if re.search(r'HashMap::<K, V, S(, A)?>::insert$', p) and len(t.args) > 2 and 'String' in (t.args[2].ty or ''):
                        sinks.append(('attribute map value', t.args[2], t.sp))
                    elif re.search(r'(Char4OrRegex as std::str::FromStr>::from_str|Char4OrRegex::from_str|Regex::new|DltChar4::from_str)$', p) or \
                            (p.endswith('FromStr::from_str') and 'Char4' in (t.dest.t or '')):
                        if t.args:
                            sinks.append(('criterion constructor argument', t.args[0], t.sp))
                for s in blk.stmts:
                    if s.k == 'assign' and any(e['k'] == 'f' and e.get('o') == FILTER for e in s.place.p) and s.rv['k'] in ('use', 'agg', 'cast'):
                        ops = [Operand(s.rv['o'])] if s.rv['k'] in ('use', 'cast') else [Operand(o) for o in s.rv['ops']]
                        for o in ops:
                            if o.place is not None and re.search(r'(String|str|Regex|Char4)', o.ty or ''):
                                sinks.append(('store into Filter.%s' % [e['n'] for e in s.place.p if e['k'] == 'f'][-1], o, s.sp))
                if not sinks:
                    continue
                if cfg is None:
                    cfg = CFG(b)
                    pr = Prov(cfg)
                for (what, o, sp) in sinks:
                    n += 1
                    F7.sites += 1
                    toks = pr.operand(o, at=blk.i)
                    bad = sorted(set(c for c in calls_in(toks) if NORMALISE.search(c)))
                    if bad:
                        F7.violation(('text-normalised', f.path, bad[0].split('::')[-1]), '%s: the %s at %s derives from %s - criterion text (payload text, ids, regex sources) is whitespace/case significant, '
                                     'the same filter loaded through another front-end matches different messages' % (f.path, what, b.loc(sp), ', '.join(x.split('::')[-1] + '()' for x in bad)), where=b.loc(sp))
                    else:
                        F7.ok(sample={'front_end': f.path, 'sink': what, 'at': b.loc(sp), 'normalising_calls_in_provenance': 0})
    F7.floor('text sinks in the front-ends', n, 6)


# ---------------------------------------------------------------------------------------------
# F8: an explicit is-regex flag wins over the auto-detection

def check_autodetect_only_when_absent(F, F8):
    """"decides identically whether loaded via JSON, DLF ..": Serialize always writes `xxxIsRegex: false` for a literal id, DLF
    files carry enableregexp_* flags.  `contains_regex_chars(text)` may therefore only decide when that flag is absent: the
    call sits in the default closure of `unwrap_or_else` / `map_or_else` on the flag, or behind the None edge of the flag
    lookup.  `flag.unwrap_or(false) || contains_regex_chars(s)` turns an explicit "literal" into a regex (`A.B` matches `AxB`)."""
    fronts = [b for b in F.order if b.crate == 'lib' and b.path.startswith('adlt::filter::') and '::tests' not in b.path and b.kind != 'closure' and
              re.search(r'filter_impl::Filter\b', b.ret_type()) and b.arg_count >= 1]
    group = []
    for f in fronts:
        for x in [f] + list(F.closures_of(f.path)):
            if x not in group:
                group.append(x)
            for blk in x.calls():
                H = F.get(blk.term.callee.resolved) if blk.term.callee.resolved else F.get(blk.term.callee.path)
                if H is not None and H.crate == 'lib' and H.path.startswith('adlt::filter::') and H.kind != 'closure' and H not in group and 'tests' not in H.path:
                    group.append(H)
                    group += [c for c in F.closures_of(H.path) if c not in group]
    n = 0
    for x in group:
        cfg = E = None
        for blk in x.calls():
            if not blk.term.callee.path.endswith('utils::contains_regex_chars'):
                continue
            n += 1
            F8.sites += 1
            F8.fn(x.path)
            why = None
            if x.kind == 'closure':
                root = F.get(x.closure_of) if x.closure_of else None
                import comparators
                parents = ([root] + list(F.closures_of(root.path))) if root is not None else []
                for parent in parents:
                    if parent is x:
                        continue
                    for pb in parent.calls():
                        if re.search(r'Option::<T>::(unwrap_or_else|map_or_else)$', pb.term.callee.path):
                            for a in pb.term.args[1:2]:
                                c = comparators.closure_path_of(F, parent, a) if re.match(r'(&mut |&)?\{closure@', a.ty or '') else None
                                if c is not None and c.path == x.path:
                                    why = 'default closure of %s on the explicit flag' % pb.term.callee.path.split('::')[-1]
            if why is None:
                cfg = cfg or CFG(x)
                E = E or ExprBuilder(cfg, fold_named=True)
                for (c, truth, D) in guards.known(cfg, E, blk.i):
                    sc = show(c)
                    if (truth in (False, ('eq', 0)) or (isinstance(truth, tuple) and truth[0] == 'ne' and 1 in truth[1])) and sc.startswith('discr(') and re.search(r'(Value::as_bool\(|HashMap::<K, V, S(, A)?>::get\(|HashMap::get\()', sc):
                        why = 'behind the None edge of the explicit flag lookup'
            if why:
                F8.ok(sample={'autodetect_at': x.loc(blk.term.sp), 'decides_only': why})
            else:
                F8.violation(('autodetect-overrides-explicit-flag', x.closure_of or x.path), '%s calls contains_regex_chars() at %s outside the "flag absent" path: an explicit `IsRegex: false` / `enableregexp = 0` is overridden for ids containing regex characters, '
                             'so the same filter matches different messages after a serialise/reload or through another front-end' % (x.path, x.loc(blk.term.sp)), where=x.loc(blk.term.sp))
    F8.floor('auto-detection sites in the filter front-ends', n, 3)


# ---------------------------------------------------------------------------------------------
# F9: the literal ignore-case matcher is an escaped regex

def check_literal_regex_escaped(F, F9):
    """A payload criterion without the regex flag is a literal.  With ignore-case it is matched through a compiled regex kept in
    `payload_as_regex` - which is only the same criterion if the text went through `regex::escape` first (`a.c` must not
    match `abc`, `foo(` must not be a syntax error).  Every value that reaches the field `payload_as_regex` of a Filter
    (direct store or operand of the construction) and whose provenance contains a regex constructor must also contain
    regex::escape in that provenance."""
    from prov import Prov, calls_in
    n = 0
    for b in F.order:
        if b.crate != 'lib' or not b.path.startswith('adlt::filter::') or '::tests' in b.path:
            continue
        cfg = pr = None
        for blk in b.blocks:
            if blk.cleanup:
                continue
            for s in blk.stmts:
                if s.k != 'assign':
                    continue
                ops = []
                fl = [e for e in s.place.p if e['k'] == 'f']
                if fl and fl[-1]['n'] == 'payload_as_regex' and fl[-1].get('o') == FILTER:
                    ops = s.rv_operands()
                elif s.rv['k'] == 'agg' and s.rv.get('adt') == FILTER and 'payload_as_regex' in (s.rv.get('fields') or []):
                    ops = [Operand(s.rv['ops'][s.rv['fields'].index('payload_as_regex')])]
                if not ops:
                    continue
                cfg = cfg or CFG(b)
                pr = pr or Prov(cfg)
                toks = set()
                for o in ops:
                    toks |= pr.operand(o, at=blk.i)
                calls = calls_in(toks)
                builds = [c for c in calls if re.search(r'(Regex::new|RegexBuilder::new|RegexBuilder::build)$', c)]
                if not builds:
                    continue
                n += 1
                F9.sites += 1
                F9.fn(b.path)
                if any(c.endswith('regex::escape') for c in calls):
                    F9.ok(sample={'function': b.path, 'store_at': b.loc(s.sp), 'compiled_from': 'regex::escape(text)'})
                else:
                    F9.violation(('literal-regex-not-escaped', b.path), '%s stores into payload_as_regex at %s a regex that is not built from regex::escape(text): the literal payload criterion is interpreted as a regular expression '
                                 '(`a.c` matches `abc`, `foo(` is rejected) - but only with ignore-case and only through this front-end' % (b.path, b.loc(s.sp)), where=b.loc(s.sp))
    F9.floor('compiled literal matchers stored into payload_as_regex', n, 1)
