"""C17 - embedded file transfers are reassembled bit-exactly or not at all (structural clauses).

Decided: V1 auto-save creates the file only on the false edge of Path::exists of the same path;
V2 the auto-save path is dir.join(base_name(..)) with base_name derived from Path::file_name, and
the plugin has exactly the two reviewed file-creating sites; V3 the state `Complete` is only stored
in check_finished, under comparisons of the received counters/sizes, and check_finished(false) is
only reached behind a state test; V4 payload is appended only on the expected-package edge together
with next_package += 1 and recvd_payload += len; V5 completed data moves to the save table only
through the `state == Complete` filter and `save` writes only from that table.
Not decided: byte identity for all segmentations, duplicates and interleavings."""
import re
from cfg import CFG
from expr import ExprBuilder, show, walk
from facts import Operand, Place
import guards, comparators

LEVEL = 'proof'
EXPLANATION = ('Dominance/guard rules over the MIR of the file-transfer plugin: the create call is dominated by !exists of the same path; provenance of the path expression; '
               'who-may-store of the Complete state; pairing of append and counters under the expected-package guard; provenance of saved data.')
ASSUMPTIONS = [
    'decides structural clauses only: bit-exactness for all segmentations/faults is NOT decided',
    'Path::join/file_name/exists and File::create from std behave as documented (a TOCTOU race between exists and create is outside the rule)',
]
MANIFEST = {'text': 'proof (dominators, must-pass-through, provenance) of: no-overwrite and confinement of auto-save, Complete only from the size/sequence-checked sites, payload appended only for the expected package '
                    'with paired counters, only Complete transfers reach the save table.'
                    ' Added: Complete on the data path requires size equality on every path; whenever the received-payload counter advances the package is appended (unless nothing is kept). Added: the index announced in tree items and the keys of the save table are positions in self.transfers (enumerate directly over it). Added: the payload counter is reset only together with the data buffer; an expected package of exactly buffer_size bytes is always accepted. Added: every handled package is counted as received on every path to check_finished. Added: the numeric argument decoder selects from_be_bytes / from_le_bytes by the byte order of the argument and looks at a fixed byte only for one-byte values. Added: the auto-save base name is cut by Path::file_name() only (no second, separator-specific way that keeps other directory parts).'}

MOD = 'adlt::plugins::file_transfer::'
CREATE = re.compile(r'^(std::fs::File::create|std::fs::File::create_new|std::fs::OpenOptions::open|std::fs::write|std::fs::File::options|std::fs::rename|std::fs::copy|std::fs::remove_file)$')


def run(F, chk):
    V1 = chk.rule('V1', 'auto-save: File::create is dominated by the false edge of Path::exists on the same path')
    V2 = chk.rule('V2', 'auto-save path = dir.join(base_name(..)); base_name derives from Path::file_name; exactly the two reviewed file-creating sites exist in the plugin')
    V3 = chk.rule('V3', '`Complete` is stored only in check_finished under counter/size comparisons; check_finished(false) is only reached behind a state test')
    V4 = chk.rule('V4', 'payload is appended only under package_nr == next_package (and the size test), paired with next_package += 1 and recvd_payload += len')
    V5 = chk.rule('V5', 'data reaches the save table only through the `state == Complete` filter; `save` writes only data taken from that table')
    bodies = [b for b in F.order if b.path.startswith(MOD) or (b.impl_self or '').startswith(MOD) or b.path.startswith('<' + MOD)]
    V1.floor('bodies of the file-transfer plugin', len(bodies), 20)
    V6 = chk.rule('V6', 'every index that picks a transfer while a message is processed derives, on every definition, from the transfers_idx entry for (msg.ecu, msg.lifecycle, serial)')
    check_routing(F, [b for b in bodies if '::tests::' not in b.path], V6)
    V7 = chk.rule('V7', 'the transfer index announced in tree items (cmdCtx.save.idx) and the keys of the save table are positions in self.transfers: enumerate() directly over self.transfers')
    check_index_space(F, V7)
    V8 = chk.rule('V8', 'the received-payload counter is reset only together with the data buffer (a restart that keeps old bytes would be reported complete with a stale prefix)')
    check_counter_reset_with_data(F, [b for b in bodies if '::tests::' not in b.path], V8)
    V9 = chk.rule('V9', 'a package with the expected number that is exactly buffer_size long is always accepted (rejection of an expected package requires len != buffer_size)')
    check_full_package_accepted(F, V9)
    V10 = chk.rule('V10', 'every data package handled for an unfinished transfer is counted as received (recvd_packages += 1 on every path to check_finished), whether or not its data is accepted')
    check_every_package_counted(F, V10)
    V11 = chk.rule('V11', 'numeric FLST/FLDA arguments are decoded by from_be_bytes / from_le_bytes selected by the argument\'s byte order: a single byte of the raw value is looked at only when the value is one byte long or under a test of is_big_endian')
    check_numeric_decode(F, V11)
    creates = []
    for b in bodies:
        for blk in b.calls():
            if CREATE.match(blk.term.callee.path):
                creates.append((b, blk))
    # a private write helper (`fn write_new_file(path, data) { File::create(path)?.write_all(data) }`) used by the two reviewed
    # functions: its call sites stand for the create (path = the argument that reaches File::create; it truncates like the
    # original File::create only if it still is File::create / create(true)+truncate(true))
    lifted = []
    for (hb, hblk) in list(creates):
        if hb.kind == 'closure' or hb.path.endswith('check_auto_save') or hb.path.endswith('apply_command'):
            continue
        if hblk.term.callee.path not in ('std::fs::File::create', 'std::fs::write'):
            continue          # OpenOptions & co: the flags decide, not liftable
        hcfg = CFG(hb)
        a0 = hblk.term.args[0] if hblk.term.args else None
        o = hcfg.origin_of_operand(a0) if a0 is not None and a0.place is not None else None
        if o is None or not (1 <= o.l <= hb.arg_count) or any(e['k'] != 'deref' for e in o.p):
            continue
        if sum(1 for (b2, k2) in creates if b2 is hb) != 1:
            continue
        callers = [(b2, k2) for b2 in bodies for k2 in b2.calls() if (k2.term.callee.resolved or k2.term.callee.path) == hb.path]
        if callers and all(b2.path.endswith('check_auto_save') or b2.path.endswith('apply_command') or (b2.closure_of or '').endswith('check_auto_save') or (b2.closure_of or '').endswith('apply_command') for (b2, k2) in callers):
            creates.remove((hb, hblk))
            for (b2, k2) in callers:
                # present the call as `create(path, ..)`: the path argument first
                import copy
                vt = copy.copy(k2.term)
                vt.d = dict(k2.term.d)
                raw = list(k2.term.d['args'])
                vt.d['args'] = [raw[o.l - 1]] + [a for i_, a in enumerate(raw) if i_ != o.l - 1]
                vb = copy.copy(k2)
                vb.term = vt
                creates.append((b2, vb))
                lifted.append((b2.path, hb.path))
    V2.sites += len(creates)
    auto = [(b, blk) for (b, blk) in creates if b.path.endswith('check_auto_save') or (b.closure_of or '').endswith('check_auto_save')]
    other = [(b, blk) for (b, blk) in creates if (b, blk) not in auto]
    # V2 ceiling/floor on file-creating sites
    if len(creates) == 2 and len(auto) == 1:
        V2.ok(sample={'file_creating_sites': [b.loc(blk.term.sp) for (b, blk) in creates], 'auto_save': 1, 'explicit_save_command': 1})
    else:
        for (b, blk) in creates:
            if (b, blk) not in auto and not (b.path.endswith('apply_command')):
                V2.violation(('unreviewed-file-write', b.closure_of or b.path, blk.term.callee.path), 'the file-transfer plugin creates/writes files at %s (%s) which is not one of the two reviewed sites' % (b.loc(blk.term.sp), blk.term.callee.path), where=b.loc(blk.term.sp))
        V2.floor('file-creating sites (auto-save + save command)', len(creates), 2)
        if len(auto) != 1:
            V2.violation(('auto-save-sites', str(len(auto))), 'expected exactly one file-creating site in check_auto_save, found %d' % len(auto))
    for (b, blk) in auto:
        check_autosave(F, b, blk, V1, V2)
    check_complete(F, bodies, V3)
    check_append(F, bodies, V4)
    check_save_table(F, bodies, other, V5)


def check_autosave(F, b, blk, V1, V2):
    cfg = CFG(b)
    E = ExprBuilder(cfg, fold_named=True)
    V1.fn(b.path)
    V1.sites += 1
    t = blk.term
    path_e = strip(E.operand(t.args[0]))
    ok = False
    for (c, truth, D) in guards.known(cfg, ExprBuilder(cfg, fold_named=True), blk.i):
        if isinstance(c, tuple) and c[0] == 'call' and c[1].endswith('Path::exists') and truth is False:
            if same_path(strip(c[2][0]), path_e):
                ok = True
    if ok:
        V1.ok(sample={'create_at': b.loc(t.sp), 'guard': '!path.exists() on the same path value'})
    else:
        V1.violation(('create-without-exists-guard', b.path), 'auto-save calls %s at %s without a dominating `!path.exists()` test of the same path: an existing file could be overwritten' % (t.callee.path, b.loc(t.sp)), where=b.loc(t.sp))
    # V2 provenance: path = Path::join(X, &base_name_for_filetransfer(..))
    s = show(path_e)
    joins = [x for x in walk(path_e) if isinstance(x, tuple) and x and x[0] == 'call' and x[1].endswith('Path::join')]
    good = False
    for j in joins:
        second = show(j[2][1]) if len(j[2]) > 1 else ''
        if 'base_name_for_filetransfer' in second and 'file_name' not in second.replace('base_name_for_filetransfer', ''):
            good = True
    if good:
        V2.ok(sample={'auto_save_path': s[:140]})
    else:
        V2.violation(('auto-save-path', b.path), 'the auto-save path is %s: not dir.join(base_name_for_filetransfer(..)) — a transfer file name with directory parts could be written outside the configured directory' % s[:160], where=b.loc(t.sp))
    bn = [x for x in F.order if x.path.endswith('FileTransferPlugin::base_name_for_filetransfer')]
    if not bn:
        V2.violation(('anchor-lost', 'base_name_for_filetransfer'), 'base_name_for_filetransfer not found')
        return
    bb = bn[0]
    V2.fn(bb.path)
    c2 = CFG(bb)
    E2 = ExprBuilder(c2, fold_named=True)
    calls = [x.term.callee.path for x in bb.calls()]
    has_fn = any(p.endswith('Path::file_name') for p in calls)
    # every return definition must not be the raw file_name field
    raw = False
    for x in bb.blocks:
        if x.cleanup:
            continue
        for st in x.stmts:
            if st.k == 'assign' and st.place.is_local and st.place.l == 0:
                e = E2.rvalue(st.rv)
                if '.file_name' in show(e) and 'Path::file_name' not in show(e):
                    raw = True
        if x.term.k == 'call' and x.term.dest.is_local and x.term.dest.l == 0:
            e = ('call', x.term.callee.path, tuple(E2.operand(a) for a in x.term.args))
            sh = show(e)
            if 'Clone::clone' in sh and '.file_name' in sh:
                raw = True
    # .. and by nothing else: a second way to cut the name (split at '\\', rfind('/'), strip_prefix ..) next to Path::file_name keeps
    # whatever directory parts that way does not know (`C:\\logs\\../x`, `a\\/abs/p`)
    from prov import Prov, calls_in
    pr2 = Prov(c2)
    cut = set()
    for x in bb.blocks:
        if x.cleanup:
            continue
        ops_ = []
        for st in x.stmts:
            if st.k == 'assign' and st.place.is_local and st.place.l == 0:
                ops_ += st.rv_operands()
        if x.term.k == 'call' and x.term.dest.is_local and x.term.dest.l == 0:
            ops_ += x.term.args
        for o_ in ops_:
            for cpath in calls_in(pr2.operand(o_, at=x.i)):
                if re.search(r'(str|String)[^ ]*::(rsplit|split|rsplitn|splitn|rsplit_once|split_once|rfind|find|trim_start_matches|trim_end_matches|trim_matches|strip_prefix|strip_suffix|split_at|split_terminator|rsplit_terminator|get|get_unchecked|char_indices|rmatch_indices|match_indices)$', cpath) or \
                        (cpath.endswith('Index::index') and False):
                    cut.add(cpath.split('::')[-1])
    if has_fn and not raw and cut:
        V2.violation(('base-name-second-cut', bb.path, '+'.join(sorted(cut))), 'base_name_for_filetransfer cuts the transfer file name also by %s, not only by Path::file_name(): directory parts that this second way does not know survive in the base name and are joined onto the auto-save directory' % ', '.join(sorted(cut)), where=bb.loc(None))
    elif has_fn and not raw:
        V2.ok(sample={'base_name': 'derived from Path::file_name() (or a fixed placeholder)'})
    else:
        V2.violation(('base-name-raw', bb.path), 'base_name_for_filetransfer no longer derives the name from Path::file_name() (directory parts of the transfer file name are kept)', where=bb.loc(None))


def strip(e):
    while isinstance(e, tuple) and e[0] in ('ref', 'cast'):
        e = e[1]
    if isinstance(e, tuple) and e[0] == 'proj' and all(p == '*' for p in e[2:]):
        return strip(e[1])
    if isinstance(e, tuple) and e[0] == 'call' and re.search(r'::(deref|as_ref|borrow|as_path)$', e[1]) and e[2]:
        return strip(e[2][0])
    return e


def same_path(a, b):
    return a == b or show(a) == show(b)


def is_complete(e):
    return isinstance(e, tuple) and e[0] == 'agg' and e[1].endswith('FileTransferState::Complete')


def check_complete(F, bodies, V3):
    n = 0
    for b in bodies:
        cfg = None
        for blk in b.blocks:
            if blk.cleanup:
                continue
            for s in blk.stmts:
                if s.k == 'assign' and any(e['k'] == 'f' and e['n'] == 'state' for e in s.place.p) and \
                        is_complete(ExprBuilder(CFG(b)).rvalue(s.rv)):
                    n += 1
                    V3.sites += 1
                    V3.fn(b.path)
                    callers = set(x.path for x in F.order for cb in x.calls() if cb.term.callee.path == b.path)
                    helper_of_cf = bool(callers) and all(c.endswith('FileTransfer::check_finished') for c in callers)
                    if not b.path.endswith('FileTransfer::check_finished') and not helper_of_cf:
                        V3.violation(('complete-stored-elsewhere', b.closure_of or b.path), 'FileTransferState::Complete is stored in %s; only check_finished (after its counter/size comparisons), or a helper called from nowhere else, may do that' % b.path, where=b.loc(s.sp))
                        continue
                    cfg = cfg or CFG(b)
                    E = ExprBuilder(cfg)
                    conds = [show(c) for (c, t, D) in guards.known(cfg, E, blk.i) if t in (True, False)]
                    # `let got_all = next > nr; let size_ok = size == 0 || size == recvd; if got_all && size_ok`: a named bool that holds
                    # stands for the comparison(s) it was computed from
                    for (c, t, D) in guards.known(cfg, E, blk.i):
                        if t is True and isinstance(c, tuple) and c[0] == 'place' and len(c) == 2:
                            for l_ in b.locals_named(c[1]):
                                if b.lty(l_) != 'bool':
                                    continue
                                for (bi_, si_, d_) in cfg.defs.get(l_, []):
                                    if si_ != 'call':
                                        conds.append(show(E.rvalue(d_.rv)))
                                        conds += [show(c2) for (c2, t2, D2) in guards.known(cfg, E, bi_) if t2 is True and D2 != D]
                    joined = ' ; '.join(conds)
                    ok = ('recvd_packages' in joined and 'next_package' in joined) or ('next_package' in joined and 'nr_packages' in joined and ('recvd_payload' in joined or 'file_size' in joined)) or \
                         ('next_package' in joined and 'nr_packages' in joined)
                    # the size clause lives in a short-circuit condition: require that some block dominating the store tests file_size/recvd_payload OR recvd_packages
                    if ok:
                        V3.ok(sample={'store_at': b.loc(s.sp), 'under': joined[:200]})
                    else:
                        V3.violation(('complete-unguarded', b.path), 'Complete is stored at %s without dominating comparisons of the received counters/sizes (conditions: %s)' % (b.loc(s.sp), joined[:160]), where=b.loc(s.sp))
    V3.floor('stores of FileTransferState::Complete', n, 2)
    # on the data path (from_flfi == false) Complete requires, on every path, the true edge of an *equality* test
    # file_size == recvd_payload or file_size == 0 (unknown size); an inequality lets a resized last package through
    from paths import Explorer
    cf = [b for b in bodies if b.path.endswith('FileTransfer::check_finished')]
    for b in cf:
        cfg = CFG(b)
        E = ExprBuilder(cfg)

        def eq_kind(c):
            if not (isinstance(c, tuple) and c[0] == 'bin' and c[1] == 'Eq'):
                return None
            a, d = show(c[2]), show(c[3])
            if ('file_size' in a and 'recvd_payload' in d) or ('recvd_payload' in a and 'file_size' in d):
                return 'size'
            if ('file_size' in a and c[3] == ('const', 0)) or ('file_size' in d and c[2] == ('const', 0)):
                return 'unknown'
            return None

        def named_bool_is_size_test(c):
            """the switch is on a named bool every definition of which is the size comparison itself, `false`, or `true` behind the
            true edge of a size comparison (`let size_ok = size == 0 || size as usize == recvd;`)"""
            if not (isinstance(c, tuple) and c[0] == 'place' and len(c) == 2):
                return False
            ls_ = [l_ for l_ in b.locals_named(c[1]) if b.lty(l_) == 'bool']
            if len(ls_) != 1 or not cfg.defs.get(ls_[0]):
                return False
            for (bi_, si_, d_) in cfg.defs[ls_[0]]:
                if si_ == 'call':
                    return False
                v = E.rvalue(d_.rv)
                if eq_kind(v) or v == ('const', 0):
                    continue
                if v == ('const', 1) and any(t2 is True and eq_kind(c2) for (c2, t2, D2) in guards.known(cfg, E, bi_)):
                    continue
                return False
            return True

        def edge_effect(blk, tgt, facts):
            if blk.term.k == 'switch' and ('sizeok',) not in facts:
                k = eq_kind(E.switch_cond(blk)) or named_bool_is_size_test(E.switch_cond(blk))
                if k:
                    vals = blk.term.d['vals']
                    true_edge = (blk.term.d['otherwise'] == tgt and [v for v, _ in vals] == [0]) or any(t == tgt and v != 0 for v, t in vals)
                    if true_edge:
                        return frozenset(facts | {('sizeok',)})
            return facts
        from paths import partial_flags
        ex = Explorer(cfg, edge_effect=edge_effect, var_roots=set(), extra_flags=partial_flags(cfg))
        ex.run()
        found = 0
        for blk in b.blocks:
            if blk.cleanup:
                continue
            for s_ in blk.stmts:
                if s_.k == 'assign' and any(e['k'] == 'f' and e['n'] == 'state' for e in s_.place.p) and is_complete(E.rvalue(s_.rv)):
                    data_path = any(isinstance(c, tuple) and c[0] == 'place' and c[1] == 'from_flfi' and t is False for (c, t, D) in guards.known(cfg, E, blk.i))
                    if not data_path:
                        continue
                    found += 1
                    bad = [st for st in ex.states.get(blk.i, ()) if ('sizeok',) not in st[1]]
                    if bad:
                        V3.violation(('size-equality-missing', b.path), 'on the data path check_finished can declare the transfer Complete at %s without the announced file size being equal to the received payload (or unknown = 0): a resized package yields a "complete" damaged file' % b.loc(s_.sp),
                                     where=b.loc(s_.sp), witness={'block_path': ex.witness(blk.i, bad[0])})
                    else:
                        V3.ok(sample={'check_finished': 'Complete on the data path only after file_size == recvd_payload or file_size == 0', 'at': b.loc(s_.sp)})
        V3.floor('Complete stores on the data path of check_finished', found, 1)
    # callers of check_finished(false) behind a state test
    for b in bodies:
        for blk in b.calls():
            t = blk.term
            if t.callee.path.endswith('FileTransfer::check_finished') and len(t.args) == 2 and t.args[1].is_const and t.args[1].value == 0:
                cfg = CFG(b)
                tests = set(x.i for x in b.calls() if x.term.callee.path.endswith('PartialEq::eq') and 'FileTransferState' in (x.term.args[0].ty or ''))
                # `match self.state { Started | MissingStart => .., _ => return }` tests the discriminant directly
                Es = ExprBuilder(cfg, fold_named=True)
                for x in b.blocks:
                    if not x.cleanup and x.term.k == 'switch':
                        sc = show(Es.switch_cond(x))
                        if sc.startswith('discr(') and sc.rstrip(')').endswith('.state'):
                            tests.add(x.i)
                r = cfg.reachable_from(0, avoid=tests)
                V3.sites += 1
                if tests and blk.i not in r:
                    V3.ok(sample={'check_finished(false)_call_in': b.path, 'behind': 'a test of self.state on every path'})
                else:
                    V3.violation(('check-finished-unguarded', b.path), 'check_finished(false) is reachable in %s without a test of the transfer state: an Incomplete transfer could become Complete' % b.path, where=b.loc(t.sp))


def check_append(F, bodies, V4):
    n = 0
    for b in bodies:
        sites = [blk for blk in b.calls() if blk.term.callee.path.endswith('::extend_from_slice') or blk.term.callee.path.endswith('Vec::<T, A>::append') or blk.term.callee.path.endswith('Vec::<T, A>::push')]
        sites = [blk for blk in sites if any(a.place is not None and any(e['k'] == 'f' and e['n'] == 'file_data' for e in a.place.p) for a in blk.term.args) or
                 'file_data' in show(ExprBuilder(CFG(b)).operand(blk.term.args[0]))]
        if not sites:
            continue
        cfg = CFG(b)
        E = ExprBuilder(cfg)
        for blk in sites:
            n += 1
            V4.sites += 1
            V4.fn(b.path)
            kn = guards.known(cfg, E, blk.i)
            conds = [(show(c), t) for (c, t, D) in kn]
            seq_ok = any(t is True and s.startswith('Eq(') and 'package_nr' in s and 'next_package' in s for s, t in conds)
            # counters incremented in a block that dominates the append and is itself under the same sequence guard
            inc_np = inc_rp = False
            for x in b.blocks:
                if x.cleanup:
                    continue
                for st in x.stmts:
                    if st.k == 'assign':
                        tg = show(E.target(st.place))
                        ev = show(E.rvalue(st.rv))
                        if tg.endswith('.next_package') and ev.startswith('Add(') and 'next_package' in ev and ev.endswith(', 1)') and (cfg.dominates(x.i, blk.i) or cfg.dominates(blk.i, x.i)):
                            inc_np = True
                        if tg.endswith('.recvd_payload') and ev.startswith('Add(') and 'recvd_payload' in ev and 'len' in ev and (cfg.dominates(x.i, blk.i) or cfg.dominates(blk.i, x.i)):
                            inc_rp = True
            if seq_ok and inc_np and inc_rp:
                V4.ok(sample={'append_at': b.loc(blk.term.sp), 'guard': 'package_nr == next_package', 'paired': 'next_package += 1, recvd_payload += len'})
            else:
                V4.violation(('append-unpaired', b.path, 'seq%s' % seq_ok, 'np%s' % inc_np, 'rp%s' % inc_rp),
                             'file data is appended at %s without (expected-package guard: %s, next_package += 1: %s, recvd_payload += len: %s)' % (b.loc(blk.term.sp), seq_ok, inc_np, inc_rp), where=b.loc(blk.term.sp))
    V4.floor('append sites to file_data', n, 1)
    # converse: whenever the received-payload counter advances, the bytes are appended too - on every path, except under the
    # established "nothing is kept" idiom `file_data.capacity() > 0` == false
    m = 0
    for b in bodies:
        cfg = None
        for x in b.blocks:
            if x.cleanup:
                continue
            for st in x.stmts:
                if st.k != 'assign':
                    continue
                cfg = cfg or CFG(b)
                E = ExprBuilder(cfg)
                tg = show(E.target(st.place))
                ev = show(E.rvalue(st.rv))
                if not (tg.endswith('.recvd_payload') and ev.startswith('Add(') and 'recvd_payload' in ev and 'len' in ev):
                    continue
                m += 1
                V4.sites += 1
                appends = set(y.i for y in b.calls() if (y.term.callee.path.endswith('::extend_from_slice') or y.term.callee.path.endswith('Vec::<T, A>::append')) and
                              'file_data' in show(E.operand(y.term.args[0])))
                excused = set()
                for y in b.blocks:
                    if y.cleanup or y.term.k != 'switch':
                        continue
                    c, t = guards.normalise(E.switch_cond(y), True)
                    sc = show(c)
                    if re.match(r'(Gt|Ne)\(Vec::capacity\(&?\(\*self\)\.file_data\), 0\)$', sc):
                        excused |= set(tt for v, tt in y.term.d['vals'] if v == 0)
                    elif re.match(r'Eq\(Vec::capacity\(&?\(\*self\)\.file_data\), 0\)$', sc):
                        excused.add(y.term.d['otherwise'])
                r = cfg.reachable_from(x.i, avoid=appends | excused)
                esc = [e for e in cfg.exits if e in r]
                if appends and not esc:
                    V4.ok(sample={'counter_advance_at': b.loc(st.sp), 'followed_by': 'append of the package on every path (or nothing is kept: capacity() == 0)'})
                else:
                    V4.violation(('counted-not-appended', b.path), 'recvd_payload advances at %s but a path to the end of %s skips the append of the package although data is kept (capacity() > 0): '
                                 'the transfer completes with the announced size while file_data misses bytes' % (b.loc(st.sp), b.path), where=b.loc(st.sp))
    V4.floor('advances of recvd_payload', m, 1)


def check_save_table(F, bodies, other_creates, V5):
    # inserts into completed_transfers
    n = 0
    for b in bodies:
        for blk in b.calls():
            t = blk.term
            if re.search(r'(HashMap|BTreeMap)::<.*>::insert$', t.callee.path) and 'completed_transfers' in show(ExprBuilder(CFG(b)).operand(t.args[0])):
                n += 1
                V5.sites += 1
                V5.fn(b.path)
                # the iterated collection was produced by Iterator::filter with a closure comparing state with Complete
                ok = False
                for x in b.calls():
                    if x.term.callee.path.endswith('Iterator::filter'):
                        for a in x.term.args:
                            if '{closure@' in (a.ty or ''):
                                cl = comparators.closure_path_of(F, b, a)
                                if cl is not None:
                                    ce = ExprBuilder(CFG(cl))
                                    txt = ' '.join(show(ce.operand(aa)) for y in cl.calls() for aa in y.term.args)
                                    if 'state' in txt and 'FileTransferState::Complete' in txt:
                                        ok = True
                if ok:
                    V5.ok(sample={'insert_at': b.loc(t.sp), 'source': 'transfers filtered by state == Complete'})
                else:
                    V5.violation(('save-table-unfiltered', b.path), 'data is inserted into the save table at %s without the `state == Complete` filter' % b.loc(t.sp), where=b.loc(t.sp))
    V5.floor('inserts into completed_transfers', n, 1)
    for (b, blk) in other_creates:
        cfg = CFG(b)
        E = ExprBuilder(cfg, fold_named=True)
        # the written data: argument of write_all in the and_then closure is a capture `data`; find where `data` comes from in b
        src = None
        for x in b.calls():
            if re.search(r'(HashMap|BTreeMap)::<.*>::get$', x.term.callee.path) and 'completed_transfers' in show(E.operand(x.term.args[0])):
                if cfg.dominates(x.i, blk.i):
                    src = x
        V5.sites += 1
        if src is not None:
            V5.ok(sample={'save_command_create_at': b.loc(blk.term.sp), 'data_from': 'completed_transfers.get(idx)'})
        else:
            V5.violation(('save-source', b.closure_of or b.path), 'the save command creates a file at %s whose data is not taken from the completed-transfers table' % b.loc(blk.term.sp), where=b.loc(blk.term.sp))


# ---------------------------------------------------------------------------------------------
# V6: a package is routed to the transfer found under (ecu, lifecycle, serial)

def check_routing(F, bodies, V6):
    """Transfers are identified by (ecu, lifecycle, serial) - the key of `transfers_idx`.  Every index with which the plugin
    picks a transfer out of `self.transfers` while processing a message must, on *every* definition that can reach it (a
    must-provenance: each branch of a phi separately), derive from a `transfers_idx` lookup/insert position computed for
    msg.ecu and msg.lifecycle - or be the position of the transfer just pushed.  A shortcut keyed by the serial alone
    routes the packages of one ECU's transfer into the transfer of another ECU with the same serial."""
    from prov import Prov
    n = 0
    for b in bodies:
        sites = []
        for blk in b.calls():
            t = blk.term
            if re.search(r'(Vec::<T, A>::get_mut|Vec::<T, A>::get|slice::<impl \[T\]>::get_mut|slice::<impl \[T\]>::get|ops::Index::index|ops::IndexMut::index_mut)$', t.callee.path) and len(t.args) > 1 and \
                    re.search(r'file_transfer::FileTransfer[\]>]', (t.args[0].ty or '')) and 'transfers' in show(ExprBuilder(CFG(b)).operand(t.args[0])):
                sites.append(blk)
        if not sites or not any('DltMessage' in t for t in b.arg_types()):
            continue
        cfg = CFG(b)
        pr = Prov(cfg)

        def tok_ok(toks):
            ecu = any(t[0] == 'fld' and t[1] == 'adlt::dlt::DltMessage' and t[2] == 'ecu' for t in toks)
            lc = any(t[0] == 'fld' and t[1] == 'adlt::dlt::DltMessage' and t[2] == 'lifecycle' for t in toks)
            tab = any(t[0] == 'fld' and t[2] == 'transfers_idx' for t in toks)
            pushed = any(t[0] == 'call' and t[1].endswith('::len') for t in toks) and any(t[0] == 'fld' and t[2] == 'transfers' for t in toks)
            return (ecu and lc and tab) or (pushed and not tab and not any(t[0] == 'fld' and t[2] not in ('transfers',) and t[1].endswith('FileTransferPlugin') for t in toks))

        def must(op, at, depth=0, seen=None):
            """every definition reaching this operand satisfies tok_ok (phi branches separately)"""
            seen = seen if seen is not None else set()
            if op.is_const:
                return True
            if op.place is None or depth > 6:
                return False
            l = op.place.l
            if not op.place.is_local and not all(e['k'] in ('deref', 'f', 'dc', 'downcast') for e in op.place.p):
                return tok_ok(pr.operand(op, at=at))
            if any(e['k'] == 'f' and e.get('o', '').startswith('adlt') for e in op.place.p):
                return tok_ok(pr.operand(op, at=at))      # read of a struct field (e.g. a cache): judged by its own provenance
            if l in seen:
                return True
            seen.add(l)
            ds = cfg.defs.get(l, [])
            if not ds:
                return tok_ok(pr.operand(op, at=at))
            for (bi, si, d) in ds:
                if at is not None and bi != at and at not in pr.reach(bi):
                    continue
                if si == 'call':
                    toks = {('call', d.callee.path)}
                    for a in d.args:
                        toks |= pr.operand(a, at=bi)
                    if not tok_ok(toks):
                        return False
                    continue
                rv = d.rv
                if rv['k'] in ('use', 'cast'):
                    if not must(Operand(rv['o']), bi, depth + 1, seen):
                        return False
                elif rv['k'] == 'agg':
                    for o in rv['ops']:
                        if not must(Operand(o), bi, depth + 1, seen):
                            return False
                elif rv['k'] in ('ref', 'rawptr'):
                    if not must(Operand({'k': 'copy', 'p': rv['p']}), bi, depth + 1, seen):
                        return False
                else:
                    toks = set()
                    for o in d.rv_operands():
                        toks |= pr.operand(o, at=bi)
                    if not tok_ok(toks):
                        return False
            return True
        for blk in sites:
            n += 1
            V6.sites += 1
            V6.fn(b.path)
            if must(blk.term.args[1], blk.i):
                V6.ok(sample={'function': b.path, 'transfer_picked_at': b.loc(blk.term.sp), 'index_derives_from': 'transfers_idx[(msg.ecu, msg.lifecycle, serial)] on every definition'})
            else:
                V6.violation(('transfer-not-keyed', b.closure_of or b.path), '%s picks a transfer at %s with an index that, on some definition reaching it, does not come from the transfers_idx entry for (msg.ecu, msg.lifecycle, serial): '
                             'packages of one ECU/lifecycle can be appended to the transfer of another one with the same serial' % (b.path, b.loc(blk.term.sp)), where=b.loc(blk.term.sp))
    V6.floor('sites picking a transfer by index while processing a message', n, 2)


# ---------------------------------------------------------------------------------------------
# V7: one index space for the save table and the announced save context

TRANSFERS_ITER = re.compile(r'::(iter|iter_mut|into_iter|deref|deref_mut|as_slice|as_mut_slice)$')


def over_transfers(e):
    """is `e` an iterator directly over self.transfers (no sort / filter / collect / rev / skip in between)"""
    for _ in range(12):
        if not isinstance(e, tuple):
            return False
        if e[0] in ('ref', 'cast'):
            e = e[1]
        elif e[0] == 'proj' and all(p_ == '*' for p_ in e[2:]):
            e = e[1]
        elif e[0] == 'call' and TRANSFERS_ITER.search(e[1]) and len(e[2]) == 1:
            e = e[2][0]
        elif e[0] == 'place':
            return e[1] == 'self' and e[-1] == '.transfers'
        else:
            return False
    return False


def check_index_space(F, V7):
    """`save` looks the bytes up by the index the client sends back from cmdCtx.save.idx; the table is keyed by the position of
    the transfer in self.transfers.  Both must be the same index space: in update_state (the only place that fills the
    table and renders the tree items)
      (a) every enumerate() whose items carry a FileTransfer is applied directly to an iterator over self.transfers
          (enumerating a sorted / filtered / collected sequence numbers something else), and
      (b) the index handed to the item renderer (closure (usize, &FileTransfer) -> Value) is, at every call, the index
          component of such an enumeration."""
    b = F.get(MOD + 'FileTransferPlugin::update_state')
    if b is None:
        V7.violation(('anchor-lost', 'update_state'), 'FileTransferPlugin::update_state not found')
        return
    bodies = [b] + list(F.closures_of(b.path))
    for x in bodies:
        V7.fn(x.path)
    n_enum = 0
    good_enum_blocks = {}
    for x in bodies:
        cfg = CFG(x)
        E = ExprBuilder(cfg, fold_named=True)
        for blk in x.calls():
            t = blk.term
            if t.callee.path.endswith('Iterator::enumerate') and 'FileTransfer' in (t.dest.t or ''):
                n_enum += 1
                V7.sites += 1
                src = E.operand(t.args[0])
                if over_transfers(src):
                    V7.ok(sample={'enumerate_at': x.loc(t.sp), 'over': 'self.transfers', 'items': t.dest.t[:80]})
                    good_enum_blocks[(x.path, blk.i)] = True
                else:
                    V7.violation(('index-space', x.closure_of or x.path, 'enumerate'), 'update_state numbers transfers by enumerate() over %s at %s, which is not self.transfers itself: the numbers are not positions in self.transfers, '
                                 'so a `save` with that idx writes the bytes of another transfer (or fails)' % (show(src)[:90], x.loc(t.sp)), where=x.loc(t.sp))
    V7.floor('enumerate() sites over transfers in update_state', n_enum, 2)
    # (b) the renderer and its call sites
    renderers = [c for c in F.closures_of(b.path) if c.arg_count == 3 and c.arg_types()[1] == 'usize' and 'FileTransfer' in c.arg_types()[2] and 'serde_json::Value' in c.ret_type()]
    V7.floor('tree item renderer closures (usize, &FileTransfer) -> Value', len(renderers), 1)
    n_calls = 0
    for r in renderers:
        for x in bodies:
            cfg = CFG(x)
            E = ExprBuilder(cfg, fold_named=True)
            for blk in x.calls():
                t = blk.term
                if t.callee.path not in ('std::ops::Fn::call', 'std::ops::FnMut::call_mut', 'std::ops::FnOnce::call_once') or t.callee.resolved != r.path:
                    continue
                n_calls += 1
                V7.sites += 1
                tup = E.operand(t.args[1]) if len(t.args) > 1 else None
                idx = tup[2][0] if isinstance(tup, tuple) and tup[0] == 'agg' and tup[2] else None
                why = None
                # wrapper closure |(idx, t)| render(idx, t): idx is the first component of the wrapper's tuple parameter, and the
                # wrapper is mapped over an enumeration of self.transfers
                if x.kind == 'closure' and x.arg_count == 2 and x.arg_types()[1].startswith('(usize, &') and isinstance(idx, tuple) and idx[0] == 'place' and idx[1:] == (x.name_of(2) or 'arg2', '.0'):
                    uses = []
                    pc = CFG(b)
                    pE = ExprBuilder(pc, fold_named=True)
                    for pb in b.calls():
                        if any(re.match(r'(&mut |&)?\{closure@', a.ty or '') and comparators.closure_path_of(F, b, a) is not None and comparators.closure_path_of(F, b, a).path == x.path for a in pb.term.args):
                            uses.append(pb)
                    if uses and all(pb.term.callee.path.endswith('Iterator::map') and isinstance(pE.operand(pb.term.args[0]), tuple) and
                                    pE.operand(pb.term.args[0])[0] == 'call' and pE.operand(pb.term.args[0])[1].endswith('Iterator::enumerate') and
                                    over_transfers(pE.operand(pb.term.args[0])[2][0]) for pb in uses):
                        why = 'wrapper mapped over enumerate() of self.transfers (%d use(s))' % len(uses)
                elif isinstance(idx, tuple) and idx[0] == 'proj' and isinstance(idx[1], tuple) and idx[1][0] == 'call' and idx[1][1].endswith('Iterator::next') and tuple(idx[2:]) == ('@Some', '.0', '.0'):
                    it = idx[1][2][0]
                    while isinstance(it, tuple) and (it[0] == 'ref' or (it[0] == 'proj' and len(it) == 2) or (it[0] == 'call' and it[1].endswith('IntoIterator::into_iter'))):
                        it = it[1] if it[0] != 'call' else it[2][0]
                    if isinstance(it, tuple) and it[0] == 'call' and it[1].endswith('Iterator::enumerate') and over_transfers(it[2][0]):
                        why = 'loop over enumerate() of self.transfers'
                if why:
                    V7.ok(sample={'renderer_called_at': x.loc(t.sp), 'index_is': why})
                else:
                    V7.violation(('index-space', x.closure_of or x.path, 'renderer-index'), 'the tree item renderer is called at %s with index %s, which is not the position of the transfer in self.transfers: '
                                 'the announced cmdCtx.save.idx denotes another transfer in the save table' % (x.loc(t.sp), show(idx)[:70] if idx is not None else '?'), where=x.loc(t.sp))
    V7.floor('calls of the tree item renderer', n_calls, 1)


# ---------------------------------------------------------------------------------------------
# V8: counters and data are reset together

FT = 'adlt::plugins::file_transfer::FileTransfer'


def check_counter_reset_with_data(F, bodies, V8):
    """`recvd_payload` counts the bytes in `file_data`; Complete is declared when it equals the announced size and the bytes saved
    are `file_data`.  Besides the construction of a transfer (counter 0, fresh buffer) and the paired `+= len` / append (V4),
    any store to the counter (a reset when a transfer is restarted, ..) must come with a reset of the buffer on every path:
    a fresh Vec stored into / `clear()` / `truncate(0)` called on the same transfer's file_data in a block that dominates the
    store or lies on every path from it to the end of the function."""
    n = 0
    for b in bodies:
        cfg = E = None
        for blk in b.blocks:
            if blk.cleanup:
                continue
            for s in blk.stmts:
                if s.k != 'assign':
                    continue
                fl = [e for e in s.place.p if e['k'] == 'f']
                if s.rv['k'] == 'agg' and s.rv.get('adt') == FT:
                    n += 1
                    V8.sites += 1
                    V8.fn(b.path)
                    cfg = cfg or CFG(b)
                    E = E or ExprBuilder(cfg, fold_named=True)
                    fields = s.rv.get('fields', [])
                    cnt = E.operand(Operand(s.rv['ops'][fields.index('recvd_payload')])) if 'recvd_payload' in fields else None
                    dat = show(E.operand(Operand(s.rv['ops'][fields.index('file_data')]))) if 'file_data' in fields else ''
                    if cnt == ('const', 0) and re.match(r'Vec::(with_capacity|new)\(', dat):
                        V8.ok(sample={'construction_at': b.loc(s.sp), 'recvd_payload': 0, 'file_data': dat[:50]})
                    else:
                        V8.violation(('construction-counter-data', b.path), 'a FileTransfer is constructed at %s with recvd_payload = %s and file_data = %s (expected 0 and a fresh Vec)' % (b.loc(s.sp), show(cnt) if cnt is not None else '?', dat[:50]), where=b.loc(s.sp))
                    continue
                if not (fl and fl[-1]['n'] == 'recvd_payload' and fl[-1].get('o') == FT and s.place.p[-1] is fl[-1]):
                    continue
                cfg = cfg or CFG(b)
                E = E or ExprBuilder(cfg, fold_named=True)
                tgt = E.target(s.place)
                e = E.rvalue(s.rv)
                if isinstance(e, tuple) and e[0] == 'bin' and e[1] == 'Add' and e[2] == tgt:
                    continue          # the paired increment: rule V4
                n += 1
                V8.sites += 1
                V8.fn(b.path)
                owner = tgt[:-1]
                resets = set()
                for rb in b.blocks:
                    if rb.cleanup:
                        continue
                    for s2 in rb.stmts:
                        if s2.k == 'assign' and E.target(s2.place) == owner + ('.file_data',) and re.match(r'Vec::(with_capacity|new)\(', show(E.rvalue(s2.rv))):
                            resets.add(rb.i)
                    t2 = rb.term
                    if t2.k == 'call' and re.search(r'Vec::<T, A>::(clear|truncate)$', t2.callee.path) and t2.args:
                        a0 = E.operand(t2.args[0])
                        while isinstance(a0, tuple) and a0[0] == 'ref':
                            a0 = a0[1]
                        if a0 == owner + ('.file_data',) and (t2.callee.path.endswith('clear') or E.operand(t2.args[1]) == ('const', 0)):
                            resets.add(rb.i)
                    if t2.k == 'call' and t2.dest is not None and E.target(t2.dest) == owner + ('.file_data',) and re.search(r'Vec::<T(, A)?>::(with_capacity|new)$', t2.callee.path):
                        resets.add(rb.i)
                ok = any(cfg.dominates(r, blk.i) for r in resets) or (bool(resets) and not any(x in cfg.reachable_from(blk.i, avoid=resets) for x in cfg.exits if x not in resets))
                if ok:
                    V8.ok(sample={'counter_reset_at': b.loc(s.sp), 'buffer_reset_on_every_path': True})
                else:
                    V8.violation(('counter-reset-keeps-data', b.closure_of or b.path), '%s sets %s = %s at %s but the buffer %s.file_data is not reset on every path with it: the bytes of the aborted attempt stay in front, '
                                 'the counters match again after the re-sent packages and the transfer is reported Complete with a stale prefix' % (b.path, show(tgt), show(e)[:30], b.loc(s.sp), show(owner)), where=b.loc(s.sp))
    V8.floor('constructions / non-incrementing stores of the received-payload counter', n, 1)


# ---------------------------------------------------------------------------------------------
# V9: a full-size expected package is accepted

def check_full_package_accepted(F, V9):
    """"a transfer whose packages all arrive in order ... is reported complete": every package but the last is exactly buffer_size
    long, and so is the last one of a file whose size is a multiple of buffer_size.  So whenever the package carries the
    expected number, the only admissible reason to not accept it (advance next_package) is that its length differs from
    buffer_size: every path from the true edge of `package_nr == next_package` that reaches the end of the handler without the
    accepting store has crossed the false edge of `len == buffer_size`."""
    from paths import Explorer
    b = F.get(MOD + 'FileTransfer::add_flda')
    if b is None:
        V9.violation(('anchor-lost', 'add_flda'), 'FileTransfer::add_flda not found')
        return
    V9.fn(b.path)
    cfg = CFG(b)
    E = ExprBuilder(cfg, fold_named=True)
    acc = set()
    for blk in b.blocks:
        if blk.cleanup:
            continue
        for s in blk.stmts:
            if s.k == 'assign' and show(E.target(s.place)) == '(*self).next_package':
                e = E.rvalue(s.rv)
                if isinstance(e, tuple) and e[0] == 'bin' and e[1] == 'Add' and show(e[2]) == '(*self).next_package':
                    acc.add(blk.i)
    V9.floor('accepting stores (next_package += 1) in add_flda', len(acc), 1)

    def cond_of(blk):
        from facts import Operand as Op
        c = E.operand(Op(blk.term.d['d']))
        neg = False
        while isinstance(c, tuple) and c[0] == 'un' and c[1] == 'Not':
            c, neg = c[2], not neg
        return c, neg

    def kind(c):
        if not (isinstance(c, tuple) and c[0] == 'bin' and c[1] in ('Eq', 'Ne')):
            return None
        a, d = show(c[2]), show(c[3])
        if ('package_nr' in a and 'next_package' in d) or ('next_package' in a and 'package_nr' in d):
            return ('seq', c[1] == 'Ne')
        if ('payload_raw' in a and d.endswith('.buffer_size')) or ('payload_raw' in d and a.endswith('.buffer_size')):
            return ('full', c[1] == 'Ne')
        return None
    n_seq = n_full = 0
    for blk in b.blocks:
        if not blk.cleanup and blk.term.k == 'switch':
            k = kind(cond_of(blk)[0])
            if k and k[0] == 'seq':
                n_seq += 1
            if k and k[0] == 'full':
                n_full += 1
    V9.floor('sequence tests (package_nr == next_package) in add_flda', n_seq, 1)

    # the size test moved into a predicate method (`self.is_expected_payload_len(len)`): its `false` implies len != buffer_size if
    # every definition of its result other than `true` lies behind the false edge of `len_param == self.buffer_size`
    size_preds = {}
    for blk in b.calls():
        t = blk.term
        H = F.get(t.callee.resolved) if t.callee.resolved else F.get(t.callee.path)
        if H is None or H.kind == 'closure' or H.ret_type() != 'bool' or not (H.impl_self or '').startswith(MOD + 'FileTransfer'):
            continue
        lp = [H.name_of(i + 1) or 'arg%d' % (i + 1) for i, a in enumerate(t.args) if 'payload_raw' in show(E.operand(a))]
        if not lp:
            continue
        hcfg = CFG(H)
        hE = ExprBuilder(hcfg, fold_named=True)
        ok_h = True
        for (bi_, si_, d_) in hcfg.defs.get(0, []):
            if si_ == 'call':
                ok_h = False
                continue
            if hE.rvalue(d_.rv) == ('const', 1):
                continue
            under = False
            for (c_, truth_, D_) in guards.known(hcfg, hE, bi_):
                if truth_ in (True, False):
                    c2_, t2_ = guards.normalise(c_, truth_)
                    if t2_ is True and isinstance(c2_, tuple) and c2_[0] == 'bin' and c2_[1] == 'Ne':
                        a_, d2_ = show(c2_[2]), show(c2_[3])
                        if (a_ in lp and d2_.endswith('.buffer_size')) or (d2_ in lp and a_.endswith('.buffer_size')):
                            under = True
            if not under:
                ok_h = False
        if ok_h:
            size_preds[H.path] = True
            V9.fn(H.path)
            n_full += 1

    def block_effect(blk, facts):
        if blk.i in acc:
            facts = frozenset(facts | {('acc',)})
        return facts

    def edge_effect(blk, tgt, facts):
        if blk.term.k != 'switch':
            return facts
        c, neg = cond_of(blk)
        if isinstance(c, tuple) and c[0] == 'call' and c[1] in size_preds:
            for v, t_ in blk.term.d['vals']:
                if t_ == tgt and bool(v) == neg:      # the predicate is false on this edge
                    return frozenset(facts | {('notfull',)})
            if blk.term.d['otherwise'] == tgt and [v for v, _ in blk.term.d['vals']] == [0] and neg:
                return frozenset(facts | {('notfull',)})
            return facts
        k = kind(c)
        if not k:
            return facts
        val = None
        for v, t_ in blk.term.d['vals']:
            if t_ == tgt:
                val = bool(v)
        if val is None and blk.term.d['otherwise'] == tgt and [v for v, _ in blk.term.d['vals']] == [0]:
            val = True
        if val is None:
            return facts
        holds = (val != neg) != k[1]       # does the equality hold on this edge
        if k[0] == 'seq' and holds:
            return frozenset(facts | {('seq',)})
        if k[0] == 'full' and not holds:
            return frozenset(facts | {('notfull',)})
        return facts
    # bool locals that are `true` on one arm and a comparison on another (`let ok = a == b || (c && d < e)`): their constant
    # definitions are tracked, after the other ones the value is unknown until it is switched on
    from facts import Operand as _Op
    mixed = set()
    for l, ds in cfg.defs.items():
        if b.lty(l) != 'bool' or len(ds) < 2:
            continue
        consts = [1 for (bi_, si_, d_) in ds if si_ != 'call' and d_.rv['k'] == 'use' and _Op(d_.rv['o']).is_const]
        if consts and len(consts) < len(ds):
            mixed.add(l)
    ex = Explorer(cfg, block_effect=block_effect, edge_effect=edge_effect, var_roots=set(), extra_flags=mixed)
    ex.run()
    V9.paths += ex.n_states
    ends = [blk.i for blk in b.calls() if blk.term.callee.path.endswith('FileTransfer::check_finished')] or list(cfg.exits)
    bad = None
    nst = 0
    for x in ends:
        for st in ex.states.get(x, ()):
            f = st[1]
            if ('seq',) in f and ('acc',) not in f:
                nst += 1
                if ('notfull',) not in f:
                    bad = (x, st)
    V9.sites += nst
    if bad:
        V9.violation(('full-package-rejected', b.path), 'add_flda can leave a package that has the expected number un-accepted without having found its length different from buffer_size: '
                     'a full-size package (every package of a file whose size is a multiple of the package size) can be rejected, the transfer never completes', where=b.loc(None),
                     witness={'block_path': ex.witness(bad[0], bad[1])[-30:]})
    else:
        V9.ok(sample={'rejections_of_an_expected_package': nst, 'each_behind': 'len != buffer_size', 'size_tests': n_full})
    V9.floor('paths that reject an expected package', nst, 1)


# ---------------------------------------------------------------------------------------------
# V10: every handled package is counted

def check_numeric_decode(F, V11):
    """package numbers, sizes and the serial arrive as 1/2/4/8 byte integers in the byte order of the message.  raw[0] is the
    most significant byte in one order and the least significant in the other, so a decision taken on a fixed byte (sign test,
    range test) holds for one byte order only - e.g. every little-endian package number with bit 7 set in its low byte is
    rejected as negative, package 128 never arrives and the transfer never completes."""
    import rawreads
    n = 0
    for b in F.order:
        if b.crate != 'lib' or not re.search(r'plugins::file_transfer::arg_as_(uint|int|u\d+|i\d+|number)$', b.path):
            continue
        cfg = CFG(b)
        E = ExprBuilder(cfg, fold_named=True)
        V11.fn(b.path)
        froms = [blk for blk in b.calls() if re.search(r'::from_(be|le)_bytes$', blk.term.callee.path)]
        V11.floor('from_be/le_bytes decodes in ' + b.path.split('::')[-1], len(froms), 2)
        for blk in froms:
            be = blk.term.callee.path.endswith('from_be_bytes')
            V11.sites += 1
            verdict = None
            for (c, truth, D) in guards.known(cfg, E, blk.i):
                if truth in (True, False) and re.search(r'\.is_big_endian\)?$', show(c)):
                    verdict = truth
            if verdict is None:
                V11.violation(('decode-not-under-byte-order-test', b.path), '%s calls %s at %s outside any test of is_big_endian' % (b.path.split('::')[-1], blk.term.callee.path.split('::')[-1], b.loc(blk.term.sp)), where=b.loc(blk.term.sp))
            elif verdict != be:
                V11.violation(('decode-with-wrong-byte-order', b.path), '%s decodes with %s at %s on the is_big_endian == %s edge' % (b.path.split('::')[-1], blk.term.callee.path.split('::')[-1], b.loc(blk.term.sp), str(verdict).lower()), where=b.loc(blk.term.sp))
            else:
                V11.ok(sample={'decode': blk.term.callee.path.split('::')[-1], 'at': b.loc(blk.term.sp), 'edge': 'is_big_endian == %s' % str(verdict).lower()})
        for blk in rawreads.byte_reads(b, E, lambda sx: 'payload_raw' in sx):
            n += 1
            V11.sites += 1
            ok = None
            for (c, truth, D) in guards.known(cfg, E, blk.i):
                sc = show(c)
                if 'is_big_endian' in sc:
                    ok = 'under a test of is_big_endian'
                if re.search(r'(len\(|PtrMetadata\()', sc) and 'payload_raw' in sc:
                    is_cmp = isinstance(c, tuple) and c[0] == 'bin'
                    if (not is_cmp and truth == ('eq', 1)) or (truth is True and is_cmp and c[1] == 'Eq' and ('const', 1) in (c[2], c[3])):
                        ok = 'value is one byte long'
            if ok:
                V11.ok(sample={'byte_read_at': b.loc(blk.term.sp), 'why_byte_order_free': ok})
            else:
                V11.violation(('byte-order-blind-read', b.path), '%s looks at a fixed byte of the raw value at %s without knowing the value is one byte long and without a test of is_big_endian: '
                              'the decision holds for one byte order only (package numbers / sizes of the other order are mis-decoded or rejected)' % (b.path.split('::')[-1], b.loc(blk.term.sp)), where=b.loc(blk.term.sp))
    V11.floor('single-byte reads in the numeric argument decoder', n, 1)


def check_every_package_counted(F, V10):
    """check_finished decides Incomplete from `recvd_packages` against next_package / nr_packages: a package that arrived but was not
    accepted (wrong size, gap, duplicate) must still be counted, otherwise a transfer with a damaged package looks as if
    nothing had gone wrong and is later declared Complete with less data.  On every path of add_flda that reaches
    check_finished the counter has been incremented exactly once."""
    from paths import Explorer
    import pairing
    b = F.get(MOD + 'FileTransfer::add_flda')
    if b is None:
        V10.violation(('anchor-lost', 'add_flda'), 'FileTransfer::add_flda not found')
        return
    V10.fn(b.path)
    cfg = CFG(b)
    E = ExprBuilder(cfg, fold_named=True)
    inc = set()
    for blk in b.blocks:
        if blk.cleanup:
            continue
        for s in blk.stmts:
            if s.k == 'assign' and show(E.target(s.place)) == '(*self).recvd_packages':
                e = E.rvalue(s.rv)
                if isinstance(e, tuple) and e[0] == 'bin' and e[1] == 'Add' and show(e[2]) == '(*self).recvd_packages' and e[3] == ('const', 1):
                    inc.add(blk.i)
    V10.floor('increments of recvd_packages in add_flda', len(inc), 1)

    def block_effect(blk, facts):
        if blk.i in inc:
            facts = pairing.bump(facts, 'rp')
        return facts
    ex = Explorer(cfg, block_effect=block_effect, var_roots=set())
    ex.run()
    V10.paths += ex.n_states
    ends = [blk.i for blk in b.calls() if blk.term.callee.path.endswith('FileTransfer::check_finished')]
    V10.floor('calls of check_finished in add_flda', len(ends), 1)
    bad = None
    nst = 0
    for x in ends:
        for st in ex.states.get(x, ()):
            nst += 1
            if pairing.count(st[1], 'rp') != 1:
                bad = (x, st, pairing.count(st[1], 'rp'))
    V10.sites += nst
    if bad:
        V10.violation(('package-not-counted', b.path), 'add_flda can reach check_finished with recvd_packages incremented %d time(s) for the package just handled (expected exactly once): a package that was not accepted leaves no trace, '
                      'the transfer is later judged as if it had never arrived' % bad[2], where=b.loc(None), witness={'block_path': ex.witness(bad[0], bad[1])[-30:]})
    else:
        V10.ok(sample={'paths_to_check_finished': nst, 'each_counts_the_package_once': True})
